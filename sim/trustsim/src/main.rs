//! trustsim - deterministic simulation with fault injection for trust-platform.
#![allow(unexpected_cfgs)]
#![allow(clippy::all)]
#![allow(dead_code)]

mod alloc_probe;
mod checks;
#[cfg(feature = "shuttle")]
mod engine_b;
mod framework;
mod proggen;
mod rng;
mod world;

use framework::{Check, Tier};

fn usage() -> ! {
    eprintln!(
        "usage:\n  trustsim check <ID> <quick|thorough> [--seed N] [--cases N] [--shards N]\n  trustsim replay <file>\n  trustsim list\n  (internal) trustsim worker <ID> <tier> <seed> <start> <step> <cases>\n  (internal) trustsim runcase <file>"
    );
    std::process::exit(2);
}

fn find(id: &str) -> &'static dyn Check {
    match checks::all().into_iter().find(|c| c.id().eq_ignore_ascii_case(id)) {
        Some(c) => c,
        None => {
            eprintln!("unknown check {id}");
            std::process::exit(2);
        }
    }
}

fn main() {
    let args: Vec<String> = std::env::args().collect();
    if args.len() < 2 {
        usage();
    }
    match args[1].as_str() {
        "list" => {
            for c in checks::all() {
                println!("{}", c.id());
            }
        }
        "check" => {
            if args.len() < 4 {
                usage();
            }
            let check = find(&args[2]);
            let tier = Tier::parse(&args[3]).unwrap_or_else(|| usage());
            let mut seed = std::env::var("VERIF_SEED").ok().and_then(|s| s.parse().ok()).unwrap_or(framework::DEFAULT_SEED);
            let mut cases = None;
            let mut shards = std::thread::available_parallelism().map(|n| n.get() as u64).unwrap_or(8).min(16);
            let mut i = 4;
            while i + 1 < args.len() {
                match args[i].as_str() {
                    "--seed" => seed = args[i + 1].parse().unwrap_or_else(|_| usage()),
                    "--cases" => cases = Some(args[i + 1].parse().unwrap_or_else(|_| usage())),
                    "--shards" => shards = args[i + 1].parse().unwrap_or_else(|_| usage()),
                    _ => usage(),
                }
                i += 2;
            }
            let out = framework::check_main(check, tier, seed, cases, shards.max(1));
            std::process::exit(out.exit_code);
        }
        "worker" => {
            if args.len() < 8 {
                usage();
            }
            let check = find(&args[2]);
            let tier = Tier::parse(&args[3]).unwrap_or_else(|| usage());
            let seed: u64 = args[4].parse().unwrap_or_else(|_| usage());
            let start: u64 = args[5].parse().unwrap_or_else(|_| usage());
            let step: u64 = args[6].parse().unwrap_or_else(|_| usage());
            let cases: u64 = args[7].parse().unwrap_or_else(|_| usage());
            run_on_big_stack(move || framework::worker_main(check, tier, seed, start, step, cases));
        }
        "runcase" => {
            if args.len() < 3 {
                usage();
            }
            let text = std::fs::read_to_string(&args[2]).expect("read case file");
            let v: serde_json::Value = serde_json::from_str(&text).expect("parse case file");
            let check = find(v["check"].as_str().unwrap_or(""));
            let case = v["case"].clone();
            run_on_big_stack(move || framework::runcase_main(check, &case));
        }
        "compile" => {
            // dev helper: compile an ST file, run N cycles (10 ms apart), dump storage
            let text = std::fs::read_to_string(&args[2]).expect("read source");
            let cycles: u64 = args.get(3).and_then(|s| s.parse().ok()).unwrap_or(1);
            match world::compile(&text) {
                Err(e) => {
                    println!("COMPILE ERROR: {e}");
                    std::process::exit(1);
                }
                Ok(mut rt) => {
                    rt.io_mut().resize(16, 16, 16);
                    for c in 0..cycles {
                        rt.set_current_time(trust_runtime::value::Duration::from_nanos((c as i64 + 1) * 10_000_000));
                        let r = rt.execute_cycle();
                        println!("cycle {c}: {r:?} executed={}", verif_hooks::budget::executed());
                    }
                    for (k, v) in world::dump_storage(&rt) {
                        println!("{k} = {v}");
                    }
                    println!("outputs={:?}", rt.io().outputs());
                }
            }
        }
        "diag" => {
            // dev helper: every diagnostic (errors and warnings) the checker reports for an ST file
            let text = std::fs::read_to_string(&args[2]).expect("read source");
            let mut db = trust_hir::db::Database::new();
            let f = trust_hir::db::FileId(0);
            trust_hir::db::SourceDatabase::set_source_text(&mut db, f, text);
            if args.get(3).map(String::as_str) == Some("--tree") {
                println!("{:#?}", trust_syntax::parser::parse(&std::fs::read_to_string(&args[2]).unwrap()).syntax());
            }
            for d in trust_hir::db::SemanticDatabase::diagnostics(&db, f).iter() {
                println!("{} error={} {:?}", d, d.is_error(), d.range);
            }
        }
        "c05child" => {
            let variant: u64 = args.get(3).and_then(|s| s.parse().ok()).unwrap_or(1);
            checks::c05::child_main(&args[2], variant);
        }
        "gencase" => {
            // dev helper: print the explicit case for (check, tier, seed, index); with "--src" render a ProgGen project
            let check = find(&args[2]);
            let tier = Tier::parse(&args[3]).unwrap_or_else(|| usage());
            let seed: u64 = args[4].parse().unwrap_or_else(|_| usage());
            let index: u64 = args[5].parse().unwrap_or_else(|_| usage());
            let case = framework::generate_case(check, seed, tier, index);
            if args.get(6).map(String::as_str) == Some("--src") {
                println!("{}", proggen::render(&case["project"]));
            } else {
                println!("{}", serde_json::to_string_pretty(&case).unwrap());
            }
        }
        "replay" => {
            if args.len() < 3 {
                usage();
            }
            let path = std::path::PathBuf::from(&args[2]);
            match framework::replay_file(&path) {
                Err(e) => {
                    eprintln!("HARNESS-ERROR: {e}");
                    std::process::exit(2);
                }
                Ok((id, None, expected)) => {
                    println!("replay {}: no violation (recorded signature: {expected})", path.display());
                    let _ = id;
                    std::process::exit(0);
                }
                Ok((id, Some((sig, detail)), expected)) => {
                    println!("replay {}: {sig}: {detail}", path.display());
                    if sig != expected {
                        println!("note: recorded signature was {expected}");
                    }
                    println!("VIOLATION property={id} replay={}", path.display());
                    std::process::exit(1);
                }
            }
        }
        _ => usage(),
    }
}

fn run_on_big_stack(f: impl FnOnce() + Send + 'static) {
    let handle = std::thread::Builder::new().stack_size(256 << 20).spawn(f).expect("spawn");
    if handle.join().is_err() {
        eprintln!("HARNESS-PANIC: worker thread panicked outside a case");
        std::process::exit(2);
    }
}
