#!/usr/bin/env python3
"""tools/seeded_note.py <seeded-dir-name> <initial verdict: caught|missed> [strengthening text]"""
import json, sys
p = f"/verif/seeded/{sys.argv[1]}/meta.json"
m = json.load(open(p))
m["initial_verdict"] = sys.argv[2]
if len(sys.argv) > 3:
    m["strengthening"] = sys.argv[3]
json.dump(m, open(p, "w"), indent=1)
