//! C19 - web IDE file API stays inside the project and never loses a
//! concurrent edit (operation granularity, single-threaded engine).
//!
//! World: a real temp tree (sentinel tree, project nested inside, hidden
//! entries, symlinks of every kind), the real `WebIdeState`, a simulated clock.
//! After EVERY operation: full snapshot diff (outside untouched, hidden
//! untouched, unauthorised sessions change nothing at all), marker scan of the
//! reply (nothing from outside / hidden), version-chain oracle (`c19_chain`).
use std::collections::BTreeMap;
use std::sync::atomic::{AtomicU64, Ordering};
use std::sync::Arc;

use serde_json::{json, Value as Json};
use trust_runtime::web::ide::{IdeRole, WebIdeState};

use super::c19_chain::{check_version_chain, EvOp, Event};
use super::c19_gen;
use super::c19_ops::{self as ops, Reply};
use super::c19_world::{bytes_hash, diff, forbidden_markers, has_hidden_component, norm_key, snap_hash, under, Ent, Snap, World, PROJ_REL};
use crate::framework::{guard, Check, Stats, Tier, Violation};
use crate::rng::{hash_str, Fnv, Rng};

pub struct C19Check;
pub static C19: C19Check = C19Check;

const T0: u64 = 1_000_000;

#[derive(Clone, Copy, PartialEq, Eq, Debug)]
enum Auth {
    Editor,
    Viewer,
    Bogus,
    Expired,
}

impl Auth {
    fn name(self) -> &'static str {
        match self {
            Auth::Editor => "editor",
            Auth::Viewer => "viewer",
            Auth::Bogus => "bogus",
            Auth::Expired => "expired",
        }
    }
}

struct Sess {
    editor: bool,
    token: String,
    last_call: u64,
    dead: bool,
}

/// unique content per id: unique text AND unique length (the product's
/// analysis cache fingerprints files by size + mtime; unique sizes keep the
/// run independent of mtime granularity)
pub fn gen_content(cid: u64) -> String {
    let mut s = format!("(* c{cid} *)\nPROGRAM W{cid}\nVAR\n  w{cid} : INT;\nEND_VAR\nw{cid} := SharedFn(w{cid});\nEND_PROGRAM\n(* ");
    let target = 260 + cid as usize;
    while s.len() + 4 < target {
        s.push('p');
    }
    s.push_str(" *)\n");
    s
}

/// how the path string reaches the file system (names the mechanism in signatures)
fn route(raw: &str, pre: &Snap, root_rel: &str) -> &'static str {
    let t = raw.trim();
    if t.is_empty() {
        return "empty";
    }
    if t.contains('\0') {
        return "nul";
    }
    if t.starts_with('/') || t.starts_with("${") {
        return "absolute";
    }
    if t.split('/').any(|c| c == "..") {
        return "dotdot";
    }
    let key = norm_key(t);
    let comps: Vec<&str> = key.split('/').collect();
    let mut cur = root_rel.to_string();
    for (i, c) in comps.iter().enumerate() {
        cur = if cur.is_empty() { (*c).to_string() } else { format!("{cur}/{c}") };
        if let Some(Ent::Link(_)) = pre.get(&cur) {
            return if i + 1 == comps.len() { "symlink-leaf" } else { "symlink-parent" };
        }
    }
    if comps.iter().any(|c| c.starts_with('.')) {
        "hidden"
    } else if t.contains('\\') {
        "backslash"
    } else if t.contains('%') {
        "encoded"
    } else if !t.is_ascii() {
        "unicode"
    } else if t.len() > 255 {
        "long"
    } else {
        "plain"
    }
}

struct Run<'a> {
    world: World,
    ide: WebIdeState,
    clock: Arc<AtomicU64>,
    ttl: u64,
    sessions: BTreeMap<String, Sess>,
    /// active project, relative to the sentinel root
    root_rel: String,
    history: Vec<Event>,
    /// real file -> hash of the content of the last content-defining event
    last_content: BTreeMap<String, u64>,
    /// (session alias, key) -> version the session was last told
    seen: BTreeMap<(String, String), u64>,
    stats: &'a mut Stats,
}

impl Run<'_> {
    fn now(&self) -> u64 {
        self.clock.load(Ordering::SeqCst)
    }

    fn login(&mut self, id: &str, role: &str) -> Result<(), Violation> {
        let r = if role == "editor" { IdeRole::Editor } else { IdeRole::Viewer };
        let res = guard("create_session", || self.ide.create_session(r))?;
        if let Ok(sess) = res {
            let now = self.now();
            self.sessions.insert(id.to_string(), Sess { editor: role == "editor", token: sess.token, last_call: now, dead: false });
        }
        Ok(())
    }

    /// token to send + what the property allows that session to do
    fn resolve(&mut self, sid: &str) -> (String, Auth) {
        let now = self.now();
        if let Some(form) = sid.strip_prefix('!') {
            let (kind, of) = form.split_once(':').unwrap_or((form, ""));
            let base = self.sessions.get(of).map(|s| s.token.clone()).unwrap_or_else(|| "AAAAAAAAAAAAAAAAAAAAAAAAAAAAAAAAAAAAAAAAAAA".to_string());
            let token = match kind {
                "empty" => String::new(),
                "garbage" => "not-a-session-token".to_string(),
                "prefix8" => base.chars().take(8).collect(),
                "case" => base.chars().map(|c| if c.is_ascii_lowercase() { c.to_ascii_uppercase() } else { c.to_ascii_lowercase() }).collect(),
                "pad" => format!("{base} "),
                "nul" => format!("{base}\0"),
                _ => "no-such-session".to_string(),
            };
            // a derived token that happens to equal a real one is that session
            if let Some((id, _)) = self.sessions.iter().find(|(_, s)| s.token == token) {
                let id = id.clone();
                return self.resolve(&id);
            }
            return (token, Auth::Bogus);
        }
        let ttl = self.ttl;
        match self.sessions.get_mut(sid) {
            None => (format!("no-such-session-{sid}"), Auth::Bogus),
            Some(s) => {
                if !s.dead && now > s.last_call.saturating_add(ttl) {
                    s.dead = true;
                    self.stats.inc("fault.clock_expiry");
                }
                if s.dead {
                    (s.token.clone(), Auth::Expired)
                } else {
                    s.last_call = now;
                    (s.token.clone(), if s.editor { Auth::Editor } else { Auth::Viewer })
                }
            }
        }
    }

    fn root_abs(&self) -> std::path::PathBuf {
        if self.root_rel.is_empty() {
            self.world.s.clone()
        } else {
            self.world.s.join(&self.root_rel)
        }
    }

    /// identity of the real file behind an API key (sentinel-relative)
    fn real_of(&self, key: &str) -> String {
        let lexical = if self.root_rel.is_empty() { key.to_string() } else { format!("{}/{}", self.root_rel, key) };
        if key.contains('\0') {
            return lexical;
        }
        match self.root_abs().join(key).canonicalize() {
            Ok(c) => self.world.rel(&c).unwrap_or_else(|| format!("<abs>{}", self.world.unsubst(&c.to_string_lossy()))),
            Err(_) => lexical,
        }
    }

    fn file_hash(snap: &Snap, real: &str) -> Option<u64> {
        match snap.get(real) {
            Some(Ent::File(c)) => Some(bytes_hash(c)),
            _ => None,
        }
    }

    fn known_pairs(&self) -> Vec<(String, String)> {
        let mut v: Vec<(String, String)> = self.history.iter().map(|e| (e.file.clone(), e.real.clone())).collect();
        v.sort();
        v.dedup();
        v
    }

    #[allow(clippy::too_many_arguments)]
    fn push(&mut self, session: &str, op: EvOp, file: &str, real: &str, expected: Option<u64>, version: Option<u64>, content: Option<u64>, post: &Snap) {
        match op {
            EvOp::WriteAck | EvOp::ContentSet | EvOp::Moved | EvOp::External => match content {
                Some(c) => {
                    self.last_content.insert(real.to_string(), c);
                }
                None => {
                    self.last_content.remove(real);
                }
            },
            EvOp::Reset => {
                self.last_content.remove(real);
            }
            _ => {}
        }
        self.history.push(Event {
            session: session.to_string(),
            op,
            file: file.to_string(),
            real: real.to_string(),
            expected,
            version,
            content,
            disk_after: Self::file_hash(post, real),
        });
    }
}

fn viol(sig: String, opi: usize, op: &Json, detail: String) -> Violation {
    let mut o = op.to_string();
    if o.len() > 300 {
        o.truncate(300);
        o.push_str("...");
    }
    Violation::new(sig, format!("op {opi} {o}: {detail}"))
}

impl Check for C19Check {
    fn id(&self) -> &'static str {
        "C19"
    }
    fn cases(&self, tier: Tier) -> u64 {
        match tier {
            Tier::Quick => 6_000,
            Tier::Thorough => 60_000,
        }
    }
    fn rule(&self) -> &'static str {
        "case = project fixture (plain files/dirs, hidden entries, symlinked dir/file out of the project, symlink to hidden, dangling/absolute/looping/benign symlinks; entries randomly dropped) nested in a sentinel tree x sessions (editors, viewers, idle editor that expires, bogus token forms, write-disabled flag) x 25-60 seeded operations over the whole WebIdeState API with hostile path strings (confine profile) or k editors doing open/write(expected)/retry with external modifications, delete+create, rename, project re-selection (chain profile; 1 in 5 of those starts with a scripted skeleton: A observes, B writes, the server's memory of the file is reset by delete+create / directory delete / rename away and back / project re-selection / file vanishing behind the IDE, A writes with the version it saw); round 3: files whose names differ in letter case only, renames aimed at existing files (an acknowledged rename must not replace a file that was there before); distinct non-trivial = distinct (operation, path route, path class, session authority, outcome) tuple reached, plus distinct per-file sequences of (session, event) containing at least one refused or acknowledged write"
    }
    fn assumptions(&self) -> Vec<&'static str> {
        vec![
            "the active project is whatever set_active_project last accepted (any session may re-root the IDE, by design); 'outside' and 'hidden' are judged relative to it",
            "browse_directory is the project chooser, not one of the property's file operations: it may list names outside the project, but must not mutate anything or return file content",
            "'expired' = more than TTL seconds (capabilities().limits.session_ttl_secs) after the session's last API call of any kind; behaviour exactly at the boundary is left open",
            "'cannot mutate anything' is judged on the file system (whole sentinel tree identical); server-side session/document bookkeeping is not observable and not judged",
            "hidden entries below a visible directory follow that directory when an authorised editor deletes or renames the directory itself",
            "a conflict reply's current_version counts as an observation of that version by the session; a write whose expected version nobody was ever told is not judged (the client guessed)",
            "external modifications need not be detected as conflicts; they only redefine what the file must equal until the next acknowledged write",
            "a reply may repeat marker strings that the request itself contained; health / fs_audit / project_selection report the IDE's own bookkeeping of earlier requests (paths included) and are only checked for file content, not names",
            "a symbol rename (successful or failed half-way) counts as an acknowledged content change of every file it modified",
        ]
    }
    fn components(&self) -> (Vec<&'static str>, Vec<&'static str>) {
        (
            vec!["trust_runtime::web::ide::WebIdeState (whole public API)", "real file system under target/scratch (symlinks, hidden entries)", "trust-wasm-analysis / trust-ide analysis behind diagnostics/hover/completion/rename"],
            vec!["clock (WebIdeState::verif_with_clock)", "HTTP layer of web.rs (not started; ide_write_enabled is constant true there)", "thread interleavings (operation granularity only; shuttle variant separate)"],
        )
    }

    fn generate(&self, rng: &mut Rng, tier: Tier, _index: u64) -> Json {
        c19_gen::generate(rng, tier)
    }

    fn run(&self, case: &Json, stats: &mut Stats) -> Result<(), Violation> {
        for k in [
            "probe.write_acked",
            "probe.conflict_refused",
            "probe.write_acked_after_conflict",
            "probe.editor_mutation_ok",
            "probe.escape_refused",
            "probe.hidden_refused",
            "probe.expired_refused",
            "probe.viewer_refused",
            "probe.write_disabled_refused",
            "probe.resync_after_external",
            "probe.project_switched",
            "probe.rename_symbol_multi_file",
            "probe.search_hits",
            "probe.version_reset_then_write",
        ] {
            stats.add(k, 0);
        }
        let files = case["files"].as_array().cloned().unwrap_or_default();
        let world = World::build(&files).map_err(|e| Violation::new("harness/fixture", e))?;
        let clock = Arc::new(AtomicU64::new(T0));
        let ide = {
            let c = clock.clone();
            WebIdeState::verif_with_clock(Some(world.proj()), Arc::new(move || c.load(Ordering::SeqCst)))
        };
        let ttl = ide.capabilities(true).limits.session_ttl_secs;
        let mut run = Run {
            world,
            ide,
            clock,
            ttl,
            sessions: BTreeMap::new(),
            root_rel: PROJ_REL.to_string(),
            history: vec![],
            last_content: BTreeMap::new(),
            seen: BTreeMap::new(),
            stats,
        };
        for s in case["sessions"].as_array().cloned().unwrap_or_default() {
            run.login(s["id"].as_str().unwrap_or("?"), s["role"].as_str().unwrap_or("viewer"))?;
        }
        let op_list = case["ops"].as_array().cloned().unwrap_or_default();
        run.stats.sample(json!({"profile": case["profile"], "sessions": case["sessions"], "ops": op_list.iter().take(8).cloned().collect::<Vec<_>>()}));
        let mut pre = run.world.snapshot();
        let mut had_conflict: BTreeMap<(String, String), bool> = BTreeMap::new();

        for (opi, op) in op_list.iter().enumerate() {
            let kind = op["k"].as_str().unwrap_or("");
            match kind {
                "tick" => {
                    let dt = op["dt"].as_u64().unwrap_or(0).min(1 << 40);
                    run.clock.fetch_add(dt, Ordering::SeqCst);
                    run.stats.sim_time_ns += u128::from(dt) * 1_000_000_000;
                    run.stats.log(&format!("{opi}:tick:{dt}"));
                    continue;
                }
                "login" => {
                    run.login(op["sid"].as_str().unwrap_or("?"), op["role"].as_str().unwrap_or("viewer"))?;
                    run.stats.log(&format!("{opi}:login"));
                    continue;
                }
                "ext" | "extdel" => {
                    // modification behind the API's back (original project only, plain files)
                    let p = op["p"].as_str().unwrap_or("");
                    let lexical = format!("{PROJ_REL}/{}", norm_key(p));
                    let real = match run.world.s.join(&lexical).canonicalize() {
                        Ok(c) => run.world.rel(&c).unwrap_or_default(),
                        Err(_) => String::new(),
                    };
                    let ok = matches!(pre.get(&real), Some(Ent::File(_))) && matches!(under(&real, PROJ_REL), Some(r) if !has_hidden_component(r));
                    if !ok {
                        run.stats.log(&format!("{opi}:{kind}:skipped"));
                        continue;
                    }
                    let abs = run.world.s.join(&real);
                    let content = gen_content(op["c"].as_u64().unwrap_or(0));
                    if kind == "ext" {
                        std::fs::write(&abs, content.as_bytes()).map_err(|e| Violation::new("harness/ext-write", e.to_string()))?;
                    } else {
                        std::fs::remove_file(&abs).map_err(|e| Violation::new("harness/ext-delete", e.to_string()))?;
                    }
                    run.stats.inc("fault.external_modification");
                    let post = run.world.snapshot();
                    let file_key = under(&real, &run.root_rel).map(str::to_string).unwrap_or_else(|| format!("<other-root>{real}"));
                    if kind == "ext" {
                        run.push("ext", EvOp::External, &file_key, &real, None, None, Some(bytes_hash(content.as_bytes())), &post);
                    } else {
                        run.push("ext", EvOp::Reset, &file_key, &real, None, None, None, &post);
                    }
                    run.stats.log(&format!("{opi}:{kind}:{real}"));
                    pre = post;
                    continue;
                }
                _ => {}
            }

            // ---------------- API operation
            let sid = op["s"].as_str().unwrap_or("!empty").to_string();
            let (token, auth) = run.resolve(&sid);
            let we = op["we"].as_bool().unwrap_or(true);
            let raw_p = op["p"].as_str().unwrap_or("");
            let raw_to = op["to"].as_str().unwrap_or("");
            let path = run.world.subst(raw_p);
            let to = run.world.subst(raw_to);
            let content = op["c"].as_u64().map(gen_content);
            let key = norm_key(raw_p);
            let expected: u64 = match op["exp"]["m"].as_str() {
                Some("abs") => op["exp"]["v"].as_u64().unwrap_or(0),
                _ => {
                    let seen = run.seen.get(&(sid.clone(), key.clone())).copied().unwrap_or(1);
                    let d = op["exp"]["d"].as_i64().unwrap_or(0);
                    (i128::from(seen) + i128::from(d)).clamp(0, i128::from(u64::MAX)) as u64
                }
            };
            let root_rel = run.root_rel.clone();
            let rt = route(raw_p, &pre, &root_rel);
            let rt_full = if kind == "rename" { format!("{rt}>{}", route(raw_to, &pre, &root_rel)) } else { rt.to_string() };
            let real_pre = run.real_of(&key);
            // real file behind every API key known so far, as of before the operation
            let pre_reals: Vec<(String, String)> = {
                let mut keys: Vec<String> = run.history.iter().map(|e| e.file.clone()).collect();
                keys.push(key.clone());
                keys.sort();
                keys.dedup();
                keys.into_iter().map(|k| { let r = run.real_of(&k); (k, r) }).collect()
            };
            let forb = forbidden_markers(&pre, &root_rel);
            let mutating = ops::is_mutating(kind);
            let authorised = mutating && auth == Auth::Editor && we;

            let reply: Reply = match guard(kind, || ops::call(&run.ide, op, &token, &path, &to, content.clone(), expected, we))? {
                Some(r) => r,
                None => continue,
            };
            let post = run.world.snapshot();
            let changes = diff(&pre, &post);
            let outcome = reply.outcome();

            // ---- coverage bookkeeping
            run.stats.inc(&format!("op.{kind}"));
            run.stats.inc(&format!("fault.session.{}", if mutating && !we { "write-disabled" } else { auth.name() }));
            let cls = op["cls"].as_str().unwrap_or("-");
            if !matches!(cls, "-" | "plain" | "plain-new" | "plain-dir") {
                run.stats.inc(&format!("fault.path.{cls}"));
            }
            {
                let mut h = Fnv::new();
                h.str(kind).str(&rt_full).str(cls).str(op["cls2"].as_str().unwrap_or("")).str(auth.name()).u64(u64::from(we)).str(outcome);
                run.stats.nontrivial(h.finish());
            }

            // ---- 1. confinement / hidden / permission: judged on the snapshot diff
            let why_unauth = if !mutating {
                "readonly"
            } else if !we {
                "write-disabled"
            } else {
                auth.name()
            };
            let mut allowed_hidden_prefixes: Vec<String> = vec![];
            if authorised && reply.is_ok() && matches!(kind, "delete" | "rename") {
                let lex = |k: &str| if root_rel.is_empty() { k.to_string() } else { format!("{root_rel}/{k}") };
                allowed_hidden_prefixes.push(lex(&key));
                allowed_hidden_prefixes.push(real_pre.clone());
                if kind == "rename" {
                    let nk = norm_key(raw_to);
                    allowed_hidden_prefixes.push(lex(&nk));
                    allowed_hidden_prefixes.push(run.real_of(&nk));
                }
            }
            for (p, chg) in &changes {
                if under(p, &root_rel).is_none() {
                    return Err(viol(
                        format!("confine/outside-{chg}/{kind}/{rt_full}"),
                        opi,
                        op,
                        format!("{} session ({outcome}): entry outside the project {chg}: {p}", auth.name()),
                    ));
                }
            }
            for (p, chg) in &changes {
                let rest = under(p, &root_rel).unwrap_or("");
                if has_hidden_component(rest) && !allowed_hidden_prefixes.iter().any(|pre| under(p, pre).is_some()) {
                    return Err(viol(
                        format!("hidden/{chg}/{kind}/{rt_full}"),
                        opi,
                        op,
                        format!("{} session ({outcome}): hidden entry {chg}: {p}", auth.name()),
                    ));
                }
            }
            if !changes.is_empty() && !authorised {
                let sig = if mutating { format!("perm/{why_unauth}-mutated/{kind}") } else { format!("readonly-op-mutated/{kind}") };
                return Err(viol(
                    sig,
                    opi,
                    op,
                    format!("{why_unauth} request ({outcome}) changed the tree: {:?}", changes.iter().take(4).collect::<Vec<_>>()),
                ));
            }
            if kind == "write" && !reply.is_ok() && !changes.is_empty() {
                return Err(viol(
                    "lost-update/refused-write-changed-tree".into(),
                    opi,
                    op,
                    format!("refused write ({outcome}) changed {:?}", changes.iter().take(4).collect::<Vec<_>>()),
                ));
            }

            // ---- 2. nothing from outside / hidden in the reply
            if !forb.is_empty() {
                let request = op.to_string().to_lowercase();
                for (ipath, text) in ops::reply_items(kind, raw_p, &reply) {
                    for (m, (class, what)) in &forb {
                        if (matches!(kind, "browse" | "meta") && *what == "name") || request.contains(m.as_str()) {
                            continue;
                        }
                        if text.contains(m.as_str()) {
                            let via = route(&ipath, &pre, &root_rel);
                            return Err(viol(
                                format!("leak/{class}-{what}/{kind}/{via}"),
                                opi,
                                op,
                                format!("{} session: reply ({outcome}) contains {what} marker {m} of a {class} entry (via {})", auth.name(), run.world.unsubst(&ipath)),
                            ));
                        }
                    }
                }
            }

            // ---- 3. version chain events
            let n_events = run.history.len();
            let mut extra = String::new();
            match kind {
                "open" => {
                    if let Some(v) = &reply.ok {
                        let file = v["path"].as_str().unwrap_or(&key).to_string();
                        let ver = v["version"].as_u64();
                        let ch = bytes_hash(v["content"].as_str().unwrap_or("").as_bytes());
                        let real = run.real_of(&file);
                        if let (Some(ver), Some(prev)) = (ver, run.seen.get(&(sid.clone(), file.clone()))) {
                            if ver > *prev && run.history.iter().rev().find(|e| e.real == real).is_some_and(|e| e.op == EvOp::External) {
                                run.stats.inc("probe.resync_after_external");
                            }
                        }
                        run.push(&sid, EvOp::Open, &file, &real, None, ver, Some(ch), &post);
                        if let Some(ver) = ver {
                            run.seen.insert((sid.clone(), file.clone()), ver);
                            run.seen.insert((sid.clone(), key.clone()), ver);
                        }
                        extra = format!("v{}", ver.unwrap_or(0));
                    }
                }
                "write" => {
                    let ch = content.as_ref().map(|c| bytes_hash(c.as_bytes()));
                    if let Some(v) = &reply.ok {
                        let file = v["path"].as_str().unwrap_or(&key).to_string();
                        let ver = v["version"].as_u64();
                        run.push(&sid, EvOp::WriteAck, &file, &real_pre, Some(expected), ver, ch, &post);
                        if let Some(ver) = ver {
                            run.seen.insert((sid.clone(), file.clone()), ver);
                            run.seen.insert((sid.clone(), key.clone()), ver);
                        }
                        run.stats.inc("probe.write_acked");
                        if had_conflict.remove(&(sid.clone(), file.clone())).is_some() {
                            run.stats.inc("probe.write_acked_after_conflict");
                        }
                        if run.history[..run.history.len() - 1].iter().rev().take_while(|e| e.op != EvOp::WriteAck).any(|e| e.op == EvOp::Reset && e.file == file) {
                            run.stats.inc("probe.version_reset_then_write");
                        }
                        extra = format!("e{expected}v{}", ver.unwrap_or(0));
                    } else {
                        run.push(&sid, EvOp::WriteRefused, &key, &real_pre, Some(expected), None, ch, &post);
                        if let Some(cur) = reply.conflict_version {
                            // the version a conflict reply reports denotes the file as it is right now
                            let denotes = Self::pre_file_hash(&post, &real_pre);
                            run.push(&sid, EvOp::ConflictInfo, &key, &real_pre, None, Some(cur), denotes, &post);
                            run.seen.insert((sid.clone(), key.clone()), cur);
                            had_conflict.insert((sid.clone(), key.clone()), true);
                            run.stats.inc("probe.conflict_refused");
                            extra = format!("e{expected}cur{cur}");
                        }
                    }
                }
                "create" => {
                    if let Some(v) = &reply.ok {
                        if v["kind"] == "file" {
                            let file = v["path"].as_str().unwrap_or(&key).to_string();
                            let ver = v["version"].as_u64();
                            let text = content.clone().unwrap_or_default();
                            let real = run.real_of(&file);
                            run.push(&sid, EvOp::ContentSet, &file, &real, None, ver, Some(bytes_hash(text.as_bytes())), &post);
                            if let Some(ver) = ver {
                                run.seen.insert((sid.clone(), file.clone()), ver);
                                run.seen.insert((sid.clone(), key.clone()), ver);
                            }
                            extra = format!("v{}", ver.unwrap_or(0));
                        }
                    }
                }
                "delete" => {
                    if reply.is_ok() {
                        for (f, r) in &pre_reals {
                            if *f == key || under(f, &key).is_some() {
                                run.push(&sid, EvOp::Reset, f, r, None, None, None, &post);
                            }
                        }
                        let gone: Vec<String> = run.last_content.keys().filter(|r| !matches!(post.get(*r), Some(Ent::File(_)))).cloned().collect();
                        for r in gone {
                            run.last_content.remove(&r);
                        }
                    }
                }
                "rename" => {
                    if reply.is_ok() {
                        let nk = reply.ok.as_ref().and_then(|v| v["path"].as_str()).unwrap_or("").to_string();
                        // an acknowledged rename must not replace a file that was there before: whatever was last
                        // written to that file successfully would be gone without any refusal
                        // (the path itself, as it was before the call: a renamed symlink resolves elsewhere afterwards)
                        let target_lex = format!("{root_rel}/{nk}");
                        if nk != key {
                            if let Some(Ent::File(_)) = pre.get(&target_lex) {
                                return Err(Violation::new(
                                    "lost-update/rename-replaced-existing-file",
                                    format!("op {opi}: rename {key:?} -> {nk:?} was acknowledged although {nk:?} existed as a file: its content was silently replaced"),
                                ));
                            }
                        }
                        for (f, r) in pre_reals.clone() {
                            let suffix = if f == key { Some("") } else { under(&f, &key) };
                            let Some(suffix) = suffix else { continue };
                            let old_content = Self::pre_file_hash(&pre, &r);
                            run.push(&sid, EvOp::Reset, &f, &r, None, None, None, &post);
                            let nf = if suffix.is_empty() { nk.clone() } else { format!("{nk}/{suffix}") };
                            let nreal = run.real_of(&nf);
                            if matches!(post.get(&nreal), Some(Ent::File(_))) {
                                run.push(&sid, EvOp::Moved, &nf, &nreal, None, None, old_content, &post);
                            }
                        }
                        let gone: Vec<String> = run.last_content.keys().filter(|r| !matches!(post.get(*r), Some(Ent::File(_)))).cloned().collect();
                        for r in gone {
                            run.last_content.remove(&r);
                        }
                    }
                }
                "rensym" => {
                    // every visible file the call changed counts as an acknowledged content change
                    let mut n = 0;
                    for (p, chg) in &changes {
                        if *chg == "removed" {
                            continue;
                        }
                        if let (Some(rest), Some(Ent::File(c))) = (under(p, &root_rel), post.get(p)) {
                            let ver = reply.ok.as_ref().and_then(|v| v["changed_files"].as_array().and_then(|a| a.iter().find(|w| w["path"] == rest).and_then(|w| w["version"].as_u64())));
                            run.push(&sid, EvOp::ContentSet, rest, p, None, ver, Some(bytes_hash(c)), &post);
                            n += 1;
                        }
                    }
                    if n >= 2 {
                        run.stats.inc("probe.rename_symbol_multi_file");
                    }
                    extra = format!("n{n}");
                }
                "setproj" => {
                    if let Some(v) = &reply.ok {
                        let active = v["active_project"].as_str().unwrap_or("");
                        let Some(rel) = run.world.rel(std::path::Path::new(active)) else {
                            return Err(Violation::new("harness/active-root-outside-sentinel", format!("op {opi}: {}", run.world.unsubst(active))));
                        };
                        // version numbers handed out before are void; the files themselves stay
                        let keep = run.last_content.clone();
                        for (f, r) in run.known_pairs() {
                            run.push(&sid, EvOp::Reset, &f, &r, None, None, None, &post);
                        }
                        run.last_content = keep;
                        if rel != run.root_rel {
                            run.stats.inc("probe.project_switched");
                        }
                        run.root_rel = rel;
                        extra = format!("root={}", run.root_rel);
                    }
                }
                "list" | "tree" | "search" | "wsymbols" => {
                    let items = ops::reply_items(kind, raw_p, &reply);
                    if reply.is_ok() {
                        let joined: String = items.iter().map(|(p, _)| p.as_str()).collect::<Vec<_>>().join("|");
                        extra = if kind == "wsymbols" { format!("n{}", items.len()) } else { format!("n{}h{:x}", items.len(), hash_str(&joined) & 0xffff_ffff) };
                        if kind == "search" && !items.is_empty() {
                            run.stats.inc("probe.search_hits");
                        }
                    }
                }
                _ => {}
            }
            if run.history.len() > n_events {
                check_version_chain(&run.history).map_err(|v| viol(v.signature.clone(), opi, op, v.detail.clone()))?;
            }
            // every file whose content an acknowledged change (or a later external
            // modification) defined must still hold exactly that content
            for (real, h) in &run.last_content {
                if Self::pre_file_hash(&post, real) != Some(*h) {
                    return Err(viol(
                        "lost-update/file-differs-from-last-write".into(),
                        opi,
                        op,
                        format!("{real} no longer holds the content of the last acknowledged write / external modification"),
                    ));
                }
            }

            // ---- probes
            if mutating && reply.is_ok() && authorised && !changes.is_empty() {
                run.stats.inc("probe.editor_mutation_ok");
            }
            if !reply.is_ok() {
                if mutating && auth == Auth::Expired {
                    run.stats.inc("probe.expired_refused");
                }
                if mutating && auth == Auth::Viewer && we {
                    run.stats.inc("probe.viewer_refused");
                }
                if mutating && !we && auth == Auth::Editor {
                    run.stats.inc("probe.write_disabled_refused");
                }
                if auth == Auth::Editor && outcome == "forbidden" {
                    if matches!(rt, "dotdot" | "absolute" | "symlink-leaf" | "symlink-parent") {
                        run.stats.inc("probe.escape_refused");
                    }
                    if rt == "hidden" {
                        run.stats.inc("probe.hidden_refused");
                    }
                }
            }
            run.stats.log(&format!("{opi}:{kind}:{sid}:{}:{outcome}:{extra}:{:x}", auth.name(), snap_hash(&post)));
            let mut sh = Fnv::new();
            sh.u64(snap_hash(&post)).str(&run.root_rel);
            run.stats.state(sh.finish());
            pre = post;
        }
        // distinct write histories
        let mut per_file: BTreeMap<&str, Fnv> = BTreeMap::new();
        let mut interesting: BTreeMap<&str, bool> = BTreeMap::new();
        for e in &run.history {
            per_file.entry(e.real.as_str()).or_default().str(&e.session).str(&format!("{:?}", e.op));
            if matches!(e.op, EvOp::WriteAck | EvOp::WriteRefused) {
                interesting.insert(e.real.as_str(), true);
            }
        }
        for (f, h) in per_file {
            if interesting.contains_key(f) {
                run.stats.nontrivial(h.finish());
            }
        }
        Ok(())
    }
}

impl C19Check {
    fn pre_file_hash(snap: &Snap, real: &str) -> Option<u64> {
        match snap.get(real) {
            Some(Ent::File(c)) => Some(bytes_hash(c)),
            _ => None,
        }
    }
}
