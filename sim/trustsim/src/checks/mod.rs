use crate::framework::Check;

pub mod c01;
pub mod c03;
pub mod c04;
pub mod c05;
pub mod c06;
pub mod c07;
pub mod c08;
pub mod c09;
pub mod c10;
pub mod c11;
pub mod c13;
pub mod c14;
#[cfg(feature = "shuttle")]
pub mod c17;
#[cfg(feature = "shuttle")]
pub mod c17_corpus;
pub mod c18;
pub mod c19;
pub mod c19_chain;
pub mod c19_gen;
pub mod c19_ops;
pub mod c19_world;
#[cfg(feature = "shuttle")]
pub mod c19b;
#[cfg(feature = "shuttle")]
pub mod c20;

pub fn all() -> Vec<&'static dyn Check> {
    #[allow(unused_mut)]
    let mut v: Vec<&'static dyn Check> = vec![&c01::C01, &c03::C03, &c04::C04, &c05::C05, &c06::C06, &c07::C07, &c08::C08, &c09::C09, &c10::C10, &c11::C11, &c13::C13, &c14::C14, &c18::C18, &c19::C19];
    #[cfg(feature = "shuttle")]
    {
        v.push(&c17::C17);
        v.push(&c19b::C19B);
        v.push(&c20::C20);
    }
    v
}
