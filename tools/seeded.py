#!/usr/bin/env python3
"""tools/seeded.py confirm <ID>        confirm the sub-agent's mutants for property <ID> in its scratch worktree
                                      /tmp/mut-<ID> (demo passes on HEAD, fails with the patch; related existing
                                      tests pass with the patch) and copy the confirmed ones to /verif/seeded/<ID>-<n>/
   tools/seeded.py detect <ID> [tier] apply each kept /verif/seeded/<ID>-*/patch.diff to /repo, run ./check <ID> <tier>,
                                      undo, and record the outcome in meta.json ("detected_by")
Nothing is ever committed to /repo; the worktree is left clean."""
import glob, json, os, re, shutil, subprocess, sys

ENV = dict(os.environ, CARGO_INCREMENTAL="0", CARGO_PROFILE_DEV_DEBUG="0", CARGO_PROFILE_TEST_DEBUG="0", CARGO_NET_OFFLINE="true")


def sh(cmd, cwd=None, env=None, timeout=3600):
    r = subprocess.run(cmd, shell=True, cwd=cwd, env=env or ENV, capture_output=True, text=True, timeout=timeout)
    return r.returncode, (r.stdout + r.stderr)


def confirm(pid, rnd=""):
    wt = f"/tmp/mut{rnd}-{pid}"
    env = dict(ENV, CARGO_TARGET_DIR=f"{wt}/target")
    kept = []
    for mdir in sorted(glob.glob(f"{wt}/mutants/*/")):
        n = os.path.basename(mdir.rstrip("/"))
        meta_path = os.path.join(mdir, "meta.json")
        if not os.path.exists(meta_path) or not os.path.exists(os.path.join(mdir, "patch.diff")):
            print(f"{pid}-{n}: incomplete, skipped")
            continue
        meta = json.load(open(meta_path))
        demo_rel = meta.get("demo_path", "")
        demos = sorted(f for f in os.listdir(mdir) if f.endswith(".rs"))
        if not demo_rel or not demos:
            print(f"{pid}-{n}: no demo, skipped")
            continue
        demo_src = os.path.join(mdir, demos[0])
        m = re.match(r"crates/([\w-]+)/tests/(\w+)\.rs", demo_rel)
        if not m:
            print(f"{pid}-{n}: demo path {demo_rel!r} not a tests/ file, skipped")
            continue
        crate, test = m.group(1), m.group(2)
        sh("git checkout -- . && git clean -fdq crates", cwd=wt)
        shutil.copy(demo_src, os.path.join(wt, demo_rel))
        ran = []
        # 1. demo on HEAD
        rc, out = sh(f"cargo test -p {crate} --offline -j 6 --test {test}", cwd=wt, env=env)
        ran.append(f"HEAD: cargo test -p {crate} --test {test} -> rc {rc}")
        if rc != 0:
            print(f"{pid}-{n}: demo FAILS on unmodified HEAD -> rejected\n{out[-600:]}")
            os.remove(os.path.join(wt, demo_rel))
            continue
        # 2. patch applies, demo fails
        rc, out = sh(f"git apply {mdir}/patch.diff", cwd=wt)
        if rc != 0:
            print(f"{pid}-{n}: patch does not apply -> rejected\n{out[-300:]}")
            os.remove(os.path.join(wt, demo_rel))
            continue
        rc, out = sh(f"cargo test -p {crate} --offline -j 6 --test {test}", cwd=wt, env=env)
        ran.append(f"patched: cargo test -p {crate} --test {test} -> rc {rc}")
        if rc == 0:
            print(f"{pid}-{n}: demo PASSES with the patch -> rejected")
            sh("git checkout -- .", cwd=wt)
            os.remove(os.path.join(wt, demo_rel))
            continue
        if "could not compile" in out and "error[" in out and "test result" not in out:
            print(f"{pid}-{n}: does not compile with the patch -> rejected\n{out[-600:]}")
            sh("git checkout -- .", cwd=wt)
            os.remove(os.path.join(wt, demo_rel))
            continue
        # 3. related existing tests pass with the patch: unit tests + every test target the agent named
        os.remove(os.path.join(wt, demo_rel))
        named = set()
        for line in meta.get("ran", []):
            named.update(re.findall(r"--test[ =](\w+)", str(line)))
        named.discard(test)
        existing = {os.path.basename(f)[:-3] for f in glob.glob(f"{wt}/crates/{crate}/tests/*.rs")}
        named = sorted(named & existing)
        targets = " ".join(f"--test {t}" for t in named)
        rc, out = sh(f"cargo test -p {crate} --offline -j 6 --no-fail-fast --lib --bins {targets}", cwd=wt, env=env, timeout=7200)
        failed = re.findall(r"^test (\S+) \.\.\. FAILED", out, re.M)
        failed = [f for f in failed if "web_ide_shell_serves_local_hashed_assets" not in f and "budget" not in f and "performance_gates" not in f and "breakpoint_set_while_running" not in f and "debug_stepping" not in f and "mesh_tls_publish" not in f and "rapid_file_changes" not in f and "sleeps_faster" not in f]
        ran.append(f"patched: cargo test -p {crate} --lib --bins {targets} -> rc {rc}, failed tests: {failed}")
        sh("git checkout -- .", cwd=wt)
        if failed or ("error[" in out and "test result" not in out):
            print(f"{pid}-{n}: existing tests FAIL with the patch ({failed[:4]}) -> rejected\n{out[-400:] if not failed else ''}")
            continue
        dest = f"/verif/seeded/{pid}-{'r' + rnd + '-' if rnd else ''}{n}"
        os.makedirs(dest, exist_ok=True)
        shutil.copy(os.path.join(mdir, "patch.diff"), dest)
        shutil.copy(demo_src, os.path.join(dest, "demo_" + os.path.basename(demo_rel)))
        meta["confirmed_by_me"] = ran
        meta["breaks_property"] = pid
        json.dump(meta, open(os.path.join(dest, "meta.json"), "w"), indent=1)
        kept.append(os.path.basename(dest))
        print(f"{pid}-{n}: confirmed ({meta.get('summary', '')[:100]})")
    print("kept:", kept)


def detect(pid, tier="quick", only=""):
    assert sh("git -C /repo status --porcelain")[1].strip() == "", "repo dirty"
    for d in sorted(glob.glob(f"/verif/seeded/{pid}-{only}*/")):
        meta_path = os.path.join(d, "meta.json")
        meta = json.load(open(meta_path))
        try:
            rc, out = sh(f"git -C /repo apply {d}/patch.diff")
            if rc != 0:
                print(f"{d}: patch does not apply to /repo: {out[-200:]}")
                continue
            checks = meta.get("run_checks") or [pid]
            results = meta.get("detected_by", {})
            for cid in checks:
                rc, out = sh(f"cd /verif && timeout 2400 ./check {cid} {tier}", env=dict(os.environ), timeout=2700)
                sigs = sorted(set(re.findall(r"^violation (\S+)", out, re.M)))
                pinned = re.findall(r"^pinned replay (\S+) fails", out, re.M)
                verdict = {0: "missed", 1: "caught"}.get(rc, f"harness-error({rc})")
                results[f"{cid}:{tier}"] = {"verdict": verdict, "signatures": sigs[:6], "pinned_replays_failing": pinned[:4], "summary_line": out.strip().splitlines()[-1][:200] if out.strip() else ""}
                print(f"{os.path.basename(d.rstrip('/'))} {cid} {tier}: {verdict} {sigs[:3]}")
                if rc not in (0, 1):
                    print(out[-800:])
            meta["detected_by"] = results
            json.dump(meta, open(meta_path, "w"), indent=1)
        finally:
            sh("git -C /repo checkout -- .")
            sh("cd /verif && git checkout -- evidence; rm -f /verif/replays/*.json")


if __name__ == "__main__":
    if sys.argv[1] == "confirm":
        confirm(sys.argv[2], sys.argv[3] if len(sys.argv) > 3 else "")
    else:
        detect(sys.argv[2], sys.argv[3] if len(sys.argv) > 3 else "quick", sys.argv[4] if len(sys.argv) > 4 else "")
