#!/usr/bin/env python3
"""tools/mutate.py <check-id[,id..]> <file> <old> <new>  -- apply a textual mutation to /repo, run the quick checks, revert.
   tools/mutate.py <check-id[,id..]> --patch <patch.diff>
Prints CAUGHT/MISSED per check. Never leaves /repo modified."""
import subprocess, sys, os
ids = sys.argv[1].split(',')
repo = '/repo'
def sh(cmd, **kw):
    return subprocess.run(cmd, shell=True, capture_output=True, text=True, **kw)
assert sh('git -C /repo status --porcelain').stdout.strip() == '', 'repo dirty'
try:
    if sys.argv[2] == '--patch':
        r = sh(f'git -C /repo apply {sys.argv[3]}')
        assert r.returncode == 0, r.stderr
    else:
        path = os.path.join(repo, sys.argv[2]); old, new = sys.argv[3], sys.argv[4]
        s = open(path).read()
        assert s.count(old) >= 1, 'pattern not found'
        open(path, 'w').write(s.replace(old, new, 1))
    for cid in ids:
        r = sh(f'cd /verif && VERIF_ROOT_KEEP=1 ./check {cid} quick', timeout=3600)
        tail = '\n'.join(r.stdout.strip().splitlines()[-6:])
        verdict = {0: 'MISSED', 1: 'CAUGHT'}.get(r.returncode, f'HARNESS-ERROR({r.returncode})')
        print(f'== {cid}: {verdict}\n{tail}\n{r.stderr.strip()[-800:]}')
finally:
    sh('git -C /repo checkout -- .')
    # evidence/replays written by a mutated run are not evidence: restore
    sh('cd /verif && git checkout -- evidence 2>/dev/null; rm -f /verif/replays/*.json')
