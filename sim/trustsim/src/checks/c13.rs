//! C13 - incremental analysis equals from-scratch analysis after any edit history.
//!
//! World: the real `trust_hir::Database` (two thirds of the cases) or the real
//! `trust_hir::Project` above it (one third). 1..5 file slots holding texts of
//! a generated cross-referencing Structured Text project family.
//!
//! Every case runs the same history against TWO incremental databases:
//!   * twin "eager": after every operation every query kind is asked for every
//!     slot (live, removed, never added) and compared with a brand-new
//!     database loaded with the current texts under the same FileIds;
//!   * twin "lazy": only answers the `query` operations of the history (so
//!     which query was memoised before which edit is decided by the history,
//!     not by the oracle), each answer compared with the same fresh database;
//!     one full sweep at the end of the history.
//! Every query is asked twice in a row; the answers must be identical.
use std::collections::BTreeMap;
use std::sync::Arc;

use serde_json::{json, Value as Json};

use trust_hir::db::{Database, FileId, SemanticDatabase, SourceDatabase};
use trust_hir::project::{Project, SourceKey};
use trust_hir::symbols::SymbolTable;
use trust_hir::Diagnostic;

use crate::framework::{guard, Check, Stats, Tier, Violation};
use crate::rng::{Fnv, Rng};

pub struct C13Check;
pub static C13: C13Check = C13Check;

// ---------------------------------------------------------------------------
// workload: project family

const ELEM: &[&str] = &["INT", "DINT", "REAL", "BOOL", "LREAL", "UINT", "TIME"];
const STRUCTS: &[&str] = &["Rec0", "Rec1"];
const ENUMS: &[&str] = &["Color0", "Color1"];
const ALIASES: &[&str] = &["Len0", "Len1"];
const FUNCS: &[&str] = &["Fn0", "Fn1", "Fn2"];
const FBS: &[&str] = &["Fb0", "Fb1"];
const GLOBALS: &[&str] = &["g0", "g1", "g2"];
const PROGS: &[&str] = &["Prog0", "Prog1"];
const CONFIGS: &[&str] = &["Conf0", "Conf1"];

#[derive(Clone, Copy, PartialEq, Eq, Debug)]
enum Kind {
    Struct,
    Enum,
    Alias,
    Func,
    Fb,
    Config,
    Prog,
}

#[derive(Clone, Debug)]
struct Unit {
    kind: Kind,
    name: String,
    ty: String,
    func: String,
    fb: String,
    st: String,
    en: String,
    global: String,
    prog: String,
    nglobals: usize,
}

fn pick_s(rng: &mut Rng, pool: &[&str]) -> String {
    (*rng.pick(pool)).to_string()
}

fn pick_ty(rng: &mut Rng) -> String {
    match rng.below(12) {
        0 => pick_s(rng, STRUCTS),
        1 => pick_s(rng, ALIASES),
        2 => pick_s(rng, ENUMS),
        // type graphs that close a cycle through a reference or an array in another declaration
        10 => format!("REF_TO {}", pick_s(rng, STRUCTS)),
        11 => format!("ARRAY[0..1] OF {}", pick_s(rng, STRUCTS)),
        _ => pick_s(rng, ELEM),
    }
}

fn pool_of(kind: Kind) -> &'static [&'static str] {
    match kind {
        Kind::Struct => STRUCTS,
        Kind::Enum => ENUMS,
        Kind::Alias => ALIASES,
        Kind::Func => FUNCS,
        Kind::Fb => FBS,
        Kind::Config => CONFIGS,
        Kind::Prog => PROGS,
    }
}

fn new_unit(rng: &mut Rng, kind: Kind) -> Unit {
    Unit {
        kind,
        name: pick_s(rng, pool_of(kind)),
        ty: pick_ty(rng),
        func: pick_s(rng, FUNCS),
        fb: pick_s(rng, FBS),
        st: pick_s(rng, STRUCTS),
        en: pick_s(rng, ENUMS),
        global: pick_s(rng, GLOBALS),
        prog: pick_s(rng, PROGS),
        nglobals: rng.usize(1, 3),
    }
}

fn random_unit(rng: &mut Rng) -> Unit {
    let kind = *rng.pick(&[Kind::Struct, Kind::Enum, Kind::Alias, Kind::Func, Kind::Func, Kind::Fb, Kind::Config, Kind::Prog, Kind::Prog]);
    new_unit(rng, kind)
}

impl Unit {
    fn render(&self) -> String {
        let n = &self.name;
        let ty = &self.ty;
        match self.kind {
            Kind::Struct => format!("TYPE {n} :\nSTRUCT\n    a : {ty};\n    b : REAL;\nEND_STRUCT\nEND_TYPE\n"),
            Kind::Enum => format!("TYPE {n} : (Red, Green, Blue);\nEND_TYPE\n"),
            Kind::Alias => format!("TYPE {n} : {ty};\nEND_TYPE\n"),
            Kind::Func => {
                let body = if self.func == *n {
                    format!("    {n} := x;\n")
                } else {
                    format!("    {n} := x + {}(x);\n", self.func)
                };
                format!("FUNCTION {n} : {ty}\nVAR_INPUT\n    x : {ty};\nEND_VAR\n{body}END_FUNCTION\n")
            }
            Kind::Fb => format!(
                "FUNCTION_BLOCK {n}\nVAR_INPUT\n    en : BOOL;\nEND_VAR\nVAR_OUTPUT\n    cnt : {ty};\nEND_VAR\nVAR\n    r : {st};\nEND_VAR\n    IF en THEN\n        cnt := {f}(cnt);\n    END_IF;\n    r.a := cnt;\nEND_FUNCTION_BLOCK\n",
                st = self.st,
                f = self.func
            ),
            Kind::Config => {
                let mut s = format!("CONFIGURATION {n}\nVAR_GLOBAL\n");
                for g in GLOBALS.iter().take(self.nglobals) {
                    s.push_str(&format!("    {g} : {ty};\n"));
                }
                s.push_str(&format!(
                    "END_VAR\nTASK T0 (INTERVAL := T#10ms, PRIORITY := 1);\nPROGRAM P0 WITH T0 : {};\nEND_CONFIGURATION\n",
                    self.prog
                ));
                s
            }
            Kind::Prog => format!(
                "PROGRAM {n}\nVAR_EXTERNAL\n    {g} : {ty};\nEND_VAR\nVAR\n    inst : {fb};\n    v : {st};\n    c : {en};\n    k : {ty};\nEND_VAR\n    inst(en := TRUE);\n    k := {f}(k) + inst.cnt;\n    v.a := k;\n    c := {en}#Red;\n    {g} := {g} + 1;\nEND_PROGRAM\n",
                g = self.global,
                fb = self.fb,
                st = self.st,
                en = self.en,
                f = self.func
            ),
        }
    }
}

const PREFIXES: &[&str] = &["", "", "\n", "  \n\n", "(* hdr *)\n", "// line \u{e4}\n", "(* \u{1F600} \u{2603} *) ", "\t\r\n"];
const OVERRIDES: &[&str] = &[
    "",
    "   \n\t\n",
    "(* only a comment \u{2603} *)\n",
    "\u{feff}",
    "END_VAR END_VAR ;;; := )(",
    "PROGRAM",
    "FUNCTION : ; END_FUNCTION",
    "\u{e9}\u{2211} \u{2603} \u{1F600}",
    "TYPE : ; END_TYPE",
    "PROGRAM P VAR x : INT; END_VAR x := ; END_PROGRAM",
    "FUNCTION_BLOCK\nEND_FUNCTION_BLOCK",
];

#[derive(Clone, Debug, Default)]
struct FileModel {
    units: Vec<Unit>,
    prefix: String,
    suffix: String,
    breakage: Option<(u8, u32)>,
    override_text: Option<String>,
    /// the k-th ASCII letter of the rendered text has its case flipped (an edit that changes letter case only)
    case_flip: Option<u32>,
}

fn floor_char_boundary(s: &str, mut i: usize) -> usize {
    if i >= s.len() {
        return s.len();
    }
    while !s.is_char_boundary(i) {
        i -= 1;
    }
    i
}

fn insert_at_line(text: &str, line: usize, what: &str) -> String {
    let lines: Vec<&str> = text.split_inclusive('\n').collect();
    let at = if lines.is_empty() { 0 } else { line % (lines.len() + 1) };
    let mut out = String::new();
    for (i, l) in lines.iter().enumerate() {
        if i == at {
            out.push_str(what);
        }
        out.push_str(l);
    }
    if at >= lines.len() {
        out.push_str(what);
    }
    out
}

impl FileModel {
    fn render(&self) -> String {
        let text = self.render_plain();
        let Some(k) = self.case_flip else { return text };
        let letters: Vec<usize> = text.char_indices().filter(|(_, c)| c.is_ascii_alphabetic()).map(|(i, _)| i).collect();
        if letters.is_empty() {
            return text;
        }
        let at = letters[k as usize % letters.len()];
        let mut bytes = text.into_bytes();
        bytes[at] ^= 0x20;
        String::from_utf8(bytes).unwrap_or_default()
    }

    fn render_plain(&self) -> String {
        if let Some(t) = &self.override_text {
            return t.clone();
        }
        let mut text = self.prefix.clone();
        for (i, u) in self.units.iter().enumerate() {
            if i > 0 {
                text.push('\n');
            }
            text.push_str(&u.render());
        }
        text.push_str(&self.suffix);
        if let Some((kind, param)) = self.breakage {
            text = match kind {
                0 => {
                    let cut = floor_char_boundary(&text, text.len() * (param as usize % 100) / 100);
                    text[..cut].to_string()
                }
                1 => text.replacen("END_VAR", "", 1),
                2 => insert_at_line(&text, param as usize, "@@ := ;\n"),
                3 => text.replace(';', ""),
                4 => {
                    let t = text.replacen("END_FUNCTION_BLOCK", "", 1);
                    let t = if t == text { text.replacen("END_PROGRAM", "", 1) } else { t };
                    if t == text {
                        text.replacen("END_FUNCTION", "", 1)
                    } else {
                        t
                    }
                }
                5 => text.replacen(":=", ":= (", 1),
                6 => insert_at_line(&text, param as usize, "'unterminated string\n"),
                7 => insert_at_line(&text, param as usize, "(* unterminated comment\n"),
                _ => insert_at_line(&text, param as usize, "END_VAR\n"),
            };
        }
        text
    }
}

/// Apply one structural edit; returns a label.
fn mutate(rng: &mut Rng, m: &mut FileModel) -> &'static str {
    // an override or breakage is usually repaired first
    if m.override_text.is_some() && rng.chance(2, 3) {
        m.override_text = None;
        if m.units.is_empty() {
            m.units.push(random_unit(rng));
        }
        return "repair-override";
    }
    if m.breakage.is_some() && rng.chance(1, 2) {
        m.breakage = None;
        return "repair-syntax";
    }
    if rng.chance(1, 10) {
        // letter case only: another letter, or back to the original spelling
        m.case_flip = if m.case_flip.is_some() && rng.bool() { None } else { Some(rng.below(100_000) as u32) };
        return "case-only";
    }
    match rng.below(16) {
        0 | 1 => {
            if let Some(i) = (!m.units.is_empty()).then(|| rng.usize(0, m.units.len() - 1)) {
                let u = &mut m.units[i];
                u.name = if rng.chance(1, 3) { format!("{}x", u.name.trim_end_matches('x')) } else { pick_s(rng, pool_of(u.kind)) };
                return "rename";
            }
            m.units.push(random_unit(rng));
            "add-decl"
        }
        2 | 3 | 4 => {
            if let Some(i) = (!m.units.is_empty()).then(|| rng.usize(0, m.units.len() - 1)) {
                m.units[i].ty = pick_ty(rng);
                return "change-type";
            }
            m.units.push(random_unit(rng));
            "add-decl"
        }
        5 | 6 => {
            if let Some(i) = (!m.units.is_empty()).then(|| rng.usize(0, m.units.len() - 1)) {
                let u = &mut m.units[i];
                match rng.below(6) {
                    0 => u.func = pick_s(rng, FUNCS),
                    1 => u.fb = pick_s(rng, FBS),
                    2 => u.st = pick_s(rng, STRUCTS),
                    3 => u.en = pick_s(rng, ENUMS),
                    4 => u.global = pick_s(rng, GLOBALS),
                    _ => {
                        u.prog = pick_s(rng, PROGS);
                        u.nglobals = rng.usize(1, 3);
                    }
                }
                return "change-reference";
            }
            m.units.push(random_unit(rng));
            "add-decl"
        }
        7 | 8 => {
            if !m.units.is_empty() {
                let i = rng.usize(0, m.units.len() - 1);
                m.units.remove(i);
                return "delete-decl";
            }
            m.units.push(random_unit(rng));
            "add-decl"
        }
        9 | 10 => {
            let u = random_unit(rng);
            let at = rng.usize(0, m.units.len());
            m.units.insert(at, u);
            "add-decl"
        }
        11 | 12 => {
            m.breakage = Some((rng.below(9) as u8, rng.below(1000) as u32));
            "break-syntax"
        }
        13 => {
            if rng.bool() {
                m.prefix = pick_s(rng, PREFIXES);
            } else {
                m.suffix = pick_s(rng, PREFIXES);
            }
            "whitespace"
        }
        14 => {
            if m.units.len() >= 2 {
                let i = rng.usize(0, m.units.len() - 1);
                let j = rng.usize(0, m.units.len() - 1);
                m.units.swap(i, j);
                return "reorder-decls";
            }
            m.prefix = pick_s(rng, PREFIXES);
            "whitespace"
        }
        _ => {
            m.override_text = Some(pick_s(rng, OVERRIDES));
            "override"
        }
    }
}

const QUERY_KINDS: &[&str] = &[
    "diagnostics",
    "analyze",
    "file_symbols",
    "project_symbols",
    "expr_ids",
    "types",
    "type_one",
    "expr_one",
    "source_text",
    "resolve_name",
    "project_symbols_filtered",
];

// ---------------------------------------------------------------------------
// systems under test

enum Sut {
    Db(Database, Vec<u32>),
    Proj(Project, BTreeMap<usize, u32>),
}

const UNKNOWN_ID: u32 = 7_777;

impl Sut {
    fn new(mode: &str, ids: &[u32]) -> Sut {
        if mode == "project" {
            Sut::Proj(Project::new(), BTreeMap::new())
        } else {
            Sut::Db(Database::new(), ids.to_vec())
        }
    }
    fn key(slot: usize) -> SourceKey {
        SourceKey::from_virtual(format!("mem:///file{slot}.st"))
    }
    fn set(&mut self, slot: usize, text: &str) {
        match self {
            Sut::Db(db, ids) => db.set_source_text(FileId(ids[slot]), text.to_string()),
            Sut::Proj(p, last) => {
                let id = p.set_source_text(Self::key(slot), text.to_string());
                last.insert(slot, id.0);
            }
        }
    }
    fn remove(&mut self, slot: usize) {
        match self {
            Sut::Db(db, ids) => db.remove_source_text(FileId(ids[slot])),
            Sut::Proj(p, _) => {
                let _ = p.remove_source(&Self::key(slot));
            }
        }
    }
    /// FileId under which the slot is (or was last) known; a never-added slot of a project maps to an unknown id.
    fn file_id(&self, slot: usize) -> FileId {
        match self {
            Sut::Db(_, ids) => FileId(ids[slot]),
            Sut::Proj(_, last) => FileId(last.get(&slot).copied().unwrap_or(UNKNOWN_ID + slot as u32)),
        }
    }
    fn db(&self) -> &Database {
        match self {
            Sut::Db(db, _) => db,
            Sut::Proj(p, _) => p.database(),
        }
    }
}

// ---------------------------------------------------------------------------
// canonical answers

fn render_diag(d: &Diagnostic) -> String {
    let rel: Vec<String> = d.related.iter().map(|r| format!("{:?}:{}", r.range, r.message)).collect();
    format!("{:?}|{:?}|{:?}|{}|[{}]", d.code, d.severity, d.range, d.message, rel.join(";"))
}

fn render_symbols(t: &SymbolTable) -> Vec<String> {
    let mut syms: Vec<_> = t.iter().collect();
    syms.sort_by_key(|s| s.id.0);
    let mut out: Vec<String> = syms
        .iter()
        .map(|s| format!("{:?} tyname={:?} ty={:?}", s, t.type_name(s.type_id), t.type_by_id(s.type_id)))
        .collect();
    for sc in t.scopes() {
        let mut names: Vec<(u32, String)> = sc.symbols.iter().map(|(k, v)| (v.0, k.to_string())).collect();
        names.sort();
        names.reverse(); // user symbols (highest ids) first so a clipped report shows them
        out.push(format!(
            "scope {:?} parent={:?} owner={:?} kind={:?} using={:?} names={:?}",
            sc.id, sc.parent, sc.owner, sc.kind, sc.using_directives, names
        ));
    }
    out
}

/// order-independent cheap summary of a table (log digest only)
fn table_summary(t: &SymbolTable) -> u64 {
    let mut acc: u64 = t.len() as u64;
    for s in t.iter() {
        let mut h = Fnv::new();
        h.u64(u64::from(s.id.0)).str(s.name.as_str()).u64(u64::from(s.type_id.0)).str(&format!("{:?}", s.range));
        acc = acc.wrapping_add(h.finish());
    }
    acc
}

/// offsets at which `expr_id_at_offset` is asked: start of every identifier /
/// number run and every punctuation character (the harness's own scanner), plus a
/// few out-of-range ones. Capped to keep a sweep cheap.
fn probe_offsets(text: &str) -> Vec<u32> {
    let mut offs = vec![];
    let mut in_word = false;
    for (i, ch) in text.char_indices() {
        let word = ch.is_alphanumeric() || ch == '_';
        if word {
            if !in_word {
                offs.push(i as u32);
            }
        } else if !ch.is_whitespace() {
            offs.push(i as u32);
        }
        in_word = word;
    }
    const CAP: usize = 90;
    if offs.len() > CAP {
        let n = offs.len();
        offs = (0..CAP).map(|k| offs[k * n / CAP]).collect();
    }
    let len = text.len() as u32;
    offs.push(len);
    offs.push(len + 1);
    offs.push(len + 1000);
    offs.push(u32::MAX);
    offs.sort_unstable();
    offs.dedup();
    offs
}

const RESOLVE_NAMES: &[&str] = &["Fn0", "Rec0", "Prog0", "g0", "x", "inst", "Color0", "fb0", "nosuch"];

struct Answers {
    diags: Vec<String>,
    analyze_diags: Vec<String>,
    analyze_symbols: Arc<SymbolTable>,
    file_symbols: Arc<SymbolTable>,
    project_symbols: Arc<SymbolTable>,
    /// file_symbols_with_project_filtered with every file of the case allowed
    project_symbols_filtered: Arc<SymbolTable>,
    expr_ids: Vec<(u32, Option<u32>)>,
    /// (expr id, raw TypeId, type name, type definition)
    types: Vec<(u32, u32, String)>,
    text: String,
    resolve: Vec<(String, Option<u32>)>,
}

fn q_diags(db: &Database, f: FileId) -> Vec<String> {
    db.diagnostics(f).iter().map(render_diag).collect()
}

fn q_expr_ids(db: &Database, f: FileId, offsets: &[u32]) -> Vec<(u32, Option<u32>)> {
    offsets.iter().map(|o| (*o, db.expr_id_at_offset(f, *o))).collect()
}

fn expr_id_set(expr_ids: &[(u32, Option<u32>)]) -> Vec<u32> {
    let mut ids: Vec<u32> = expr_ids.iter().filter_map(|(_, id)| *id).collect();
    let max = ids.iter().copied().max();
    ids.extend([0, 1, 2, max.map_or(3, |m| m + 1), 100_000, u32::MAX]);
    ids.sort_unstable();
    ids.dedup();
    ids
}

fn q_type(db: &Database, f: FileId, id: u32, names: &SymbolTable) -> (u32, u32, String) {
    let t = db.type_of(f, id);
    (id, t.0, format!("{:?}/{:?}", names.type_name(t), names.type_by_id(t)))
}

/// Ask everything about one file, each query twice. `order` rotates the order of the query kinds.
fn sweep(db: &Database, f: FileId, text: &str, order: usize, all: &rustc_hash::FxHashSet<FileId>) -> Result<Answers, Violation> {
    let offsets = probe_offsets(text);
    let mut diags = None;
    let mut analyze = None;
    let mut file_symbols = None;
    let mut project_symbols = None;
    let mut project_symbols_filtered = None;
    let mut expr_ids = None;
    let mut raw_types: Option<Vec<(u32, u32)>> = None;
    let mut resolve = None;
    let repeat = |what: &str| Violation::new(format!("{what}/repeat-differs"), format!("asking {what} twice for file id {} without an edit in between gave two answers", f.0));
    let kinds = ["diagnostics", "analyze", "file_symbols", "expr", "project_symbols", "resolve"];
    for k in 0..kinds.len() {
        match kinds[(k + order) % kinds.len()] {
            "diagnostics" => {
                let a = q_diags(db, f);
                if a != q_diags(db, f) {
                    return Err(repeat("diagnostics"));
                }
                diags = Some(a);
            }
            "analyze" => {
                let a = db.analyze(f);
                let b = db.analyze(f);
                if *a != *b {
                    return Err(repeat("analyze"));
                }
                analyze = Some(a);
            }
            "file_symbols" => {
                let a = db.file_symbols(f);
                if *a != *db.file_symbols(f) {
                    return Err(repeat("file-symbols"));
                }
                file_symbols = Some(a);
            }
            "project_symbols" => {
                let a = db.file_symbols_with_project(f);
                if *a != *db.file_symbols_with_project(f) {
                    return Err(repeat("project-symbols"));
                }
                project_symbols = Some(a);
                let fa = db.file_symbols_with_project_filtered(f, all);
                if *fa != *db.file_symbols_with_project_filtered(f, all) {
                    return Err(repeat("project-symbols-filtered"));
                }
                project_symbols_filtered = Some(fa);
            }
            "expr" => {
                let a = q_expr_ids(db, f, &offsets);
                if a != q_expr_ids(db, f, &offsets) {
                    return Err(repeat("expr-id"));
                }
                let ids = expr_id_set(&a);
                let t1: Vec<(u32, u32)> = ids.iter().map(|id| (*id, db.type_of(f, *id).0)).collect();
                let t2: Vec<(u32, u32)> = ids.iter().map(|id| (*id, db.type_of(f, *id).0)).collect();
                if t1 != t2 {
                    return Err(repeat("type-of"));
                }
                expr_ids = Some(a);
                raw_types = Some(t1);
            }
            _ => {
                let a: Vec<(String, Option<u32>)> =
                    RESOLVE_NAMES.iter().map(|n| (n.to_string(), db.resolve_name(f, n).map(|s| s.0))).collect();
                let b: Vec<(String, Option<u32>)> =
                    RESOLVE_NAMES.iter().map(|n| (n.to_string(), db.resolve_name(f, n).map(|s| s.0))).collect();
                if a != b {
                    return Err(repeat("resolve-name"));
                }
                resolve = Some(a);
            }
        }
    }
    let analyze = analyze.unwrap();
    let names = analyze.symbols.clone();
    let types = raw_types
        .unwrap()
        .into_iter()
        .map(|(id, raw)| {
            let t = trust_hir::TypeId(raw);
            (id, raw, format!("{:?}/{:?}", names.type_name(t), names.type_by_id(t)))
        })
        .collect();
    Ok(Answers {
        diags: diags.unwrap(),
        analyze_diags: analyze.diagnostics.iter().map(render_diag).collect(),
        analyze_symbols: analyze.symbols.clone(),
        file_symbols: file_symbols.unwrap(),
        project_symbols: project_symbols.unwrap(),
        project_symbols_filtered: project_symbols_filtered.unwrap(),
        expr_ids: expr_ids.unwrap(),
        types,
        text: db.source_text(f).as_ref().clone(),
        resolve: resolve.unwrap(),
    })
}

fn first_diff(a: &[String], b: &[String]) -> String {
    for i in 0..a.len().max(b.len()) {
        let x = a.get(i).map(String::as_str).unwrap_or("<absent>");
        let y = b.get(i).map(String::as_str).unwrap_or("<absent>");
        if x != y {
            let clip = |s: &str| s.chars().take(300).collect::<String>();
            return format!("entry {i}: incremental `{}` vs fresh `{}` ({} vs {} entries)", clip(x), clip(y), a.len(), b.len());
        }
    }
    "no textual difference".into()
}

fn set_diff(got: &[String], exp: &[String]) -> String {
    let only_got: Vec<&String> = got.iter().filter(|l| !exp.contains(l)).take(3).collect();
    let only_exp: Vec<&String> = exp.iter().filter(|l| !got.contains(l)).take(3).collect();
    // show paired lines from shortly before their first difference
    let window = |s: &str, other: &str| -> String {
        let common = s.chars().zip(other.chars()).take_while(|(a, b)| a == b).count();
        let from = common.saturating_sub(70);
        let head: String = s.chars().take(45).collect();
        let body: String = s.chars().skip(from).take(240).collect();
        if from > 45 {
            format!("{head}[..]{body}")
        } else {
            s.chars().take(285).collect()
        }
    };
    let g: Vec<String> = only_got.iter().enumerate().map(|(i, l)| window(l, only_exp.get(i).map_or("", |s| s.as_str()))).collect();
    let e: Vec<String> = only_exp.iter().enumerate().map(|(i, l)| window(l, only_got.get(i).map_or("", |s| s.as_str()))).collect();
    format!("{} vs {} entries; only in the incremental answer: {g:?}; only in the fresh answer: {e:?}", got.len(), exp.len())
}

fn cmp_tables(what: &str, got: &SymbolTable, exp: &SymbolTable, ctx: &Ctx) -> Result<(), Violation> {
    if got == exp {
        return Ok(());
    }
    let g = render_symbols(got);
    let e = render_symbols(exp);
    if g == e {
        return Err(ctx.violation(&format!("{what}-internal"), "tables differ in non-rendered state (derived PartialEq) although symbols and scopes render equal".into()));
    }
    Err(ctx.violation(what, set_diff(&g, &e)))
}

struct Ctx<'a> {
    opi: usize,
    slot: usize,
    fid: u32,
    live: bool,
    last_mut: &'a str,
    twin: &'a str,
}

impl Ctx<'_> {
    fn violation(&self, what: &str, diff: String) -> Violation {
        let how = if self.live { "stale-live-file" } else { "removed-file-answers" };
        Violation::new(
            format!("{what}/{how}/after-{}", self.last_mut),
            format!(
                "op {} ({} twin): {what} of slot {} (file id {}, {}) differs from a fresh database with the same contents: {diff}",
                self.opi,
                self.twin,
                self.slot,
                self.fid,
                if self.live { "live" } else { "not in the database" }
            ),
        )
    }
}

fn strs<T: std::fmt::Debug>(v: &[T]) -> Vec<String> {
    v.iter().map(|x| format!("{x:?}")).collect()
}

fn compare(got: &Answers, exp: &Answers, ctx: &Ctx) -> Result<(), Violation> {
    if got.text != exp.text {
        return Err(ctx.violation("source-text", format!("{:?} vs {:?}", got.text, exp.text)));
    }
    if got.diags != exp.diags {
        return Err(ctx.violation("diagnostics", first_diff(&got.diags, &exp.diags)));
    }
    if got.analyze_diags != exp.analyze_diags {
        return Err(ctx.violation("analyze-diagnostics", first_diff(&got.analyze_diags, &exp.analyze_diags)));
    }
    cmp_tables("file-symbols", &got.file_symbols, &exp.file_symbols, ctx)?;
    cmp_tables("analyze-symbols", &got.analyze_symbols, &exp.analyze_symbols, ctx)?;
    cmp_tables("project-symbols", &got.project_symbols, &exp.project_symbols, ctx)?;
    cmp_tables("project-symbols-filtered", &got.project_symbols_filtered, &exp.project_symbols_filtered, ctx)?;
    if got.expr_ids != exp.expr_ids {
        return Err(ctx.violation("expr-id", first_diff(&strs(&got.expr_ids), &strs(&exp.expr_ids))));
    }
    if got.types != exp.types {
        return Err(ctx.violation("type-of", first_diff(&strs(&got.types), &strs(&exp.types))));
    }
    if got.resolve != exp.resolve {
        return Err(ctx.violation("resolve-name", first_diff(&strs(&got.resolve), &strs(&exp.resolve))));
    }
    Ok(())
}

/// One history query against the lazy twin, compared with the fresh answers.
fn lazy_query(db: &Database, f: FileId, q: &str, n: u32, text: &str, exp: &Answers, ctx: &Ctx, all: &rustc_hash::FxHashSet<FileId>) -> Result<(), Violation> {
    let repeat = |what: &str| Violation::new(format!("{what}/repeat-differs"), format!("op {}: lazy twin answered {what} twice differently", ctx.opi));
    match q {
        "diagnostics" => {
            let a = q_diags(db, f);
            if a != q_diags(db, f) {
                return Err(repeat("diagnostics"));
            }
            if a != exp.diags {
                return Err(ctx.violation("diagnostics", first_diff(&a, &exp.diags)));
            }
        }
        "analyze" => {
            let a = db.analyze(f);
            if *a != *db.analyze(f) {
                return Err(repeat("analyze"));
            }
            let d: Vec<String> = a.diagnostics.iter().map(render_diag).collect();
            if d != exp.analyze_diags {
                return Err(ctx.violation("analyze-diagnostics", first_diff(&d, &exp.analyze_diags)));
            }
            cmp_tables("analyze-symbols", &a.symbols, &exp.analyze_symbols, ctx)?;
        }
        "file_symbols" => {
            let a = db.file_symbols(f);
            if *a != *db.file_symbols(f) {
                return Err(repeat("file-symbols"));
            }
            cmp_tables("file-symbols", &a, &exp.file_symbols, ctx)?;
        }
        "project_symbols" => {
            let a = db.file_symbols_with_project(f);
            if *a != *db.file_symbols_with_project(f) {
                return Err(repeat("project-symbols"));
            }
            cmp_tables("project-symbols", &a, &exp.project_symbols, ctx)?;
        }
        "project_symbols_filtered" => {
            let a = db.file_symbols_with_project_filtered(f, all);
            if *a != *db.file_symbols_with_project_filtered(f, all) {
                return Err(repeat("project-symbols-filtered"));
            }
            cmp_tables("project-symbols-filtered", &a, &exp.project_symbols_filtered, ctx)?;
        }
        "expr_ids" => {
            let offsets = probe_offsets(text);
            let a = q_expr_ids(db, f, &offsets);
            if a != q_expr_ids(db, f, &offsets) {
                return Err(repeat("expr-id"));
            }
            if a != exp.expr_ids {
                return Err(ctx.violation("expr-id", first_diff(&strs(&a), &strs(&exp.expr_ids))));
            }
        }
        "types" => {
            // type_of for every known expression id, without asking analyze first
            let a: Vec<(u32, u32)> = exp.types.iter().map(|(id, _, _)| (*id, db.type_of(f, *id).0)).collect();
            let b: Vec<(u32, u32)> = exp.types.iter().map(|(id, _, _)| (*id, db.type_of(f, *id).0)).collect();
            if a != b {
                return Err(repeat("type-of"));
            }
            let e: Vec<(u32, u32)> = exp.types.iter().map(|(id, raw, _)| (*id, *raw)).collect();
            if a != e {
                return Err(ctx.violation("type-of", first_diff(&strs(&a), &strs(&e))));
            }
        }
        "type_one" => {
            // one expression id (cold parse: expr_id_at_offset is not asked first)
            let Some((id, raw, _)) = (!exp.types.is_empty()).then(|| exp.types[n as usize % exp.types.len()].clone()) else { return Ok(()) };
            let a = db.type_of(f, id).0;
            if a != db.type_of(f, id).0 {
                return Err(repeat("type-of"));
            }
            if a != raw {
                return Err(ctx.violation("type-of", format!("expr {id}: incremental type id {a} vs fresh {raw}")));
            }
        }
        "expr_one" => {
            let Some((off, id)) = (!exp.expr_ids.is_empty()).then(|| exp.expr_ids[n as usize % exp.expr_ids.len()]) else { return Ok(()) };
            let a = db.expr_id_at_offset(f, off);
            if a != db.expr_id_at_offset(f, off) {
                return Err(repeat("expr-id"));
            }
            if a != id {
                return Err(ctx.violation("expr-id", format!("offset {off}: incremental {a:?} vs fresh {id:?}")));
            }
        }
        "source_text" => {
            let a = db.source_text(f);
            if *a != exp.text {
                return Err(ctx.violation("source-text", format!("{:?} vs {:?}", a, exp.text)));
            }
        }
        _ => {
            let a: Vec<(String, Option<u32>)> = RESOLVE_NAMES.iter().map(|n| (n.to_string(), db.resolve_name(f, n).map(|s| s.0))).collect();
            if a != exp.resolve {
                return Err(ctx.violation("resolve-name", first_diff(&strs(&a), &strs(&exp.resolve))));
            }
        }
    }
    Ok(())
}

fn answers_digest(a: &Answers) -> u64 {
    let mut h = Fnv::new();
    for d in &a.diags {
        h.str(d);
    }
    h.u64(table_summary(&a.file_symbols)).u64(table_summary(&a.analyze_symbols));
    for (o, id) in &a.expr_ids {
        h.u64(u64::from(*o)).u64(id.map_or(u64::MAX, u64::from));
    }
    for (id, raw, name) in &a.types {
        h.u64(u64::from(*id)).u64(u64::from(*raw)).str(name);
    }
    h.str(&a.text);
    h.finish()
}

impl Check for C13Check {
    fn id(&self) -> &'static str {
        "C13"
    }
    fn cases(&self, tier: Tier) -> u64 {
        match tier {
            Tier::Quick => 1_000,
            Tier::Thorough => 15_000,
        }
    }
    fn rule(&self) -> &'static str {
        "case = 1-5 file slots (arbitrary non-contiguous FileIds, slot order != id order; one third through trust_hir::Project) x history of 40 (quick) / 80 (thorough) operations: set (add, re-add with same/mutated text, structural edit = rename / change type / change reference / delete / add / reorder declaration, break or repair syntax, whitespace or comment prefix/suffix, degenerate whole-file texts, swap of two files' contents, identical-text set), remove (also of absent files), query(kind, slot) incl. removed and never-added slots, trigger_salsa_cancellation; texts come from a cross-referencing family (struct/enum/alias TYPEs, FUNCTIONs calling each other, FUNCTION_BLOCKs, CONFIGURATION globals + VAR_EXTERNAL programs) drawn from a small name pool so duplicates and dangling references are frequent; round 3: type references REF_TO / ARRAY OF another struct (cyclic type graphs across files), edits that change letter case only, file_symbols_with_project_filtered, up to 8 files. distinct non-trivial = distinct hash of the whole case among histories with >= 1 remove followed by a re-add AND >= 1 lazy-twin query answered before a later edit of any file and asked again afterwards"
    }
    fn assumptions(&self) -> Vec<&'static str> {
        vec![
            "the fresh database is loaded with the current texts of the live files under the same FileIds, in ascending FileId order (ProjectInputs is sorted by FileId, so insertion order cannot legitimately matter; the incremental side inserts in history order)",
            "Project level: the incremental side is a real Project (FileIds assigned by its SourceRegistry, a re-added key gets a new id); its answers are compared with a fresh Database under exactly the ids the Project assigned, not with a fresh Project (whose ids would be renumbered)",
            "diagnostics are compared as exact ordered lists; symbol tables by the derived PartialEq of SymbolTable (order-free maps) and, for the report, by a rendering sorted by SymbolId; file_ids() as a sorted set",
            "expression types are compared as raw TypeId plus the type's name/definition looked up in the same database's analyze() table",
            "queries about removed / never-added files must answer like the fresh database does for an unknown FileId",
            "single-threaded histories only: salsa's internal synchronisation is outside the simulator, trigger_salsa_cancellation between operations is the only cancellation fault",
        ]
    }
    fn components(&self) -> (Vec<&'static str>, Vec<&'static str>) {
        (
            vec![
                "trust_hir::Database (sources map, SalsaState, ProjectInputs, revision counter)",
                "salsa 0.26 tracked queries (parse_green, file_symbols, project tables, analyze, diagnostics, type_of)",
                "trust_syntax parser",
                "SymbolCollector / SymbolImporter / TypeChecker",
                "trust_hir::Project + SourceRegistry",
            ],
            vec!["LSP document store above the database (C14 covers it)", "concurrent readers"],
        )
    }

    fn generate(&self, rng: &mut Rng, tier: Tier, _index: u64) -> Json {
        let mut cfg = rng.fork("config");
        let mut wl = rng.fork("workload");
        let mut opr = rng.fork("ops");
        let n_slots = *cfg.pick(&[1usize, 2, 2, 3, 3, 3, 4, 4, 5, 5, 7, 8]);
        let mode = if cfg.chance(1, 3) { "project" } else { "db" };
        let mut id_pool: Vec<u32> = vec![0, 1, 2, 3, 4, 5, 8, 13, 100, 65_536, 4_000_000_000];
        cfg.shuffle(&mut id_pool);
        let ids: Vec<u32> = if cfg.chance(1, 4) { (0..n_slots as u32).collect() } else { id_pool[..n_slots].to_vec() };

        // coherent project distributed over the slots + random extras
        let mut models: Vec<FileModel> = (0..n_slots).map(|_| FileModel::default()).collect();
        if wl.chance(4, 5) {
            let mk = |kind, name: &str, ty: &str, func: &str| Unit {
                kind,
                name: name.into(),
                ty: ty.into(),
                func: func.into(),
                fb: "Fb0".into(),
                st: "Rec0".into(),
                en: "Color0".into(),
                global: "g0".into(),
                prog: "Prog0".into(),
                nglobals: 2,
            };
            let base_ty = *wl.pick(&["INT", "DINT", "REAL"]);
            let coherent = vec![
                mk(Kind::Struct, "Rec0", base_ty, ""),
                mk(Kind::Enum, "Color0", "", ""),
                mk(Kind::Alias, "Len0", base_ty, ""),
                mk(Kind::Func, "Fn0", base_ty, "Fn0"),
                mk(Kind::Func, "Fn1", base_ty, "Fn0"),
                mk(Kind::Fb, "Fb0", base_ty, "Fn0"),
                mk(Kind::Config, "Conf0", base_ty, ""),
                mk(Kind::Prog, "Prog0", base_ty, "Fn1"),
            ];
            for u in coherent {
                let s = wl.usize(0, n_slots - 1);
                models[s].units.push(u);
            }
        }
        let extras = wl.usize(0, 4);
        for _ in 0..extras {
            let s = wl.usize(0, n_slots - 1);
            let u = random_unit(&mut wl);
            models[s].units.push(u);
        }
        for m in models.iter_mut() {
            wl.shuffle(&mut m.units);
            if wl.chance(1, 4) {
                m.prefix = pick_s(&mut wl, PREFIXES);
            }
            if wl.chance(1, 12) {
                m.breakage = Some((wl.below(9) as u8, wl.below(1000) as u32));
            }
            if wl.chance(1, 15) {
                m.override_text = Some(pick_s(&mut wl, OVERRIDES));
            }
        }

        let mut ops: Vec<Json> = vec![];
        let mut live = vec![false; n_slots];
        let mut ever = vec![false; n_slots];
        let mut order: Vec<usize> = (0..n_slots).collect();
        opr.shuffle(&mut order);
        for (i, s) in order.iter().enumerate() {
            if i > 0 && opr.chance(1, 5) {
                continue; // added later (or never)
            }
            ops.push(json!({"k": "set", "f": s, "text": models[*s].render(), "why": "add"}));
            live[*s] = true;
            ever[*s] = true;
        }
        let n_ops = match tier {
            Tier::Quick => 40,
            Tier::Thorough => 80,
        };
        let query_heavy = opr.chance(1, 4);
        while ops.len() < n_ops {
            let live_slots: Vec<usize> = (0..n_slots).filter(|s| live[*s]).collect();
            let dead_slots: Vec<usize> = (0..n_slots).filter(|s| !live[*s]).collect();
            let roll = opr.below(100);
            let q_share = if query_heavy { 60 } else { 34 };
            if roll < q_share {
                let f = opr.usize(0, n_slots - 1);
                ops.push(json!({"k": "query", "f": f, "q": *opr.pick(QUERY_KINDS), "n": opr.below(1000)}));
            } else if roll < q_share + 28 && !live_slots.is_empty() {
                let f = *opr.pick(&live_slots);
                let why = mutate(&mut opr, &mut models[f]);
                ops.push(json!({"k": "set", "f": f, "text": models[f].render(), "why": why}));
            } else if roll < q_share + 36 && !live_slots.is_empty() {
                let f = *opr.pick(&live_slots);
                ops.push(json!({"k": "remove", "f": f}));
                live[f] = false;
            } else if roll < q_share + 46 && !dead_slots.is_empty() {
                let f = *opr.pick(&dead_slots);
                let why = if !ever[f] {
                    "add"
                } else if opr.bool() {
                    "readd-same"
                } else {
                    mutate(&mut opr, &mut models[f]);
                    "readd-different"
                };
                ops.push(json!({"k": "set", "f": f, "text": models[f].render(), "why": why}));
                live[f] = true;
                ever[f] = true;
            } else if roll < q_share + 50 {
                ops.push(json!({"k": "cancel"}));
            } else if roll < q_share + 54 && live_slots.len() >= 2 {
                let a = *opr.pick(&live_slots);
                let b = *opr.pick(&live_slots);
                if a != b {
                    models.swap(a, b);
                    ops.push(json!({"k": "set", "f": a, "text": models[a].render(), "why": "swap"}));
                    ops.push(json!({"k": "set", "f": b, "text": models[b].render(), "why": "swap"}));
                }
            } else if roll < q_share + 57 && !live_slots.is_empty() {
                let f = *opr.pick(&live_slots);
                ops.push(json!({"k": "set", "f": f, "text": models[f].render(), "why": "identical"}));
            } else if roll < q_share + 59 {
                // remove of an absent file
                let f = opr.usize(0, n_slots - 1);
                if !live[f] {
                    ops.push(json!({"k": "remove", "f": f}));
                }
            } else if live_slots.len() >= 2 {
                // move a declaration to another file (two sets)
                let a = *opr.pick(&live_slots);
                let b = *opr.pick(&live_slots);
                if a != b && !models[a].units.is_empty() {
                    let i = opr.usize(0, models[a].units.len() - 1);
                    let u = models[a].units.remove(i);
                    if opr.chance(1, 3) {
                        models[a].units.insert(i, u.clone()); // duplicate instead of move
                    }
                    models[b].units.push(u);
                    let (first, second) = if opr.bool() { (a, b) } else { (b, a) };
                    ops.push(json!({"k": "set", "f": first, "text": models[first].render(), "why": "move-decl"}));
                    ops.push(json!({"k": "set", "f": second, "text": models[second].render(), "why": "move-decl"}));
                }
            }
        }
        json!({"mode": mode, "ids": ids, "ops": ops})
    }

    fn run(&self, case: &Json, stats: &mut Stats) -> Result<(), Violation> {
        for p in [
            "probe.remove_then_readd",
            "probe.requery_after_edit",
            "probe.cross_file_effect",
            "probe.duplicate_definition_live",
            "probe.syntax_error_file_set",
            "probe.empty_file_live",
            "probe.query_on_absent_file",
            "probe.query_after_cancellation",
            "probe.identical_text_set",
            "probe.user_type_expression",
            "probe.error_free_file",
            "probe.project_mode_case",
            "probe.project_readd_new_file_id",
            "fault.cancellation",
        ] {
            stats.add(p, 0);
        }
        let mode = case["mode"].as_str().unwrap_or("db");
        let ids: Vec<u32> = case["ids"].as_array().map(|a| a.iter().filter_map(|v| v.as_u64()).map(|v| v as u32).collect()).unwrap_or_default();
        let n_slots = ids.len();
        if n_slots == 0 {
            return Ok(());
        }
        {
            let mut sorted = ids.clone();
            sorted.sort_unstable();
            sorted.dedup();
            if sorted.len() != n_slots {
                return Err(Violation::new("harness/duplicate-file-ids", format!("{ids:?}")));
            }
        }
        let ops = case["ops"].as_array().cloned().unwrap_or_default();
        let (mut eager, mut lazy) = guard("create databases", || (Sut::new(mode, &ids), Sut::new(mode, &ids)))?;
        if mode == "project" {
            stats.inc("probe.project_mode_case");
        }
        let mut live: BTreeMap<usize, String> = BTreeMap::new();
        let mut removed_once = vec![false; n_slots];
        let mut readded = false;
        let mut last_mut = String::from("none");
        let mut cancelled_since_query = false;
        // lazy-twin memo tracking: (q, slot) asked at edit epoch e
        let mut asked: BTreeMap<(String, usize), u64> = BTreeMap::new();
        let mut epoch = 0u64;
        let mut requery_after_edit = false;
        let mut prev_digest: Vec<u64> = vec![0; n_slots];
        let mut last_fresh: Option<Vec<Answers>> = None;

        for (opi, op) in ops.iter().enumerate() {
            let k = op["k"].as_str().unwrap_or("");
            let slot = op["f"].as_u64().unwrap_or(0) as usize;
            if k != "cancel" && slot >= n_slots {
                continue;
            }
            let mut touched: Option<usize> = None;
            match k {
                "set" => {
                    let text = op["text"].as_str().unwrap_or("").to_string();
                    let was_live = live.contains_key(&slot);
                    let label = if was_live {
                        if live[&slot] == text {
                            stats.inc("probe.identical_text_set");
                            "identical-set"
                        } else {
                            "edit"
                        }
                    } else if removed_once[slot] {
                        readded = true;
                        stats.inc("probe.remove_then_readd");
                        "readd"
                    } else {
                        "add"
                    };
                    let old_id = eager.file_id(slot).0;
                    guard("set_source_text", || {
                        eager.set(slot, &text);
                        lazy.set(slot, &text);
                    })?;
                    if label == "readd" && eager.file_id(slot).0 != old_id {
                        stats.inc("probe.project_readd_new_file_id");
                    }
                    live.insert(slot, text);
                    last_mut = label.to_string();
                    if label != "identical-set" {
                        epoch += 1;
                    }
                    touched = Some(slot);
                    stats.inc(&format!("op.set.{label}"));
                    if let Some(w) = op["why"].as_str() {
                        stats.inc(&format!("edit.{w}"));
                    }
                }
                "remove" => {
                    let was_live = live.remove(&slot).is_some();
                    guard("remove_source_text", || {
                        eager.remove(slot);
                        lazy.remove(slot);
                    })?;
                    if was_live {
                        removed_once[slot] = true;
                        epoch += 1;
                        last_mut = "remove".into();
                        stats.inc("op.remove");
                    } else {
                        last_mut = "remove-absent".into();
                        stats.inc("op.remove_absent");
                    }
                    touched = Some(slot);
                }
                "cancel" => {
                    guard("trigger_salsa_cancellation", || {
                        eager.db().trigger_salsa_cancellation();
                        lazy.db().trigger_salsa_cancellation();
                    })?;
                    stats.inc("fault.cancellation");
                    cancelled_since_query = true;
                    last_mut = "cancel".into();
                }
                "query" => {}
                _ => continue,
            }
            if eager.file_id(slot.min(n_slots - 1)) != lazy.file_id(slot.min(n_slots - 1)) {
                return Err(Violation::new("project/file-id-nondeterministic", format!("op {opi}: two projects fed the same history assigned different file ids")));
            }

            // ---- fresh database with the same contents under the same ids (ascending id order)
            let mut by_id: Vec<(u32, &String)> = live.iter().map(|(s, t)| (eager.file_id(*s).0, t)).collect();
            by_id.sort_by_key(|(id, _)| *id);
            let fresh = guard("load fresh database", || {
                let mut db = Database::new();
                for (id, text) in &by_id {
                    db.set_source_text(FileId(*id), (*text).clone());
                }
                db
            })?;
            // file set
            let mut got_ids: Vec<u32> = eager.db().file_ids().iter().map(|f| f.0).collect();
            got_ids.sort_unstable();
            let exp_ids: Vec<u32> = by_id.iter().map(|(id, _)| *id).collect();
            if got_ids != exp_ids {
                return Err(Violation::new(
                    format!("file-ids/differs-from-fresh/after-{last_mut}"),
                    format!("op {opi}: file_ids() = {got_ids:?}, live files are {exp_ids:?}"),
                ));
            }
            let mut fresh_answers: Vec<Answers> = Vec::with_capacity(n_slots);
            let all: rustc_hash::FxHashSet<FileId> = (0..n_slots).map(|s| eager.file_id(s)).collect();
            let mut log = format!("{opi}:{k}:{slot}");
            let mut state = Fnv::new();
            for s in 0..n_slots {
                let fid = eager.file_id(s);
                let text = live.get(&s).map(String::as_str).unwrap_or("");
                let is_live = live.contains_key(&s);
                let exp = guard("queries on the fresh database", || sweep(&fresh, fid, text, 0, &all))??;
                let got = guard("queries on the incremental database", || sweep(eager.db(), fid, text, opi, &all))??;
                let ctx = Ctx { opi, slot: s, fid: fid.0, live: is_live, last_mut: &last_mut, twin: "eager" };
                compare(&got, &exp, &ctx)?;
                let dg = answers_digest(&exp);
                log.push_str(&format!(" {s}={dg:x}"));
                state.u64(dg);
                if touched.is_some() && touched != Some(s) && dg != prev_digest[s] && opi > 0 {
                    stats.inc("probe.cross_file_effect");
                }
                prev_digest[s] = dg;
                if is_live {
                    if text.trim().is_empty() {
                        stats.inc("probe.empty_file_live");
                    }
                    if touched == Some(s) && !guard("parse", || trust_syntax::parser::parse(text).ok())? {
                        stats.inc("probe.syntax_error_file_set");
                    }
                    if exp.diags.iter().any(|d| d.starts_with("DuplicateDeclaration")) {
                        stats.inc("probe.duplicate_definition_live");
                    }
                    if !text.trim().is_empty() && !exp.diags.iter().any(|d| d.contains("|Error|")) {
                        stats.inc("probe.error_free_file");
                    }
                    if exp.types.iter().any(|(_, raw, _)| *raw >= 100) {
                        stats.inc("probe.user_type_expression");
                    }
                }
                fresh_answers.push(exp);
            }
            stats.state(state.finish());
            stats.inc("ops");

            // ---- lazy twin: only the history's own queries
            if k == "query" {
                let q = op["q"].as_str().unwrap_or("diagnostics");
                let n = op["n"].as_u64().unwrap_or(0) as u32;
                let fid = lazy.file_id(slot);
                let text = live.get(&slot).map(String::as_str).unwrap_or("");
                let is_live = live.contains_key(&slot);
                let ctx = Ctx { opi, slot, fid: fid.0, live: is_live, last_mut: &last_mut, twin: "lazy" };
                guard("history query on the lazy twin", || lazy_query(lazy.db(), fid, q, n, text, &fresh_answers[slot], &ctx, &all))??;
                stats.inc(&format!("query.{q}"));
                if !is_live {
                    stats.inc("probe.query_on_absent_file");
                }
                if cancelled_since_query {
                    stats.inc("probe.query_after_cancellation");
                    cancelled_since_query = false;
                }
                let key = (q.to_string(), slot);
                if let Some(e) = asked.get(&key) {
                    if *e < epoch {
                        stats.inc("probe.requery_after_edit");
                        requery_after_edit = true;
                    }
                }
                asked.insert(key, epoch);
            }
            stats.log(&log);
            last_fresh = Some(fresh_answers);
        }

        // ---- final full sweep of the lazy twin
        if let Some(fresh_answers) = &last_fresh {
            let all_final: rustc_hash::FxHashSet<FileId> = (0..n_slots).map(|s| lazy.file_id(s)).collect();
            for s in 0..n_slots {
                let fid = lazy.file_id(s);
                let text = live.get(&s).map(String::as_str).unwrap_or("");
                let got = guard("final sweep of the lazy twin", || sweep(lazy.db(), fid, text, s + 1, &all_final))??;
                let ctx = Ctx { opi: ops.len(), slot: s, fid: fid.0, live: live.contains_key(&s), last_mut: &last_mut, twin: "lazy (final sweep)" };
                compare(&got, &fresh_answers[s], &ctx)?;
            }
        }
        if readded && requery_after_edit {
            stats.nontrivial(crate::rng::hash_str(&case.to_string()));
        }
        if stats.samples.is_empty() {
            let texts: Vec<&String> = live.values().collect();
            stats.sample(json!({"mode": mode, "ids": ids, "final_texts": texts, "first_ops": ops.iter().take(8).map(|o| {
                let mut o = o.clone();
                if let Some(t) = o.get("text").and_then(|t| t.as_str()).map(|t| t.chars().take(60).collect::<String>()) {
                    o["text"] = json!(t);
                }
                o
            }).collect::<Vec<_>>()}));
        }
        Ok(())
    }
}
