//! C20 - resource threads: consistent shared globals; pause/resume/stop always work.
//!
//! World (engine B): N in 2..4 runtimes compiled from one CONFIGURATION text
//! (same VAR_GLOBALs `shared, a, b, torn, cnt_1..cnt_N`, resource i's program
//! increments `cnt_i`), spawned with the real `ResourceRunner::spawn_with_shared`
//! as shuttle tasks, each with its own real `ManualClock`, some behind a real
//! `StartGate`, each with a counting in-memory retain store, some with a
//! `DebugControl` attached (runtime events + scheduling points inside the
//! cycle).  A controller task executes the seeded script of the case.
//! The paired-variable check (`a <> b`) sits inside the program because
//! `SharedGlobals::get` reads one name per lock acquisition.
use std::sync::mpsc::{Receiver as StdReceiver, TryRecvError};
use std::sync::Arc;

use indexmap::IndexMap;
use serde_json::{json, Value as Json};
use smol_str::SmolStr;

use trust_runtime::debug::RuntimeEvent;
use trust_runtime::error::RuntimeError;
use trust_runtime::scheduler::{
    ManualClock, ResourceCommand, ResourceControl, ResourceHandle, ResourceRunner, ResourceState, SharedGlobals, StartGate,
};
use trust_runtime::value::{Duration, Value};
use trust_runtime::watchdog::{FaultPolicy, WatchdogAction, WatchdogPolicy};
use trust_runtime::Runtime;

use crate::engine_b::{self, guard_in_task, poll_until, Outcome, SchedSpec, SharedObs};
use crate::framework::{guard, shrink_generic, Check, Stats, Tier, Violation};
use crate::rng::{Fnv, Rng};
use crate::world::{self, SimRetainStore};

pub struct C20Check;
pub static C20: C20Check = C20Check;

/// polls (each with an explicit yield) a harness wait may take before the
/// awaited event counts as "never happens"
const POLL_LIMIT: usize = 30_000;
/// shuttle step bound of one execution; a healthy run stays far below
const MAX_STEPS: usize = 3_000_000;

pub fn source_for(i: usize, n: usize, res: &Json) -> String {
    let me = i + 1;
    let mut s = String::from("CONFIGURATION C\nVAR_GLOBAL\n  shared : DINT := 0;\n  a : DINT := 0;\n  b : DINT := 0;\n  torn : DINT := 0;\n  scratch : DINT := 0;\n  mp : DINT := 0;\n  mq : DINT := 0;\n");
    for k in 1..=n {
        s.push_str(&format!("  cnt_{k} : DINT := 0;\n"));
    }
    s.push_str("END_VAR\nVAR_GLOBAL RETAIN\n  keep : DINT := 0;\nEND_VAR\nPROGRAM P : Main;\nEND_CONFIGURATION\n\n");
    s.push_str(&format!(
        "PROGRAM Main\nVAR_EXTERNAL\n  shared : DINT;\n  a : DINT;\n  b : DINT;\n  torn : DINT;\n  scratch : DINT;\n  mp : DINT;\n  mq : DINT;\n  cnt_{me} : DINT;\n  keep : DINT;\nEND_VAR\nVAR\n  zero : DINT := 0;\n  smin : SINT := -128;\n  sneg : SINT := 0;\nEND_VAR\n"
    ));
    if let Some(k) = res["fault_at"].as_i64() {
        // the fault sits where the shared set is consistent (before any update of this cycle)
        match res["fault_kind"].as_str().unwrap_or("div0") {
            "panic" => s.push_str(&format!("IF cnt_{me} >= {k} THEN\n  sneg := -smin;\nEND_IF;\n")),
            _ => s.push_str(&format!("IF cnt_{me} >= {k} THEN\n  scratch := 7 / zero;\nEND_IF;\n")),
        }
    }
    s.push_str(&format!(
        "IF a <> b THEN\n  torn := torn + 1;\nEND_IF;\nIF mp <> mq THEN\n  torn := torn + 1;\nEND_IF;\nshared := shared + 1;\ncnt_{me} := cnt_{me} + 1;\na := a + 1;\nb := a;\nkeep := keep + 1;\nEND_PROGRAM\n"
    ));
    s
}

fn shared_names(n: usize) -> Vec<SmolStr> {
    let mut names: Vec<SmolStr> = ["shared", "a", "b", "torn"].iter().map(|s| SmolStr::new(*s)).collect();
    for k in 1..=n {
        names.push(SmolStr::new(format!("cnt_{k}")));
    }
    names
}

struct ResWorld {
    runtime: Runtime,
    store: SimRetainStore,
    debug: Option<trust_runtime::debug::DebugControl>,
    events: Option<StdReceiver<RuntimeEvent>>,
    gate: Option<usize>,
    fault_at: Option<i64>,
    panics: bool,
    periodic_save: bool,
}

struct World {
    n: usize,
    interval_ms: i64,
    n_gates: usize,
    resources: Vec<ResWorld>,
    script: Vec<Json>,
    final_order: Vec<usize>,
}

struct Res {
    handle: ResourceHandle<ManualClock>,
    control: ResourceControl<ManualClock>,
    clock: ManualClock,
    store: SimRetainStore,
    events: Option<StdReceiver<RuntimeEvent>>,
    gate: Option<usize>,
    fault_possible: bool,
    /// the program of this resource panics at a chosen cycle (known C01-class defect used as a fault)
    panic_injected: bool,
    periodic_save: bool,
    // harness knowledge
    gate_open: bool,
    gate_ever_opened_before_stop: bool,
    stop_sent: bool,
    joined: bool,
    /// last pause/resume command sent: 0 none, 1 pause, 2 resume
    last_pr: u8,
    /// commands sent that are not known to be processed
    unsynced: bool,
    /// cycle count observed when the resource was established Paused
    frozen: Option<i128>,
    frozen_starts: Option<u64>,
    starts: u64,
    ends: u64,
    fault_events: u64,
    seen_faulted: bool,
    /// (op index, final state, store calls, durable retained counter) recorded at join
    joined_with: Option<(usize, ResourceState, u64, Option<i128>)>,
}

struct Ctl {
    n: usize,
    interval: Duration,
    shared: SharedGlobals,
    gates: Vec<Arc<StartGate>>,
    res: Vec<Res>,
    obs: SharedObs,
}

fn state_name(s: ResourceState) -> &'static str {
    match s {
        ResourceState::Boot => "Boot",
        ResourceState::Ready => "Ready",
        ResourceState::Running => "Running",
        ResourceState::Paused => "Paused",
        ResourceState::Faulted => "Faulted",
        ResourceState::Stopped => "Stopped",
    }
}

impl Ctl {
    fn get(&self, name: &str) -> Result<i128, Violation> {
        let v = guard_in_task("SharedGlobals::get", || self.shared.get(name))?;
        v.as_ref().and_then(world::as_i128).ok_or_else(|| Violation::new("harness/shared-get", format!("{name} = {v:?}")))
    }

    fn cnt(&self, r: usize) -> Result<i128, Violation> {
        self.get(&format!("cnt_{}", r + 1))
    }

    fn state(&self, r: usize) -> Result<ResourceState, Violation> {
        guard_in_task("ResourceControl::state", || self.res[r].control.state())
    }

    fn drain_events(&mut self) {
        for res in &mut self.res {
            if let Some(rx) = &res.events {
                loop {
                    match rx.try_recv() {
                        Ok(RuntimeEvent::CycleStart { .. }) => res.starts += 1,
                        Ok(RuntimeEvent::CycleEnd { .. }) => res.ends += 1,
                        Ok(RuntimeEvent::Fault { .. }) => res.fault_events += 1,
                        Ok(_) => {}
                        Err(TryRecvError::Empty) | Err(TryRecvError::Disconnected) => break,
                    }
                }
            }
        }
    }

    /// the resource is able to run cycles as far as the harness knows
    fn can_cycle(&self, r: usize) -> bool {
        let x = &self.res[r];
        x.gate_open && !x.stop_sent && x.last_pr != 1 && !x.seen_faulted
    }

    fn send(&mut self, r: usize, what: &str, cmd: ResourceCommand) -> Result<bool, Violation> {
        let res = guard_in_task("ResourceControl::send_command", || self.res[r].control.send_command(cmd))?;
        self.sent_ok(r, what, res)
    }

    fn sent_ok(&mut self, r: usize, what: &str, res: Result<(), RuntimeError>) -> Result<bool, Violation> {
        match res {
            Ok(()) => Ok(true),
            Err(err) => {
                // the receiver lives in the resource thread: a closed channel means the thread is gone
                if self.res[r].fault_possible {
                    self.obs.ev(format!("{what} r{r}: channel closed (faulted)"));
                    Ok(false)
                } else {
                    Err(Violation::new(
                        "resource-died/command-channel-closed",
                        format!("{what} to resource {r} failed with {err:?} although it was neither stopped nor able to fault"),
                    ))
                }
            }
        }
    }

    /// after every operation: a resource established Paused must not have cycled
    fn check_frozen(&mut self, at: &str) -> Result<(), Violation> {
        self.drain_events();
        for r in 0..self.res.len() {
            if let Some(c0) = self.res[r].frozen {
                let c = self.cnt(r)?;
                if c != c0 {
                    return Err(Violation::new(
                        "pause/cycle-while-paused",
                        format!("resource {r} was observed Paused with cnt={c0}, no Resume was sent, but cnt={c} after {at}"),
                    ));
                }
                if let Some(s0) = self.res[r].frozen_starts {
                    if self.res[r].starts != s0 {
                        return Err(Violation::new(
                            "pause/cycle-start-while-paused",
                            format!("resource {r} was observed Paused after {s0} CycleStart events, no Resume was sent, but {} after {at}", self.res[r].starts),
                        ));
                    }
                }
            }
        }
        Ok(())
    }

    fn freeze(&mut self, r: usize) -> Result<(), Violation> {
        self.drain_events();
        let c = self.cnt(r)?;
        self.res[r].frozen = Some(c);
        self.res[r].frozen_starts = self.res[r].events.as_ref().map(|_| self.res[r].starts);
        self.obs.inc("probe.paused-observed");
        self.obs.ev(format!("frozen r{r} cnt={c}"));
        Ok(())
    }

    fn note_fault(&mut self, r: usize) {
        if !self.res[r].seen_faulted {
            self.res[r].seen_faulted = true;
            self.res[r].frozen = None;
            self.obs.inc("fault.cycle-fault-div0");
            self.obs.ev(format!("faulted r{r}"));
        }
    }

    fn op(&mut self, idx: usize, op: &Json) -> Result<(), Violation> {
        let kind = op["op"].as_str().unwrap_or("");
        let r = op["r"].as_u64().unwrap_or(0) as usize;
        if kind != "open" && kind != "yield" && r >= self.res.len() {
            return Ok(());
        }
        self.obs.phase(kind);
        match kind {
            "advance" => {
                let ms = op["ms"].as_i64().unwrap_or(0).max(0);
                let clock = self.res[r].clock.clone();
                let now = guard_in_task("ManualClock::advance", || clock.advance(Duration::from_millis(ms)))?;
                self.obs.time(ms as u128 * 1_000_000);
                self.obs.ev(format!("{idx} advance r{r} {ms}ms -> {}", now.as_nanos()));
            }
            "pause" => {
                if self.res[r].stop_sent {
                    return Ok(());
                }
                let was_synced_running = !self.res[r].unsynced && self.res[r].last_pr != 1;
                let sent = guard_in_task("ResourceControl::pause", || self.res[r].control.pause())?;
                if !self.sent_ok(r, "pause", sent)? {
                    return Ok(());
                }
                self.res[r].last_pr = 1;
                self.res[r].unsynced = true;
                self.obs.ev(format!("{idx} pause r{r}"));
                if op["wait"].as_bool().unwrap_or(false) && was_synced_running && self.res[r].gate_open && !self.res[r].panic_injected {
                    // observe the state flip directly (no command in flight before this Pause)
                    let mut last = ResourceState::Boot;
                    let mut err = None;
                    let ok = poll_until(POLL_LIMIT, || match self.state(r) {
                        Ok(s) => {
                            last = s;
                            matches!(s, ResourceState::Paused | ResourceState::Faulted | ResourceState::Stopped)
                        }
                        Err(v) => {
                            err = Some(v);
                            true
                        }
                    });
                    if let Some(v) = err {
                        return Err(v);
                    }
                    if !ok {
                        return Err(Violation::new(
                            "wedged/pause-not-processed",
                            format!("op {idx}: resource {r} never became Paused after Pause (state {})", state_name(last)),
                        ));
                    }
                    match last {
                        ResourceState::Paused => {
                            self.res[r].unsynced = false;
                            self.freeze(r)?;
                        }
                        ResourceState::Faulted if self.res[r].fault_possible => self.note_fault(r),
                        other => {
                            return Err(Violation::new(
                                "state/unexpected",
                                format!("op {idx}: resource {r} is {} after Pause", state_name(other)),
                            ))
                        }
                    }
                }
            }
            "resume" => {
                if self.res[r].stop_sent {
                    return Ok(());
                }
                // the freeze claim ends *before* the command is sent
                self.res[r].frozen = None;
                self.res[r].frozen_starts = None;
                let sent = guard_in_task("ResourceControl::resume", || self.res[r].control.resume())?;
                if !self.sent_ok(r, "resume", sent)? {
                    return Ok(());
                }
                self.res[r].last_pr = 2;
                self.res[r].unsynced = true;
                self.obs.ev(format!("{idx} resume r{r}"));
            }
            "sync" => {
                // barrier: a command with a reply; FIFO processing means every earlier command is done
                if self.res[r].stop_sent || !self.res[r].gate_open || self.res[r].seen_faulted || self.res[r].panic_injected {
                    return Ok(());
                }
                let (tx, rx) = std::sync::mpsc::channel();
                let names = vec![SmolStr::new("keep"), SmolStr::new(format!("cnt_{}", r + 1))];
                if !self.send(r, "sync", ResourceCommand::MeshSnapshot { names, respond_to: tx })? {
                    return Ok(());
                }
                // time passes while the controller waits (a sleeping resource drains its commands at the next cycle boundary)
                let clock = self.res[r].clock.clone();
                let interval = self.interval;
                let mut advanced = 0u128;
                let mut reply = None;
                let mut last = ResourceState::Boot;
                let mut err = None;
                let ok = poll_until(POLL_LIMIT, || {
                    if let Ok(v) = rx.try_recv() {
                        reply = Some(v);
                        return true;
                    }
                    match self.state(r) {
                        Ok(s) => {
                            last = s;
                            if matches!(s, ResourceState::Faulted | ResourceState::Stopped) {
                                return true;
                            }
                        }
                        Err(v) => {
                            err = Some(v);
                            return true;
                        }
                    }
                    clock.advance(interval);
                    advanced += interval.as_nanos() as u128;
                    false
                });
                self.obs.time(advanced);
                if let Some(v) = err {
                    return Err(v);
                }
                if !ok {
                    return Err(Violation::new(
                        "wedged/command-not-processed",
                        format!("op {idx}: resource {r} (state {}) never answered a snapshot command", state_name(last)),
                    ));
                }
                let Some(reply) = reply else {
                    if last == ResourceState::Faulted && self.res[r].fault_possible {
                        self.note_fault(r);
                        return Ok(());
                    }
                    return Err(Violation::new(
                        "state/unexpected",
                        format!("op {idx}: resource {r} went {} without a stop or a possible fault", state_name(last)),
                    ));
                };
                self.res[r].unsynced = false;
                self.obs.inc("probe.barrier-completed");
                let st = self.state(r)?;
                let keep = reply.get("keep").and_then(world::as_i128);
                self.obs.ev(format!("{idx} sync r{r} state={} keep={keep:?}", state_name(st)));
                match (self.res[r].last_pr, st) {
                    (1, ResourceState::Paused) => {
                        if self.res[r].frozen.is_none() {
                            self.freeze(r)?;
                        }
                        // the private retained counter and the shared counter agree at a quiescent point
                        let c = self.cnt(r)?;
                        if keep != Some(c) {
                            return Err(Violation::new(
                                "shared/private-counter-mismatch",
                                format!("op {idx}: paused resource {r}: private keep={keep:?} but shared cnt={c}"),
                            ));
                        }
                    }
                    (1, other) if !(other == ResourceState::Faulted && self.res[r].fault_possible) => {
                        return Err(Violation::new(
                            "pause/state-not-paused",
                            format!("op {idx}: all commands up to a Pause were processed by resource {r} but its state is {}", state_name(other)),
                        ));
                    }
                    (0 | 2, ResourceState::Paused) => {
                        return Err(Violation::new(
                            "resume/state-still-paused",
                            format!("op {idx}: all commands up to a Resume were processed by resource {r} but its state is Paused"),
                        ));
                    }
                    (_, ResourceState::Faulted) if self.res[r].fault_possible => self.note_fault(r),
                    _ => {}
                }
            }
            "cmd" => {
                if self.res[r].stop_sent {
                    return Ok(());
                }
                let which = op["kind"].as_str().unwrap_or("");
                let cmd = match which {
                    "watchdog-off" => ResourceCommand::UpdateWatchdog(WatchdogPolicy {
                        enabled: false,
                        timeout: Duration::from_millis(op["ms"].as_i64().unwrap_or(5)),
                        action: WatchdogAction::SafeHalt,
                    }),
                    "policy-halt" => ResourceCommand::UpdateFaultPolicy(FaultPolicy::Halt),
                    "policy-safe-halt" => ResourceCommand::UpdateFaultPolicy(FaultPolicy::SafeHalt),
                    "safe-state" => ResourceCommand::UpdateIoSafeState(Default::default()),
                    "mesh-apply" => {
                        // an update set from a mesh peer: a pair of (resource-local) globals that the program
                        // expects to be equal, with a name this resource does not declare in between - the set
                        // must be applied as a whole (unknown names skipped), never half
                        let v = Value::DInt(op["v"].as_i64().unwrap_or(1) as i32);
                        let mut updates = IndexMap::new();
                        updates.insert(SmolStr::new("scratch"), v.clone());
                        updates.insert(SmolStr::new("mp"), v.clone());
                        updates.insert(SmolStr::new("peer_only_name"), Value::DInt(1));
                        updates.insert(SmolStr::new("mq"), v);
                        ResourceCommand::MeshApply { updates }
                    }
                    "snapshot" => {
                        // reply channel dropped at once: the resource must cope with a vanished requester
                        let (tx, _rx) = std::sync::mpsc::channel();
                        ResourceCommand::Snapshot { respond_to: tx }
                    }
                    _ => return Ok(()),
                };
                if self.send(r, which, cmd)? {
                    self.res[r].unsynced = true;
                    self.obs.ev(format!("{idx} cmd r{r} {which}"));
                }
            }
            "open" => {
                let g = op["g"].as_u64().unwrap_or(0) as usize;
                let Some(gate) = self.gates.get(g).cloned() else { return Ok(()) };
                guard_in_task("StartGate::open", || gate.open())?;
                for x in &mut self.res {
                    if x.gate == Some(g) {
                        x.gate_open = true;
                        if !x.stop_sent {
                            x.gate_ever_opened_before_stop = true;
                        }
                    }
                }
                self.obs.ev(format!("{idx} open g{g}"));
            }
            "stop" => {
                if self.res[r].stop_sent {
                    return Ok(());
                }
                self.stop(r, idx, op["via"].as_str() == Some("control"))?;
            }
            "join" => {
                if !self.res[r].stop_sent || self.res[r].joined {
                    return Ok(());
                }
                self.join(r, idx)?;
            }
            "await-fault" => {
                if !self.res[r].fault_possible || !self.can_cycle(r) {
                    return Ok(());
                }
                if self.res[r].panic_injected {
                    // no state flip announces a dead thread: give it time and cycles
                    let clock = self.res[r].clock.clone();
                    for _ in 0..400 {
                        clock.advance(self.interval);
                        shuttle::thread::yield_now();
                    }
                    self.obs.ev(format!("{idx} await-panic r{r}"));
                    return Ok(());
                }
                let clock = self.res[r].clock.clone();
                let interval = self.interval;
                let mut last = ResourceState::Boot;
                let mut err = None;
                let mut advanced = 0u128;
                let ok = poll_until(POLL_LIMIT, || {
                    match self.state(r) {
                        Ok(s) => last = s,
                        Err(v) => {
                            err = Some(v);
                            return true;
                        }
                    }
                    if last == ResourceState::Faulted {
                        return true;
                    }
                    clock.advance(interval);
                    advanced += interval.as_nanos() as u128;
                    false
                });
                self.obs.time(advanced);
                if let Some(v) = err {
                    return Err(v);
                }
                if !ok {
                    return Err(Violation::new(
                        "liveness/no-cycle",
                        format!("op {idx}: resource {r} (state {}) never reached its faulting cycle although its clock kept advancing", state_name(last)),
                    ));
                }
                self.note_fault(r);
                self.obs.inc("probe.fault-observed-while-others-run");
            }
            "progress" => {
                if self.res[r].fault_possible || !self.can_cycle(r) {
                    return Ok(());
                }
                let after_fault = self.res.iter().any(|x| x.seen_faulted);
                let c0 = self.cnt(r)?;
                let clock = self.res[r].clock.clone();
                let interval = self.interval;
                let mut err = None;
                let mut advanced = 0u128;
                let mut c = c0;
                let ok = poll_until(POLL_LIMIT, || {
                    match self.cnt(r) {
                        Ok(v) => c = v,
                        Err(v) => {
                            err = Some(v);
                            return true;
                        }
                    }
                    if c > c0 {
                        return true;
                    }
                    clock.advance(interval);
                    advanced += interval.as_nanos() as u128;
                    false
                });
                self.obs.time(advanced);
                if let Some(v) = err {
                    return Err(v);
                }
                if !ok {
                    let st = self.state(r)?;
                    let sig = if after_fault { "liveness/no-cycle-after-fault-elsewhere" } else { "liveness/no-cycle" };
                    return Err(Violation::new(
                        sig,
                        format!("op {idx}: resource {r} (state {}) made no cycle (cnt stays {c0}) although its clock kept advancing", state_name(st)),
                    ));
                }
                if after_fault {
                    self.obs.inc("probe.progress-after-fault-elsewhere");
                }
                self.obs.ev(format!("{idx} progress r{r} {c0}->{c}"));
            }
            "yield" => {
                for _ in 0..op["n"].as_u64().unwrap_or(1).min(50) {
                    shuttle::thread::yield_now();
                }
            }
            _ => {}
        }
        Ok(())
    }

    fn stop(&mut self, r: usize, idx: usize, via_control: bool) -> Result<(), Violation> {
        let x = &self.res[r];
        if x.last_pr == 1 {
            self.obs.inc(if x.frozen.is_some() { "probe.stop-while-observed-paused" } else { "probe.stop-racing-pause" });
        }
        if !x.gate_open {
            self.obs.inc("probe.stop-while-gated");
        }
        if x.unsynced {
            self.obs.inc("probe.stop-racing-command");
        }
        if via_control {
            guard_in_task("ResourceControl::stop", || self.res[r].control.stop())?;
        } else {
            guard_in_task("ResourceHandle::stop", || self.res[r].handle.stop())?;
        }
        self.res[r].stop_sent = true;
        self.obs.ev(format!("{idx} stop r{r}"));
        Ok(())
    }

    fn join(&mut self, r: usize, idx: usize) -> Result<(), Violation> {
        self.obs.phase("join");
        let res = guard_in_task("ResourceHandle::join", || self.res[r].handle.join())?;
        self.res[r].joined = true;
        if res.is_err() && self.res[r].panic_injected {
            self.obs.inc("fault.cycle-panic");
            self.obs.ev(format!("{idx} join r{r}: injected panic"));
            return Ok(());
        }
        if res.is_err() {
            let panics = verif_hooks::sync_std::thread::verif_peek_panics();
            let name = format!("res-{r}");
            let msg = panics.iter().rev().find(|p| p.0 == name).map(|p| p.1.clone()).unwrap_or_default();
            return Err(Violation::new(
                format!("thread-panic/{}", normalise(&msg)),
                format!("op {idx}: resource {r} thread ended with a panic: {msg}"),
            ));
        }
        let st = self.state(r)?;
        let err = guard_in_task("ResourceControl::last_error", || self.res[r].control.last_error())?;
        self.obs.ev(format!("{idx} join r{r} state={} err={}", state_name(st), err.as_ref().map(|e| e.to_string()).unwrap_or_default()));
        match st {
            ResourceState::Stopped => {}
            ResourceState::Faulted if self.res[r].fault_possible && (self.res[r].panic_injected || matches!(err, Some(RuntimeError::DivisionByZero))) => {
                self.note_fault(r);
            }
            other => {
                return Err(Violation::new(
                    "stop/final-state",
                    format!("op {idx}: resource {r} joined after stop with state {} (last error {err:?})", state_name(other)),
                ));
            }
        }
        // retained data
        let (calls, durable) = {
            let s = self.res[r].store.0.lock().unwrap_or_else(|e| e.into_inner());
            (s.store_calls, s.durable.clone())
        };
        let durable_keep = durable.as_ref().and_then(|d| d.values().get("keep")).and_then(world::as_i128);
        self.obs.ev(format!("{idx} store r{r} calls={calls} keep={durable_keep:?}"));
        self.res[r].joined_with = Some((idx, st, calls, durable_keep));
        Ok(())
    }

    /// retained data of a joined resource (evaluated at quiescence, after the lost-update check,
    /// because the durable counter is compared with the shared per-resource counter)
    fn check_store(&self, r: usize, cnt: i128) -> Result<(), Violation> {
        let Some((idx, st, calls, durable_keep)) = self.res[r].joined_with else { return Ok(()) };
        if st == ResourceState::Stopped {
            if self.res[r].gate_ever_opened_before_stop || self.res[r].gate.is_none() {
                // the resource ran its loop: the stop path saved the final retained values
                if durable_keep != Some(cnt) {
                    return Err(Violation::new(
                        "stop/retain-not-final",
                        format!("resource {r} (joined at op {idx}) stopped after {cnt} cycles but the durable retained counter is {durable_keep:?} ({calls} store calls)"),
                    ));
                }
                if !self.res[r].periodic_save && calls != 1 {
                    return Err(Violation::new(
                        "stop/retain-save-count",
                        format!("resource {r} (joined at op {idx}) has no periodic save; exactly one store call is expected for its stop, seen {calls}"),
                    ));
                }
            } else if calls > 1 {
                return Err(Violation::new(
                    "stop/retain-save-count",
                    format!("resource {r} (joined at op {idx}) was stopped behind a closed gate; {calls} store calls"),
                ));
            }
        }
        Ok(())
    }

    fn finale(&mut self, order: &[usize], script_len: usize) -> Result<(), Violation> {
        let mut order: Vec<usize> = order.iter().copied().filter(|r| *r < self.res.len()).collect();
        for r in 0..self.res.len() {
            if !order.contains(&r) {
                order.push(r);
            }
        }
        for (k, r) in order.iter().enumerate() {
            if !self.res[*r].stop_sent {
                self.obs.phase("final-stop");
                self.stop(*r, script_len + k, false)?;
                self.check_frozen("final stop")?;
            }
        }
        for (k, r) in order.iter().enumerate() {
            if !self.res[*r].joined {
                self.join(*r, script_len + self.res.len() + k)?;
                self.check_frozen("final join")?;
            }
        }
        // quiescence
        self.obs.phase("quiescence");
        self.drain_events();
        let shared = self.get("shared")?;
        let a = self.get("a")?;
        let b = self.get("b")?;
        let torn = self.get("torn")?;
        let mut sum = 0i128;
        let mut cnts = vec![];
        for r in 0..self.res.len() {
            let c = self.cnt(r)?;
            cnts.push(c);
            sum += c;
        }
        self.obs.ev(format!("final shared={shared} a={a} b={b} torn={torn} cnts={cnts:?}"));
        self.obs.add("cycles", sum.max(0) as u64);
        if cnts.iter().filter(|c| **c > 0).count() >= 2 {
            self.obs.inc("probe.two-or-more-resources-cycled");
        }
        if shared != sum || a != sum {
            return Err(Violation::new(
                "shared/lost-update",
                format!("at quiescence shared={shared}, a={a}, but the per-resource cycle counts {cnts:?} sum to {sum}"),
            ));
        }
        if torn != 0 {
            return Err(Violation::new(
                "shared/torn-pair",
                format!("{torn} cycle(s) started on a snapshot with a <> b"),
            ));
        }
        if a != b {
            return Err(Violation::new("shared/pair-differs", format!("at quiescence a={a} b={b}")));
        }
        for r in 0..self.res.len() {
            self.check_store(r, cnts[r])?;
        }
        for r in 0..self.res.len() {
            if self.res[r].events.is_some() && self.res[r].ends as i128 != cnts[r] {
                return Err(Violation::new(
                    "events/cycle-end-count",
                    format!("resource {r}: {} CycleEnd events but cnt={}", self.res[r].ends, cnts[r]),
                ));
            }
        }
        Ok(())
    }

    /// stop and join whatever is left, without oracles (after a violation)
    fn teardown(&mut self) {
        self.obs.phase("teardown");
        for g in &self.gates {
            let _ = guard_in_task("teardown", || g.open());
        }
        for x in &mut self.res {
            if !x.stop_sent {
                let _ = guard_in_task("teardown", || x.handle.stop());
                x.stop_sent = true;
            }
        }
        for x in &mut self.res {
            if !x.joined {
                let _ = guard_in_task("teardown", || x.handle.join());
                x.joined = true;
            }
        }
    }
}

fn normalise(msg: &str) -> String {
    let mut out = String::new();
    let mut last_digit = false;
    for ch in msg.chars().take(60) {
        if ch.is_ascii_digit() {
            if !last_digit {
                out.push('N');
            }
            last_digit = true;
        } else {
            last_digit = false;
            out.push(ch);
        }
    }
    out
}

/// Stepping mode: every resource is stepped by a thread of its own through the public
/// `ResourceRunner::tick_with_shared` (what an embedding host does instead of `spawn_with_shared`).
fn controller_ticks(resources: Vec<ResWorld>, n: usize, interval_ms: i64, ticks: Vec<u64>, obs: SharedObs) {
    obs.phase("tick-spawn");
    let shared = match guard_in_task("SharedGlobals::from_runtime", || SharedGlobals::from_runtime(shared_names(n), &resources[0].runtime)) {
        Ok(Ok(s)) => s,
        Ok(Err(e)) => return obs.violate(Violation::new("harness/shared-globals", e.to_string())),
        Err(v) => return obs.violate(v),
    };
    let mut handles = vec![];
    for (i, rw) in resources.into_iter().enumerate() {
        let (sh, obs2) = (shared.clone(), obs.clone());
        let k = ticks.get(i).copied().unwrap_or(1);
        let mut runner = ResourceRunner::new(rw.runtime, ManualClock::new(), Duration::from_millis(interval_ms));
        handles.push(verif_hooks::sync_std::thread::spawn(move || {
            for _ in 0..k {
                if let Err(e) = runner.tick_with_shared(&sh) {
                    obs2.violate(Violation::new("tick/error", format!("resource {i}: {e:?}")));
                    return;
                }
                obs2.inc("ticks");
            }
        }));
    }
    obs.phase("tick-join");
    for h in handles {
        let _ = h.join();
    }
    obs.phase("tick-final");
    let get = |name: &str| -> i128 { shared.get(name).as_ref().and_then(world::as_i128).unwrap_or(i128::MIN) };
    let total: i128 = ticks.iter().take(n).map(|k| *k as i128).sum();
    let (sh, a, b, torn) = (get("shared"), get("a"), get("b"), get("torn"));
    obs.ev(format!("final shared={sh} a={a} b={b} torn={torn} ticks={ticks:?}"));
    obs.inc("probe.two-or-more-resources-cycled");
    if sh != total || a != total {
        return obs.violate(Violation::new(
            "shared/lost-update/tick",
            format!("{n} resources stepped {ticks:?} times through tick_with_shared: shared = {sh}, a = {a}, expected {total} (every cycle adds 1)"),
        ));
    }
    if a != b || torn != 0 {
        return obs.violate(Violation::new("shared/torn-pair/tick", format!("a = {a}, b = {b}, torn = {torn}")));
    }
    for i in 0..n {
        let c = get(&format!("cnt_{}", i + 1));
        if c != ticks.get(i).copied().unwrap_or(1) as i128 {
            return obs.violate(Violation::new("shared/lost-update/tick", format!("cnt_{} = {c}, resource {i} was stepped {} times", i + 1, ticks.get(i).copied().unwrap_or(1))));
        }
    }
}

fn controller(world: World, obs: SharedObs) {
    let World { n, interval_ms, n_gates, resources, script, final_order } = world;
    let interval = Duration::from_millis(interval_ms);
    obs.phase("spawn");
    let result: Result<Ctl, Violation> = (|| {
        let shared = guard_in_task("SharedGlobals::from_runtime", || SharedGlobals::from_runtime(shared_names(n), &resources[0].runtime))?
            .map_err(|e| Violation::new("harness/shared-globals", e.to_string()))?;
        let gates: Vec<Arc<StartGate>> = (0..n_gates).map(|_| Arc::new(StartGate::new())).collect();
        let mut res = vec![];
        for (i, mut rw) in resources.into_iter().enumerate() {
            if let Some(debug) = rw.debug.take() {
                let (tx, rx) = std::sync::mpsc::channel();
                guard_in_task("DebugControl::set_runtime_sender", || debug.set_runtime_sender(tx))?;
                rw.events = Some(rx);
            }
            let clock = ManualClock::new();
            let mut runner = ResourceRunner::new(rw.runtime, clock.clone(), interval);
            let gate = rw.gate.filter(|g| *g < gates.len());
            if let Some(g) = gate {
                runner = runner.with_start_gate(gates[g].clone());
            }
            let sh = shared.clone();
            let handle = guard_in_task("ResourceRunner::spawn_with_shared", move || runner.spawn_with_shared(format!("res-{i}"), sh))?
                .map_err(|e| Violation::new("harness/spawn", e.to_string()))?;
            let control = handle.control();
            obs.ev(format!("spawn r{i} gate={gate:?}"));
            res.push(Res {
                handle,
                control,
                clock,
                store: rw.store,
                events: rw.events,
                gate,
                fault_possible: rw.fault_at.is_some(),
                panic_injected: rw.fault_at.is_some() && rw.panics,
                periodic_save: rw.periodic_save,
                gate_open: gate.is_none(),
                gate_ever_opened_before_stop: false,
                stop_sent: false,
                joined: false,
                last_pr: 0,
                unsynced: false,
                frozen: None,
                frozen_starts: None,
                starts: 0,
                ends: 0,
                fault_events: 0,
                seen_faulted: false,
                joined_with: None,
            });
        }
        Ok(Ctl { n, interval, shared, gates, res, obs: obs.clone() })
    })();
    let mut ctl = match result {
        Ok(c) => c,
        Err(v) => {
            obs.violate(v);
            return;
        }
    };
    let outcome: Result<(), Violation> = (|| {
        for (idx, op) in script.iter().enumerate() {
            ctl.op(idx, op)?;
            let what = op["op"].as_str().unwrap_or("").to_string();
            ctl.check_frozen(&format!("op {idx} ({what})"))?;
        }
        ctl.finale(&final_order, script.len())
    })();
    if let Err(v) = outcome {
        obs.violate(v);
        ctl.teardown();
    }
    let _ = ctl.n;
}

impl Check for C20Check {
    fn id(&self) -> &'static str {
        "C20"
    }
    fn cases(&self, tier: Tier) -> u64 {
        match tier {
            Tier::Quick => 12_000,
            Tier::Thorough => 400_000,
        }
    }
    fn hang_limit_s(&self) -> u64 {
        180
    }
    fn rule(&self) -> &'static str {
        "case = N in 2..4 resource runtimes (same shared VAR_GLOBAL set; per resource: start gate or none, DebugControl+event channel or none, periodic retain save or none, optional division-by-zero fault at a chosen cycle) x seeded controller script over {advance clock, pause (with/without observing Paused), resume, barrier command, other commands, open gate, stop via handle/control, join, await-fault, progress probe, yield} x one shuttle schedule (uniform-random with stay bias, or PCT-like with depth/slice/horizon) from the case's scheduler seed; one case = one explored schedule; round 3: free-running resources (interval 0) and, in one case in eight, a stepping mode in which every resource is stepped by a simulated thread of its own through tick_with_shared; distinct non-trivial = distinct hash of the ordered observable event log (commands, observed states, counters) of runs in which at least two resources executed cycles"
    }
    fn assumptions(&self) -> Vec<&'static str> {
        vec![
            "a timed wait (StartGate 50 ms poll) is modelled as release -> scheduling point -> re-acquire -> timed out; shuttle has no time, ManualClock::advance is a controller operation",
            "'paused resource executes no cycle' is asserted from the moment the controller has established Paused (state observed with no other pause/resume in flight, or a reply-carrying barrier command processed after the Pause) until it sends Resume; commands still in flight make no claim",
            "'saves retained data once' is read operationally: a resource that entered its loop stores exactly once for its stop when no periodic save is configured (RetainManager skips a store of an unchanged snapshot, so a second save call is unobservable), and the durable snapshot holds the final retained counter; a resource stopped behind a never-opened gate has executed nothing and is allowed to store nothing",
            "the injected cycle fault sits at the start of the program where the shared set is consistent; a fault in the middle of a read-modify-write sequence publishes the partial cycle (sync_from runs on the error path) and is not counted as 'half-updated set' here",
            "after one resource faults the others must still complete cycles when their clocks advance (bounded polling, 30 000 polls with a yield each)",
            "a resource with an injected fault may legitimately end Faulted (DivisionByZero) or Stopped (stop won the race)",
        ]
    }
    fn components(&self) -> (Vec<&'static str>, Vec<&'static str>) {
        (
            vec![
                "compiler front end + lowering",
                "ResourceRunner::spawn_with_shared / run_resource_loop_with_shared",
                "SharedGlobals (with_lock, sync_into/from)",
                "ManualClock (Mutex+Condvar)",
                "StartGate",
                "ResourceHandle / ResourceControl (pause, resume, stop, join, send_command)",
                "Runtime::execute_cycle, retain save on stop, DebugControl runtime events",
            ],
            vec![
                "OS threads (shuttle coroutines on one OS thread)",
                "std::sync Mutex/Condvar/mpsc::Receiver/atomics of scheduler.rs and debug/control.rs (shuttle-backed shim)",
                "timed waits (modelled)",
                "retain store (in-memory, counting)",
            ],
        )
    }

    fn generate(&self, rng: &mut Rng, tier: Tier, _index: u64) -> Json {
        let mut cfg = rng.fork("config");
        let mut ops = rng.fork("script");
        let mut sch = rng.fork("schedule");
        let n = cfg.usize(2, 4);
        let n_gates = if cfg.chance(1, 2) { cfg.usize(1, 2) } else { 0 };
        let interval_ms = *cfg.pick(&[1i64, 10, 10, 100, 0]);
        let faulting = if cfg.chance(2, 5) { Some(cfg.usize(0, n - 1)) } else { None };
        // minority: the fault is a panic inside the cycle (open finding: poisons the shared lock)
        let panic_kind = cfg.chance(1, 12);
        let mut resources = vec![];
        for i in 0..n {
            let gate = if n_gates > 0 && cfg.chance(1, 2) { Some(cfg.usize(0, n_gates - 1)) } else { None };
            let fault_at = if faulting == Some(i) { Some(cfg.range(0, 4)) } else { None };
            resources.push(json!({
                "gate": gate,
                "debug": cfg.chance(1, 3),
                "fault_at": fault_at,
                "fault_kind": if fault_at.is_some() && panic_kind { "panic" } else { "div0" },
                "retain_ms": if cfg.chance(1, 4) { Some(*cfg.pick(&[0i64, 10, 25])) } else { None },
            }));
        }
        let len = match tier {
            Tier::Quick => ops.usize(4, 36),
            Tier::Thorough => ops.usize(4, 70),
        };
        let cmds = ["watchdog-off", "policy-halt", "policy-safe-halt", "safe-state", "mesh-apply", "snapshot"];
        let mut script = vec![];
        let mut fault_step_done = false;
        for _ in 0..len {
            let r = ops.usize(0, n - 1);
            let op = match ops.below(100) {
                0..=24 => json!({"op": "advance", "r": r, "ms": *ops.pick(&[0i64, 1, interval_ms, interval_ms, 2 * interval_ms, 1000])}),
                25..=36 => json!({"op": "pause", "r": r, "wait": ops.chance(1, 2)}),
                37..=46 => json!({"op": "resume", "r": r}),
                47..=56 => json!({"op": "sync", "r": r}),
                57..=63 => json!({"op": "cmd", "r": r, "kind": *ops.pick(&cmds), "v": ops.range(1, 9), "ms": 5}),
                64..=70 if n_gates > 0 => json!({"op": "open", "g": ops.usize(0, n_gates - 1)}),
                64..=70 => json!({"op": "yield", "n": ops.usize(1, 6)}),
                71..=76 => json!({"op": "stop", "r": r, "via": if ops.bool() { "control" } else { "handle" }}),
                77..=80 => json!({"op": "join", "r": r}),
                81..=88 => json!({"op": "progress", "r": r}),
                89..=92 if faulting.is_some() && !fault_step_done => {
                    fault_step_done = true;
                    json!({"op": "await-fault", "r": faulting.unwrap()})
                }
                _ => json!({"op": "yield", "n": ops.usize(1, 6)}),
            };
            let was_fault = op["op"] == "await-fault";
            script.push(op);
            if was_fault {
                // liveness of the others right after the fault
                for j in 0..n {
                    if Some(j) != faulting && ops.chance(2, 3) {
                        script.push(json!({"op": "progress", "r": j}));
                    }
                }
            }
        }
        let mut final_order: Vec<usize> = (0..n).collect();
        ops.shuffle(&mut final_order);
        let mut tk = rng.fork("ticks");
        if tk.chance(1, 8) {
            // stepping mode: no faults, no gates, no debugger - only the shared-globals exchange under interleavings
            let resources: Vec<Json> = (0..n).map(|_| json!({"gate": null, "debug": false, "fault_at": null, "fault_kind": "div0", "retain_ms": null})).collect();
            let ticks: Vec<u64> = (0..n).map(|_| tk.range(1, 4) as u64).collect();
            return json!({"interval_ms": interval_ms, "gates": 0, "resources": resources, "script": [], "final_order": final_order, "ticks": ticks, "sched": SchedSpec::generate(&mut sch).to_json()});
        }
        json!({
            "interval_ms": interval_ms,
            "gates": n_gates,
            "resources": resources,
            "script": script,
            "final_order": final_order,
            "sched": SchedSpec::generate(&mut sch).to_json(),
        })
    }

    fn shrink(&self, case: &Json) -> Vec<Json> {
        // a reduced script meets a different interleaving under the old scheduler seed:
        // offer every generic candidate under the original and two alternative seeds
        let spec = SchedSpec::from_json(&case["sched"]);
        let mut out = vec![];
        for cand in shrink_generic(case) {
            if cand["resources"].as_array().map_or(0, Vec::len) == 0 {
                continue;
            }
            out.push(cand.clone());
            for k in 1..=2 {
                let mut alt = cand.clone();
                alt["sched"] = spec.reseeded(k).to_json();
                out.push(alt);
            }
        }
        out
    }

    fn run(&self, case: &Json, stats: &mut Stats) -> Result<(), Violation> {
        for key in [
            "probe.paused-observed",
            "probe.barrier-completed",
            "probe.stop-while-observed-paused",
            "probe.stop-racing-pause",
            "probe.stop-while-gated",
            "probe.stop-racing-command",
            "probe.fault-observed-while-others-run",
            "probe.progress-after-fault-elsewhere",
            "probe.two-or-more-resources-cycled",
            "fault.cycle-fault-div0",
            "fault.cycle-panic",
            "probe.stepped-through-tick-with-shared",
        ] {
            stats.add(key, 0);
        }
        let spec = SchedSpec::from_json(&case["sched"]);
        let rs = case["resources"].as_array().cloned().unwrap_or_default();
        let n = rs.len();
        if n == 0 {
            return Ok(());
        }
        let interval_ms = case["interval_ms"].as_i64().unwrap_or(10).max(0);
        let mut resources = vec![];
        for (i, r) in rs.iter().enumerate() {
            let src = source_for(i, n, r);
            let mut runtime = guard("compile", || world::compile(&src))?
                .map_err(|e| Violation::new("harness/compile", format!("resource {i}: {e}\n{src}")))?;
            let store = SimRetainStore::new();
            let retain_ms = r["retain_ms"].as_i64();
            runtime.set_retain_store(Some(Box::new(store.clone())), retain_ms.map(Duration::from_millis));
            // the DebugControl's lock is a shuttle mutex: it is only touched inside the execution
            let debug = if r["debug"].as_bool().unwrap_or(false) { Some(runtime.enable_debug()) } else { None };
            resources.push(ResWorld {
                runtime,
                store,
                debug,
                events: None,
                gate: r["gate"].as_u64().map(|g| g as usize),
                fault_at: r["fault_at"].as_i64(),
                panics: r["fault_kind"].as_str() == Some("panic"),
                periodic_save: retain_ms.is_some(),
            });
        }
        let world = World {
            n,
            interval_ms,
            n_gates: case["gates"].as_u64().unwrap_or(0) as usize,
            resources,
            script: case["script"].as_array().cloned().unwrap_or_default(),
            final_order: case["final_order"].as_array().map(|a| a.iter().filter_map(|v| v.as_u64().map(|x| x as usize)).collect()).unwrap_or_default(),
        };
        let obs = SharedObs::new();
        let obs2 = obs.clone();
        let ticks: Option<Vec<u64>> = case["ticks"].as_array().map(|a| a.iter().map(|v| v.as_u64().unwrap_or(1)).collect());
        let report = match ticks {
            Some(t) => {
                stats.inc("probe.stepped-through-tick-with-shared");
                let World { resources, n, interval_ms, .. } = world;
                engine_b::run_execution(&spec, MAX_STEPS, move || controller_ticks(resources, n, interval_ms, t, obs2))
            }
            None => engine_b::run_execution(&spec, MAX_STEPS, move || controller(world, obs2)),
        };
        engine_b::feed_stats(stats, &obs, &report);
        stats.inc(&format!("scheduler.{}", spec.kind));
        let (violation, phase, events) = {
            let o = obs.0.lock().unwrap_or_else(|e| e.into_inner());
            (o.violation.clone(), o.phase.clone(), o.events.clone())
        };
        if case["sample"].is_null() && events.len() > 12 {
            stats.sample(case.clone());
        }
        // non-trivial: two or more resources cycled
        if events.iter().any(|e| e.contains("final shared=")) {
            let mut h = Fnv::new();
            for e in &events {
                h.str(e);
            }
            let two = obs.0.lock().unwrap_or_else(|e| e.into_inner()).counters.get("probe.two-or-more-resources-cycled").copied().unwrap_or(0) > 0;
            if two {
                stats.nontrivial(h.finish());
            }
        }
        // root cause first: once the shared-globals lock is poisoned every later symptom
        // (dead resources, closed command channels, unanswered commands, a panicking get)
        // is the same mechanism
        let poisoned = report.panic_log.iter().any(|(_, m)| m.starts_with("shared globals poisoned"));
        if poisoned {
            let first = report.panic_log.first().cloned().unwrap_or_default();
            let symptom = violation.as_ref().map(|v| format!("{}: {}", v.signature, v.detail)).unwrap_or_else(|| format!("{:?}", report.outcome));
            return Err(Violation::new(
                "fault-isolation/shared-lock-poisoned",
                format!(
                    "a panic in one resource thread ({} at {}) poisoned the SharedGlobals mutex; other users of the shared set panic on 'shared globals poisoned' ({} panics in this run). First symptom: {}",
                    first.1,
                    crate::framework::short_loc(&first.0),
                    report.panic_log.len(),
                    symptom.chars().take(300).collect::<String>()
                ),
            ));
        }
        if let Some(v) = violation {
            return Err(v);
        }
        match report.outcome {
            Outcome::Completed => {}
            Outcome::Deadlock(msg) => {
                return Err(Violation::new(
                    format!("wedged/deadlock/{phase}"),
                    format!("all threads blocked while the controller was in phase '{phase}': {}", msg.chars().take(400).collect::<String>()),
                ));
            }
            Outcome::StepBound => {
                return Err(Violation::new(
                    format!("wedged/step-bound/{phase}"),
                    format!("the execution exceeded {MAX_STEPS} scheduling steps while the controller was in phase '{phase}'"),
                ));
            }
            Outcome::Panic { location, message } => {
                if engine_b::is_harness_location(&location) {
                    return Err(Violation::new("harness/panic", format!("{location}: {message}")));
                }
                return Err(Violation::new(
                    engine_b::panic_signature(&location, &message),
                    format!("panic at {location} (controller phase '{phase}'): {message}"),
                ));
            }
        }
        // a product thread that died of a panic nobody injected (the injected one is the fault under test)
        let injected: Vec<String> = rs
            .iter()
            .enumerate()
            .filter(|(_, r)| r["fault_at"].is_i64() && r["fault_kind"].as_str() == Some("panic"))
            .map(|(i, _)| format!("res-{i}"))
            .collect();
        if let Some((name, msg)) = report.thread_panics.iter().find(|(name, _)| !injected.contains(name)) {
            return Err(Violation::new(format!("thread-panic/{}", normalise(msg)), format!("thread {name} panicked: {msg}")));
        }
        Ok(())
    }
}
