//! One integer decides everything: SplitMix64 seeding + xoshiro256**.
//! Written here so value streams never depend on a crate version.

#[derive(Debug, Clone)]
pub struct Rng {
    s: [u64; 4],
}

pub fn splitmix(state: &mut u64) -> u64 {
    *state = state.wrapping_add(0x9E37_79B9_7F4A_7C15);
    let mut z = *state;
    z = (z ^ (z >> 30)).wrapping_mul(0xBF58_476D_1CE4_E5B9);
    z = (z ^ (z >> 27)).wrapping_mul(0x94D0_49BB_1331_11EB);
    z ^ (z >> 31)
}

/// Mix a base seed with a textual stream id and an index.
pub fn mix(seed: u64, stream: &str, index: u64) -> u64 {
    let mut h = seed ^ 0x5151_7EED_0000_0001;
    for b in stream.bytes() {
        h = (h ^ u64::from(b)).wrapping_mul(0x0000_0100_0000_01B3);
    }
    let mut st = h ^ index.wrapping_mul(0xD6E8_FEB8_6659_FD93);
    splitmix(&mut st)
}

impl Rng {
    pub fn new(seed: u64) -> Self {
        let mut st = seed;
        let s = [splitmix(&mut st), splitmix(&mut st), splitmix(&mut st), splitmix(&mut st)];
        Self { s }
    }

    /// Independent sub-stream (so shrinking one dimension does not reshuffle others).
    pub fn fork(&self, stream: &str) -> Rng {
        Rng::new(mix(self.s[0] ^ self.s[2].rotate_left(17), stream, 0))
    }

    pub fn next_u64(&mut self) -> u64 {
        let result = self.s[1].wrapping_mul(5).rotate_left(7).wrapping_mul(9);
        let t = self.s[1] << 17;
        self.s[2] ^= self.s[0];
        self.s[3] ^= self.s[1];
        self.s[1] ^= self.s[2];
        self.s[0] ^= self.s[3];
        self.s[2] ^= t;
        self.s[3] = self.s[3].rotate_left(45);
        result
    }

    /// Uniform in 0..n (n>0).
    pub fn below(&mut self, n: u64) -> u64 {
        debug_assert!(n > 0);
        // multiply-shift; bias is irrelevant for simulation purposes
        ((u128::from(self.next_u64()) * u128::from(n)) >> 64) as u64
    }

    pub fn range(&mut self, lo: i64, hi_incl: i64) -> i64 {
        debug_assert!(hi_incl >= lo);
        let span = (hi_incl as i128 - lo as i128 + 1) as u128;
        if span > u128::from(u64::MAX) {
            return self.next_u64() as i64;
        }
        (lo as i128 + self.below(span as u64) as i128) as i64
    }

    pub fn usize(&mut self, lo: usize, hi_incl: usize) -> usize {
        self.range(lo as i64, hi_incl as i64) as usize
    }

    pub fn chance(&mut self, num: u64, den: u64) -> bool {
        self.below(den) < num
    }

    pub fn bool(&mut self) -> bool {
        self.next_u64() & 1 == 1
    }

    pub fn pick<'a, T>(&mut self, items: &'a [T]) -> &'a T {
        &items[self.below(items.len() as u64) as usize]
    }

    pub fn pick_weighted<'a, T>(&mut self, items: &'a [(u32, T)]) -> &'a T {
        let total: u64 = items.iter().map(|(w, _)| u64::from(*w)).sum();
        let mut r = self.below(total.max(1));
        for (w, item) in items {
            if r < u64::from(*w) {
                return item;
            }
            r -= u64::from(*w);
        }
        &items[items.len() - 1].1
    }

    pub fn shuffle<T>(&mut self, items: &mut [T]) {
        for i in (1..items.len()).rev() {
            let j = self.below(i as u64 + 1) as usize;
            items.swap(i, j);
        }
    }
}

/// FNV-1a style 64-bit hasher with a fixed key (process independent, unlike std's RandomState).
#[derive(Debug, Clone, Copy)]
pub struct Fnv(pub u64);

impl Default for Fnv {
    fn default() -> Self {
        Fnv(0xcbf2_9ce4_8422_2325)
    }
}

impl Fnv {
    pub fn new() -> Self {
        Self::default()
    }
    pub fn bytes(&mut self, data: &[u8]) -> &mut Self {
        for b in data {
            self.0 = (self.0 ^ u64::from(*b)).wrapping_mul(0x0000_0100_0000_01B3);
        }
        self
    }
    pub fn str(&mut self, s: &str) -> &mut Self {
        self.bytes(s.as_bytes()).bytes(&[0xff])
    }
    pub fn u64(&mut self, v: u64) -> &mut Self {
        self.bytes(&v.to_le_bytes())
    }
    pub fn finish(&self) -> u64 {
        let mut st = self.0;
        splitmix(&mut st)
    }
}

pub fn hash_str(s: &str) -> u64 {
    Fnv::new().str(s).finish()
}
