//! C04 - standard function blocks follow the IEC timing diagrams on every trace.
//!
//! World: one generated program with a bank of FB instances; every instance
//! has 1-3 call sites, each with its own simulator-written enable/input
//! globals and per-site output copies, so outputs are compared after *every
//! call* (0 calls per cycle = time accumulates to the later call, >=2 calls =
//! dt 0 calls). Oracle: independent reference models (DESIGN Appendix B).
use serde_json::{json, Value as Json};

use trust_runtime::value::{Duration, Value};
use trust_runtime::RestartMode;

use crate::framework::{guard, Check, Stats, Tier, Violation};
use crate::rng::{Fnv, Rng};
use crate::world;

pub struct C04Check;
pub static C04: C04Check = C04Check;

const KINDS: &[&str] = &[
    "TON", "TOF", "TP", "TON_LTIME", "TOF_LTIME", "TP_LTIME", "TON", "TOF", "TP", "TP",
    "CTU_INT", "CTU_DINT", "CTU_LINT", "CTU_UDINT", "CTU_ULINT",
    "CTD_INT", "CTD_DINT", "CTD_LINT", "CTD_UDINT", "CTD_ULINT",
    "CTUD_INT", "CTUD_DINT", "CTUD_LINT", "CTUD_UDINT", "CTUD_ULINT",
    "R_TRIG", "F_TRIG", "SR", "RS",
];

#[derive(Clone, Copy, PartialEq, Eq, Debug)]
enum Fam {
    Ton,
    Tof,
    Tp,
    Ctu,
    Ctd,
    Ctud,
    RTrig,
    FTrig,
    Sr,
    Rs,
}

fn fam(kind: &str) -> Fam {
    let base = kind.split('_').next().unwrap_or(kind);
    match (kind, base) {
        ("R_TRIG", _) => Fam::RTrig,
        ("F_TRIG", _) => Fam::FTrig,
        (_, "TON") => Fam::Ton,
        (_, "TOF") => Fam::Tof,
        (_, "TP") => Fam::Tp,
        (_, "CTU") => Fam::Ctu,
        (_, "CTD") => Fam::Ctd,
        (_, "CTUD") => Fam::Ctud,
        (_, "SR") => Fam::Sr,
        _ => Fam::Rs,
    }
}

fn is_timer(f: Fam) -> bool {
    matches!(f, Fam::Ton | Fam::Tof | Fam::Tp)
}
fn is_counter(f: Fam) -> bool {
    matches!(f, Fam::Ctu | Fam::Ctd | Fam::Ctud)
}

/// (ST type name, min, max) of a counter kind's PV/CV
fn counter_type(kind: &str) -> (&'static str, i128, i128) {
    match kind.rsplit('_').next().unwrap_or("") {
        "INT" => ("INT", i128::from(i16::MIN), i128::from(i16::MAX)),
        "DINT" => ("DINT", i128::from(i32::MIN), i128::from(i32::MAX)),
        "LINT" => ("LINT", i128::from(i64::MIN), i128::from(i64::MAX)),
        "UDINT" => ("UDINT", 0, i128::from(u32::MAX)),
        "ULINT" => ("ULINT", 0, i128::from(u64::MAX)),
        _ => ("INT", i128::from(i16::MIN), i128::from(i16::MAX)),
    }
}

fn counter_value(kind: &str, v: i128) -> Value {
    match counter_type(kind).0 {
        "INT" => Value::Int(v as i16),
        "DINT" => Value::DInt(v as i32),
        "LINT" => Value::LInt(v as i64),
        "UDINT" => Value::UDInt(v as u32),
        _ => Value::ULInt(v as u64),
    }
}

fn time_value(kind: &str, ns: i64) -> Value {
    if kind.ends_with("_LTIME") {
        Value::LTime(Duration::from_nanos(ns))
    } else {
        Value::Time(Duration::from_nanos(ns))
    }
}

pub fn source_for(case: &Json) -> String {
    let instances = case["instances"].as_array().cloned().unwrap_or_default();
    let sites = case["sites"].as_array().cloned().unwrap_or_default();
    let mut g = String::new();
    let mut ext = String::new();
    let mut decl = |name: String, ty: &str, g: &mut String, ext: &mut String| {
        g.push_str(&format!("  {name} : {ty};\n"));
        ext.push_str(&format!("  {name} : {ty};\n"));
    };
    for (j, inst) in instances.iter().enumerate() {
        let kind = inst["kind"].as_str().unwrap_or("TON");
        let f = fam(kind);
        if is_timer(f) {
            decl(format!("p{j}"), if kind.ends_with("_LTIME") { "LTIME" } else { "TIME" }, &mut g, &mut ext);
        } else if is_counter(f) {
            decl(format!("p{j}"), counter_type(kind).0, &mut g, &mut ext);
        }
    }
    for (k, site) in sites.iter().enumerate() {
        let j = site["inst"].as_u64().unwrap_or(0) as usize;
        let kind = instances[j]["kind"].as_str().unwrap_or("TON");
        let f = fam(kind);
        for n in ["en", "a", "b", "c", "d", "oq", "ox"] {
            decl(format!("{n}{k}"), "BOOL", &mut g, &mut ext);
        }
        if is_timer(f) {
            decl(format!("on{k}"), if kind.ends_with("_LTIME") { "LTIME" } else { "TIME" }, &mut g, &mut ext);
        } else if is_counter(f) {
            decl(format!("on{k}"), counter_type(kind).0, &mut g, &mut ext);
        }
    }
    let mut s = String::new();
    s.push_str("CONFIGURATION C\nVAR_GLOBAL\n");
    s.push_str(&g);
    s.push_str("END_VAR\nPROGRAM P : Main;\nEND_CONFIGURATION\n\nPROGRAM Main\nVAR_EXTERNAL\n");
    s.push_str(&ext);
    s.push_str("END_VAR\nVAR\n");
    for (j, inst) in instances.iter().enumerate() {
        s.push_str(&format!("  i{j} : {};\n", inst["kind"].as_str().unwrap_or("TON")));
    }
    s.push_str("END_VAR\n");
    for (k, site) in sites.iter().enumerate() {
        let j = site["inst"].as_u64().unwrap_or(0) as usize;
        let kind = instances[j]["kind"].as_str().unwrap_or("TON");
        let call = match fam(kind) {
            Fam::Ton | Fam::Tof | Fam::Tp => format!("i{j}(IN := a{k}, PT := p{j}); oq{k} := i{j}.Q; on{k} := i{j}.ET;"),
            Fam::Ctu => format!("i{j}(CU := a{k}, R := b{k}, PV := p{j}); oq{k} := i{j}.Q; on{k} := i{j}.CV;"),
            Fam::Ctd => format!("i{j}(CD := a{k}, LD := b{k}, PV := p{j}); oq{k} := i{j}.Q; on{k} := i{j}.CV;"),
            Fam::Ctud => format!(
                "i{j}(CU := a{k}, CD := b{k}, R := c{k}, LD := d{k}, PV := p{j}); oq{k} := i{j}.QU; ox{k} := i{j}.QD; on{k} := i{j}.CV;"
            ),
            Fam::RTrig | Fam::FTrig => format!("i{j}(CLK := a{k}); oq{k} := i{j}.Q;"),
            Fam::Sr => format!("i{j}(S1 := a{k}, R := b{k}); oq{k} := i{j}.Q1;"),
            Fam::Rs => format!("i{j}(S := a{k}, R1 := b{k}); oq{k} := i{j}.Q1;"),
        };
        s.push_str(&format!("IF en{k} THEN {call} END_IF;\n"));
    }
    s.push_str("END_PROGRAM\n");
    s
}

/// Reference model of one instance.
#[derive(Clone, Debug, Default)]
struct Model {
    // timers
    acc: i128,
    q: bool,
    prev: bool,
    timing: bool,
    active: bool,
    expired: bool,
    last_call: Option<i64>,
    pt_at_start: Option<i64>,
    suspended: bool,
    // counters
    cv: i128,
    qd: bool,
    prev2: bool,
    // triggers
    m: bool,
    // outputs as last computed (q above, et/cv below)
    et: i128,
    called: bool,
}

impl Check for C04Check {
    fn id(&self) -> &'static str {
        "C04"
    }
    fn cases(&self, tier: Tier) -> u64 {
        match tier {
            Tier::Quick => 12_000,
            Tier::Thorough => 60_000,
        }
    }
    fn rule(&self) -> &'static str {
        "case = bank of 1-8 instances drawn from TON/TOF/TP (TIME and LTIME), CTU/CTD/CTUD (INT, DINT, LINT, UDINT, ULINT), R_TRIG, F_TRIG, SR, RS with 1-3 call sites each (0..3 calls per cycle, later calls in a cycle see dt=0) x trace of cycles with dt from {0,1ns,PT-1,PT,PT+1,random<PT,k*PT,huge}, persistent/toggling inputs, PT/PV from {0,negative,1,typical,type max}, CV pokes next to the saturation bounds, PT changes while timing, warm/cold restarts; outputs compared with the reference model after every call; distinct non-trivial = distinct (FB family, abstract state before, inputs, dt class, abstract state after) transitions"
    }
    fn assumptions(&self) -> Vec<&'static str> {
        vec![
            "time between two calls of an instance is attributed to the input seen at the later call (property text)",
            "after TOF has expired / after a TP pulse ended with IN still TRUE, ET may read 0 (repo's docs/specs/08 diagrams) or PT (IEC hold): both accepted; Q is compared exactly everywhere and ET exactly while timing",
            "PT changed while a timer is running is undefined in IEC: exact comparison of that instance is suspended until it is idle again; ET<=PT(new) and Q consistency stay checked",
            "F_TRIG follows the IEC body (fires on the first call with CLK=FALSE)",
        ]
    }
    fn components(&self) -> (Vec<&'static str>, Vec<&'static str>) {
        (
            vec!["compiler", "interpreter FB call path (call_function_block, parameter binding)", "stdlib/fbs timers, counters, triggers, bistables", "Runtime::restart"],
            vec!["clock (set_current_time)"],
        )
    }

    fn generate(&self, rng: &mut Rng, tier: Tier, _index: u64) -> Json {
        let mut cfg = rng.fork("config");
        let mut ops_rng = rng.fork("ops");
        let n_inst = cfg.usize(1, 8);
        let timer_heavy = cfg.chance(1, 2);
        let mut instances = vec![];
        for _ in 0..n_inst {
            let kind = if timer_heavy && cfg.chance(2, 3) { *cfg.pick(&KINDS[..10]) } else { *cfg.pick(KINDS) };
            let f = fam(kind);
            let p: i128 = if is_timer(f) {
                *cfg.pick(&[0i128, -5, 1, 2, 1_000, 1_000_000, 10_000_000, 100_000_000, 100_000_000, 1_000_000_000, 3_600_000_000_000, i64::MAX as i128])
            } else if is_counter(f) {
                let (_, lo, hi) = counter_type(kind);
                (*cfg.pick(&[0i128, 1, 2, 3, 5, lo, lo + 1, hi, hi - 1, -1, -3])).clamp(lo, hi)
            } else {
                0
            };
            instances.push(json!({"kind": kind, "p": p.to_string()}));
        }
        let mut sites = vec![];
        for j in 0..n_inst {
            for _ in 0..cfg.usize(1, 3) {
                sites.push(json!({"inst": j}));
            }
        }
        cfg.shuffle(&mut sites);
        let n_ops = match tier {
            Tier::Quick => ops_rng.usize(10, 60),
            Tier::Thorough => ops_rng.usize(20, 120),
        };
        let pts: Vec<i64> = instances
            .iter()
            .filter(|i| is_timer(fam(i["kind"].as_str().unwrap())))
            .map(|i| i["p"].as_str().unwrap().parse::<i128>().unwrap().clamp(1, 1 << 50) as i64)
            .collect();
        let n_sites = sites.len();
        let flip_rate = *ops_rng.pick(&[2u64, 3, 5, 8]);
        let en_rate = *ops_rng.pick(&[1u64, 2, 2, 3]);
        let change_pt = ops_rng.chance(1, 8);
        let restarts = ops_rng.chance(1, 5);
        let pokes = ops_rng.chance(1, 3);
        let mut state: Vec<[bool; 5]> = vec![[true, false, false, false, false]; n_sites];
        let mut ops = vec![];
        for _ in 0..n_ops {
            if restarts && ops_rng.chance(1, 30) {
                ops.push(json!({"k": "restart", "mode": if ops_rng.bool() { "warm" } else { "cold" }}));
                continue;
            }
            if pokes && ops_rng.chance(1, 10) {
                let j = ops_rng.usize(0, n_inst - 1);
                let kind = instances[j]["kind"].as_str().unwrap();
                if is_counter(fam(kind)) {
                    let (_, lo, hi) = counter_type(kind);
                    let v = *ops_rng.pick(&[hi, hi - 1, hi - 2, lo, lo + 1, lo + 2, 0, 1]);
                    ops.push(json!({"k": "poke_cv", "inst": j, "v": v.to_string()}));
                    continue;
                }
            }
            if change_pt && ops_rng.chance(1, 10) {
                let j = ops_rng.usize(0, n_inst - 1);
                let kind = instances[j]["kind"].as_str().unwrap();
                if is_timer(fam(kind)) {
                    let v = *ops_rng.pick(&[0i64, 1, 1_000_000, 50_000_000, 100_000_000, 1_000_000_000]);
                    ops.push(json!({"k": "set_p", "inst": j, "v": v.to_string()}));
                    continue;
                } else if is_counter(fam(kind)) {
                    let (_, lo, hi) = counter_type(kind);
                    let v = *ops_rng.pick(&[0i128, 1, 2, 4, hi, lo]);
                    ops.push(json!({"k": "set_p", "inst": j, "v": v.to_string()}));
                    continue;
                }
            }
            let dt: i64 = if !pts.is_empty() && ops_rng.chance(3, 4) {
                let pt = *ops_rng.pick(&pts);
                match ops_rng.below(9) {
                    0 => 0,
                    1 => 1,
                    2 => pt - 1,
                    3 => pt,
                    4 => pt + 1,
                    5 => pt / 2,
                    6 => pt / 3 + 1,
                    7 => pt.saturating_mul(ops_rng.range(2, 4)),
                    _ => ops_rng.range(0, pt.saturating_mul(2)),
                }
            } else {
                match ops_rng.below(6) {
                    0 => 0,
                    1 => 1,
                    2 => ops_rng.range(0, 10_000_000),
                    3 => ops_rng.range(0, 2_000_000_000),
                    4 => 1 << 55,
                    _ => 10_000_000,
                }
            }
            .max(0);
            let mut site_vals = vec![];
            for st in state.iter_mut() {
                st[0] = !ops_rng.chance(1, en_rate + 1) || ops_rng.chance(1, 2);
                for b in st.iter_mut().skip(1) {
                    if ops_rng.chance(1, flip_rate) {
                        *b = !*b;
                    }
                }
                // reset/load inputs should be mostly false to let counters move
                if ops_rng.chance(2, 3) {
                    st[3] = false;
                    st[4] = false;
                }
                site_vals.push(json!([st[0], st[1], st[2], st[3], st[4]]));
            }
            ops.push(json!({"k": "cycle", "dt": dt, "sites": site_vals}));
        }
        json!({"instances": instances, "sites": sites, "ops": ops})
    }

    fn run(&self, case: &Json, stats: &mut Stats) -> Result<(), Violation> {
        let src = source_for(case);
        let mut rt = match guard("compile", || world::compile(&src))? {
            Ok(rt) => rt,
            Err(e) => return Err(Violation::new("harness/compile-rejected", format!("{e}\n{src}"))),
        };
        let instances = case["instances"].as_array().cloned().unwrap_or_default();
        let sites = case["sites"].as_array().cloned().unwrap_or_default();
        let kinds: Vec<String> = instances.iter().map(|i| i["kind"].as_str().unwrap_or("TON").to_string()).collect();
        let mut params: Vec<i128> =
            instances.iter().map(|i| i["p"].as_str().and_then(|s| s.parse().ok()).unwrap_or(0)).collect();
        let mut models: Vec<Model> = vec![Model::default(); instances.len()];
        let mut now: i64 = 0;
        let write_params = |rt: &mut trust_runtime::Runtime, params: &[i128]| {
            for (j, kind) in kinds.iter().enumerate() {
                let f = fam(kind);
                if is_timer(f) {
                    rt.storage_mut().set_global(format!("p{j}"), time_value(kind, params[j] as i64));
                } else if is_counter(f) {
                    rt.storage_mut().set_global(format!("p{j}"), counter_value(kind, params[j]));
                }
            }
        };
        write_params(&mut rt, &params);
        stats.sample(json!({"source": src, "first_ops": case["ops"].as_array().map(|o| o.iter().take(4).cloned().collect::<Vec<_>>())}));

        for (opi, op) in case["ops"].as_array().cloned().unwrap_or_default().iter().enumerate() {
            match op["k"].as_str().unwrap_or("") {
                "restart" => {
                    let mode = if op["mode"] == "warm" { RestartMode::Warm } else { RestartMode::Cold };
                    if let Err(e) = guard("restart", || rt.restart(mode))? {
                        return Err(Violation::new("restart/error", format!("{e:?}")));
                    }
                    stats.inc("fault.restart");
                    now = 0;
                    for m in models.iter_mut() {
                        *m = Model::default();
                    }
                    write_params(&mut rt, &params);
                    stats.log("restart");
                }
                "poke_cv" => {
                    let j = op["inst"].as_u64().unwrap_or(0) as usize;
                    let v: i128 = op["v"].as_str().and_then(|s| s.parse().ok()).unwrap_or(0);
                    if j < kinds.len() && is_counter(fam(&kinds[j])) {
                        if let Some(Value::Instance(id)) = world::instance_var(&rt, "P", &format!("i{j}")) {
                            rt.storage_mut().set_instance_var(id, "CV", counter_value(&kinds[j], v));
                            models[j].cv = v;
                            stats.inc("fault.cv_poke_near_bound");
                        }
                    }
                }
                "set_p" => {
                    let j = op["inst"].as_u64().unwrap_or(0) as usize;
                    let v: i128 = op["v"].as_str().and_then(|s| s.parse().ok()).unwrap_or(0);
                    if j < kinds.len() {
                        let (lo, hi) = if is_counter(fam(&kinds[j])) {
                            let t = counter_type(&kinds[j]);
                            (t.1, t.2)
                        } else {
                            (i128::from(i64::MIN), i128::from(i64::MAX))
                        };
                        params[j] = v.clamp(lo, hi);
                        write_params(&mut rt, &params);
                        let m = &mut models[j];
                        if is_timer(fam(&kinds[j])) && (m.timing || m.active || (m.prev && !m.q)) {
                            m.suspended = true;
                            stats.inc("fault.pt_changed_while_timing");
                        }
                    }
                }
                _ => {
                    let dt = op["dt"].as_i64().unwrap_or(0).max(0);
                    now = now.saturating_add(dt).min(i64::MAX / 2);
                    stats.sim_time_ns += dt as u128;
                    if dt == 0 {
                        stats.inc("fault.clock_stall");
                    }
                    if dt >= 1 << 50 {
                        stats.inc("fault.clock_huge_jump");
                    }
                    let vals = op["sites"].as_array().cloned().unwrap_or_default();
                    for (k, _) in sites.iter().enumerate() {
                        let v = vals.get(k).cloned().unwrap_or(json!([false, false, false, false, false]));
                        for (n, name) in ["en", "a", "b", "c", "d"].iter().enumerate() {
                            rt.storage_mut().set_global(format!("{name}{k}"), Value::Bool(v[n].as_bool().unwrap_or(false)));
                        }
                    }
                    rt.set_current_time(Duration::from_nanos(now));
                    for m in models.iter_mut() {
                        m.called = false;
                    }
                    // snapshot of every instance for the independence check
                    let before: Vec<Vec<(String, String)>> = (0..kinds.len()).map(|j| dump_instance(&rt, j)).collect();
                    if let Err(e) = guard("execute_cycle", || rt.execute_cycle())? {
                        return Err(Violation::new(
                            format!("cycle/error/{}", format!("{e:?}").split(|c: char| !c.is_alphanumeric()).next().unwrap_or("")),
                            format!("op {opi}: execute_cycle failed: {e:?}"),
                        ));
                    }
                    stats.inc("cycles");
                    // model: walk call sites in program order
                    for (k, site) in sites.iter().enumerate() {
                        let v = vals.get(k).cloned().unwrap_or(json!([false, false, false, false, false]));
                        if !v[0].as_bool().unwrap_or(false) {
                            continue;
                        }
                        let j = site["inst"].as_u64().unwrap_or(0) as usize;
                        let kind = kinds[j].as_str();
                        let f = fam(kind);
                        let (a, b, c, d) = (
                            v[1].as_bool().unwrap_or(false),
                            v[2].as_bool().unwrap_or(false),
                            v[3].as_bool().unwrap_or(false),
                            v[4].as_bool().unwrap_or(false),
                        );
                        let m = &mut models[j];
                        let pre = abstract_state(f, m, params[j]);
                        let delta: i128 = match m.last_call {
                            Some(t) => i128::from(now - t).max(0),
                            None => 0,
                        };
                        if m.called {
                            stats.inc("probe.second_call_same_cycle_dt0");
                        }
                        m.last_call = Some(now);
                        m.called = true;
                        step_model(f, kind, m, a, b, c, d, params[j], delta);
                        stats.inc("calls");
                        // real outputs of this call
                        let rq = world::global_bool(&rt, &format!("oq{k}"));
                        let rq2 = world::global_bool(&rt, &format!("ox{k}"));
                        let rn = world::global_i(&rt, &format!("on{k}"));
                        let ctx = format!(
                            "op {opi} t={now}ns site {k} i{j}:{kind} inputs=({a},{b},{c},{d}) p={} dt={delta}",
                            params[j]
                        );
                        let dtc = dt_class(delta, params[j]);
                        let post = abstract_state(f, m, params[j]);
                        let mut h = Fnv::new();
                        h.u64(f as u64).u64(pre).u64(u64::from(a) | u64::from(b) << 1 | u64::from(c) << 2 | u64::from(d) << 3).u64(dtc).u64(post);
                        stats.nontrivial(h.finish());
                        stats.state(post ^ ((f as u64) << 56));
                        match f {
                            Fam::Ton | Fam::Tof | Fam::Tp => {
                                let pt = params[j].max(0);
                                let name = format!("{f:?}").to_lowercase();
                                let ret = rn.unwrap_or(-1);
                                // safety invariants, always on
                                if ret > pt {
                                    return Err(Violation::new(format!("{name}/et-exceeds-pt"), format!("{ctx}: ET={ret} > PT={pt}")));
                                }
                                if ret < 0 {
                                    return Err(Violation::new(format!("{name}/et-negative"), format!("{ctx}: ET={ret}")));
                                }
                                if m.suspended {
                                    // resynchronise when the instance is provably idle
                                    let idle = match f {
                                        Fam::Ton => !a,
                                        Fam::Tof => a,
                                        _ => rq == Some(false) && !a,
                                    };
                                    if idle {
                                        m.suspended = false;
                                        m.acc = 0;
                                        m.timing = false;
                                        m.active = false;
                                        m.expired = false;
                                        m.q = matches!(f, Fam::Tof) && a;
                                        m.prev = a;
                                        m.et = 0;
                                    }
                                    continue;
                                }
                                if rq != Some(m.q) {
                                    let sig = if f == Fam::Tp && rq == Some(true) && !m.q { "tp/q-stretched".to_string() } else { format!("{name}/q") };
                                    return Err(Violation::new(sig, format!("{ctx}: Q={rq:?}, model Q={}", m.q)));
                                }
                                let et_ok = if m.expired { ret == 0 || ret == pt } else { ret == m.et };
                                if !et_ok {
                                    return Err(Violation::new(format!("{name}/et"), format!("{ctx}: ET={ret}, model ET={} (expired={})", m.et, m.expired)));
                                }
                                if m.q && f == Fam::Tp {
                                    stats.inc("probe.tp_pulse_active");
                                    if a && !pre_prev(pre) {
                                        stats.inc("probe.tp_rising_edge_during_pulse_or_start");
                                    }
                                }
                                if delta == pt && pt > 0 {
                                    stats.inc("probe.dt_exactly_pt");
                                }
                            }
                            Fam::Ctu | Fam::Ctd | Fam::Ctud => {
                                let name = format!("{f:?}").to_lowercase();
                                if rn != Some(m.cv) {
                                    let (_, lo, hi) = counter_type(kind);
                                    let sig = if m.cv == hi || m.cv == lo { format!("{name}/saturation") } else { format!("{name}/cv") };
                                    return Err(Violation::new(sig, format!("{ctx}: CV={rn:?}, model CV={}", m.cv)));
                                }
                                if rq != Some(m.q) || (f == Fam::Ctud && rq2 != Some(m.qd)) {
                                    return Err(Violation::new(
                                        format!("{name}/q"),
                                        format!("{ctx}: Q={rq:?} QD={rq2:?}, model Q={} QD={}", m.q, m.qd),
                                    ));
                                }
                                let (_, lo, hi) = counter_type(kind);
                                if m.cv == hi || m.cv == lo {
                                    stats.inc("probe.counter_at_type_bound");
                                }
                            }
                            _ => {
                                if rq != Some(m.q) {
                                    return Err(Violation::new(
                                        format!("{}/q", format!("{f:?}").to_lowercase()),
                                        format!("{ctx}: Q={rq:?}, model Q={}", m.q),
                                    ));
                                }
                            }
                        }
                        stats.log(&format!("{k}:{rq:?}:{rn:?}"));
                    }
                    // independence: an instance not called this cycle is bit-for-bit unchanged
                    for j in 0..kinds.len() {
                        if !models[j].called {
                            let after = dump_instance(&rt, j);
                            if after != before[j] {
                                return Err(Violation::new(
                                    "independence/uncalled-instance-changed",
                                    format!("op {opi}: instance i{j}:{} was not called but changed: {:?} -> {:?}", kinds[j], before[j], after),
                                ));
                            }
                            stats.inc("probe.uncalled_instance_checked");
                        }
                    }
                }
            }
        }
        if !rt.storage().frames().is_empty() {
            return Err(Violation::new("frames/leftover", "call frames left after the history"));
        }
        Ok(())
    }
}

fn pre_prev(pre: u64) -> bool {
    pre & 1 == 1
}

fn dump_instance(rt: &trust_runtime::Runtime, j: usize) -> Vec<(String, String)> {
    let mut out = vec![];
    if let Some(Value::Instance(id)) = world::instance_var(rt, "P", &format!("i{j}")) {
        if let Some(inst) = rt.storage().get_instance(id) {
            for (n, v) in inst.variables.iter() {
                out.push((n.to_string(), format!("{v:?}")));
            }
        }
    }
    out.sort();
    out
}

fn dt_class(delta: i128, p: i128) -> u64 {
    let p = p.max(0);
    if delta == 0 {
        0
    } else if delta < p {
        1
    } else if delta == p {
        2
    } else {
        3
    }
}

fn abstract_state(f: Fam, m: &Model, p: i128) -> u64 {
    let p0 = p.max(0);
    let acc_class: u64 = if m.acc == 0 {
        0
    } else if m.acc < p0 {
        1
    } else {
        2
    };
    match f {
        Fam::Ton | Fam::Tof | Fam::Tp => {
            u64::from(m.prev) | u64::from(m.q) << 1 | u64::from(m.timing) << 2 | u64::from(m.active) << 3 | u64::from(m.expired) << 4 | acc_class << 5 | u64::from(p0 == 0) << 8
        }
        Fam::Ctu | Fam::Ctd | Fam::Ctud => {
            let rel: u64 = if m.cv < p { 0 } else if m.cv == p { 1 } else { 2 };
            let sign: u64 = if m.cv < 0 { 0 } else if m.cv == 0 { 1 } else { 2 };
            u64::from(m.prev) | u64::from(m.prev2) << 1 | rel << 2 | sign << 4 | u64::from(m.q) << 6 | u64::from(m.qd) << 7
        }
        _ => u64::from(m.q) | u64::from(m.m) << 1,
    }
}

#[allow(clippy::too_many_arguments)]
fn step_model(f: Fam, kind: &str, m: &mut Model, a: bool, b: bool, c: bool, d: bool, p: i128, delta: i128) {
    match f {
        Fam::Ton => {
            let pt = p.max(0);
            if a {
                m.acc = (m.acc + delta).min(pt);
                m.q = m.acc >= pt;
            } else {
                m.acc = 0;
                m.q = false;
            }
            m.prev = a;
            m.et = m.acc;
            m.expired = false;
        }
        Fam::Tof => {
            let pt = p.max(0);
            if a {
                m.q = true;
                m.acc = 0;
                m.timing = false;
                m.expired = false;
                m.et = 0;
            } else {
                if m.prev {
                    m.timing = true;
                    m.acc = 0;
                }
                if m.timing {
                    m.acc += delta;
                    if m.acc >= pt {
                        m.q = false;
                        m.timing = false;
                        m.expired = true;
                        m.et = pt;
                    } else {
                        m.q = true;
                        m.et = m.acc;
                    }
                } else {
                    m.q = false;
                    // ET after expiry: IEC holds PT, repo docs reset to 0 (both accepted by the caller)
                    if !m.expired {
                        m.et = 0;
                    }
                }
            }
            m.prev = a;
        }
        Fam::Tp => {
            let pt = p.max(0);
            let rising = a && !m.prev;
            if rising && !m.active {
                m.active = true;
                m.acc = 0;
                m.expired = false;
            }
            if m.active {
                m.acc += delta;
                if m.acc >= pt {
                    m.active = false;
                    m.expired = true;
                }
            }
            m.q = m.active;
            m.prev = a;
            if m.active {
                m.et = m.acc;
            } else {
                // pulse over: IEC holds PT while IN stays TRUE, 0 once IN is FALSE
                if !a {
                    m.expired = false;
                }
                m.et = 0;
            }
        }
        Fam::Ctu => {
            let (_, _lo, hi) = counter_type(kind);
            let rising = a && !m.prev;
            if b {
                m.cv = 0;
            } else if rising && m.cv < hi {
                m.cv += 1;
            }
            m.prev = a;
            m.q = m.cv >= p;
        }
        Fam::Ctd => {
            let (_, lo, _hi) = counter_type(kind);
            let rising = a && !m.prev;
            if b {
                m.cv = p;
            } else if rising && m.cv > lo {
                m.cv -= 1;
            }
            m.prev = a;
            m.q = m.cv <= 0;
        }
        Fam::Ctud => {
            let (_, lo, hi) = counter_type(kind);
            let rcu = a && !m.prev;
            let rcd = b && !m.prev2;
            if c {
                m.cv = 0;
            } else if d {
                m.cv = p;
            } else if !(rcu && rcd) {
                if rcu && m.cv < hi {
                    m.cv += 1;
                } else if rcd && m.cv > lo {
                    m.cv -= 1;
                }
            }
            m.prev = a;
            m.prev2 = b;
            m.q = m.cv >= p;
            m.qd = m.cv <= 0;
        }
        Fam::RTrig => {
            m.q = a && !m.m;
            m.m = a;
        }
        Fam::FTrig => {
            m.q = !a && !m.m;
            m.m = !a;
        }
        Fam::Sr => {
            if a {
                m.q = true;
            } else if b {
                m.q = false;
            }
        }
        Fam::Rs => {
            if b {
                m.q = false;
            } else if a {
                m.q = true;
            }
        }
    }
}
