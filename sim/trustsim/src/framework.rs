//! Check framework: seeded case generation, sharded worker processes,
//! violation classification, minimisation, replay files, known findings,
//! evidence.
use std::collections::{BTreeMap, BTreeSet};
use std::io::{BufRead, BufReader, Write};
use std::path::{Path, PathBuf};
use std::process::{Command, Stdio};
use std::time::Instant;

use serde_json::{json, Value as Json};

use crate::rng::{mix, Fnv, Rng};

pub const DEFAULT_SEED: u64 = 20_260_925;

#[derive(Debug, Clone, Copy, PartialEq, Eq)]
pub enum Tier {
    Quick,
    Thorough,
}

impl Tier {
    pub fn parse(s: &str) -> Option<Tier> {
        match s {
            "quick" => Some(Tier::Quick),
            "thorough" => Some(Tier::Thorough),
            _ => None,
        }
    }
    pub fn name(self) -> &'static str {
        match self {
            Tier::Quick => "quick",
            Tier::Thorough => "thorough",
        }
    }
}

/// A property violation found by an oracle.
#[derive(Debug, Clone)]
pub struct Violation {
    /// mechanism-level classification, e.g. `order/priority-tie`; stable under shrinking
    pub signature: String,
    pub detail: String,
    /// optional more specific case reproducing the same violation (e.g. one
    /// element of an enumeration performed inside `run`)
    pub narrowed: Option<Json>,
}

impl Violation {
    pub fn new(signature: impl Into<String>, detail: impl Into<String>) -> Self {
        Violation { signature: signature.into(), detail: detail.into(), narrowed: None }
    }
    pub fn narrowed(mut self, case: Json) -> Self {
        self.narrowed = Some(case);
        self
    }
}

/// Per-run measured counters (merged across cases and workers).
#[derive(Debug, Default, Clone)]
pub struct Stats {
    pub counters: BTreeMap<String, u64>,
    /// hashes of distinct non-trivial cases (by the check's rule)
    pub nontrivial: BTreeSet<u64>,
    /// hashes of distinct abstract states / interleavings reached
    pub states: BTreeSet<u64>,
    pub samples: Vec<Json>,
    /// simulated time covered, nanoseconds
    pub sim_time_ns: u128,
    /// event-log digest of the current case (determinism self-check)
    pub digest: Fnv,
}

impl Stats {
    pub fn inc(&mut self, key: &str) {
        self.add(key, 1);
    }
    pub fn add(&mut self, key: &str, n: u64) {
        if let Some(v) = self.counters.get_mut(key) {
            *v += n;
        } else {
            self.counters.insert(key.to_string(), n);
        }
    }
    pub fn nontrivial(&mut self, h: u64) {
        if self.nontrivial.len() < 2_000_000 {
            self.nontrivial.insert(h);
        }
    }
    pub fn state(&mut self, h: u64) {
        if self.states.len() < 2_000_000 {
            self.states.insert(h);
        }
    }
    pub fn sample(&mut self, v: Json) {
        if self.samples.len() < 3 {
            self.samples.push(v);
        }
    }
    /// feed the event log digest (never draws randomness, never reads a clock)
    pub fn log(&mut self, s: &str) {
        self.digest.str(s);
    }
    pub fn merge(&mut self, other: &Stats) {
        for (k, v) in &other.counters {
            self.add(k, *v);
        }
        self.nontrivial.extend(other.nontrivial.iter().copied());
        self.states.extend(other.states.iter().copied());
        for s in &other.samples {
            self.sample(s.clone());
        }
        self.sim_time_ns += other.sim_time_ns;
    }
    fn to_json(&self) -> Json {
        json!({
            "counters": self.counters,
            "nontrivial": self.nontrivial.iter().collect::<Vec<_>>(),
            "states": self.states.iter().collect::<Vec<_>>(),
            "samples": self.samples,
            "sim_time_ns": self.sim_time_ns.to_string(),
        })
    }
    fn from_json(v: &Json) -> Stats {
        let mut s = Stats::default();
        if let Some(map) = v["counters"].as_object() {
            for (k, n) in map {
                s.counters.insert(k.clone(), n.as_u64().unwrap_or(0));
            }
        }
        for h in v["nontrivial"].as_array().into_iter().flatten() {
            s.nontrivial.insert(h.as_u64().unwrap_or(0));
        }
        for h in v["states"].as_array().into_iter().flatten() {
            s.states.insert(h.as_u64().unwrap_or(0));
        }
        s.samples = v["samples"].as_array().cloned().unwrap_or_default();
        s.sim_time_ns = v["sim_time_ns"].as_str().and_then(|t| t.parse().ok()).unwrap_or(0);
        s
    }
}

/// A check = workload generator + fault/schedule space + oracle for one property.
pub trait Check: Sync {
    fn id(&self) -> &'static str;
    /// property the check decides (several checks may serve one property; evidence file and routing use `id`)
    fn property(&self) -> &'static str {
        self.id()
    }
    /// evidence level category
    fn level(&self) -> &'static str {
        "exploration"
    }
    /// number of seeded cases in a tier
    fn cases(&self, tier: Tier) -> u64;
    /// deterministic, explicit case for `index` (everything derives from `rng`)
    fn generate(&self, rng: &mut Rng, tier: Tier, index: u64) -> Json;
    /// execute the explicit case against the real code; oracle inside
    fn run(&self, case: &Json, stats: &mut Stats) -> Result<(), Violation>;
    /// simpler variants of a failing case, most aggressive first
    fn shrink(&self, case: &Json) -> Vec<Json> {
        shrink_generic(case)
    }
    /// how cases are generated and what makes one distinct/non-trivial
    fn rule(&self) -> &'static str;
    fn assumptions(&self) -> Vec<&'static str> {
        vec![]
    }
    /// (real components, stubbed components)
    fn components(&self) -> (Vec<&'static str>, Vec<&'static str>);
    /// whether a panic inside the product counts as a violation of this property
    fn panic_is_violation(&self) -> bool {
        true
    }
    /// per-case wall-clock hang limit in seconds (only a hang detector, never an oracle)
    fn hang_limit_s(&self) -> u64 {
        120
    }
}

/// Generic shrinking over a case object: for every array-valued top-level
/// field named `ops`/`faults`/`script`..., drop chunks then single elements.
pub fn shrink_generic(case: &Json) -> Vec<Json> {
    let mut out = Vec::new();
    let Some(obj) = case.as_object() else { return out };
    for (key, val) in obj {
        let Some(arr) = val.as_array() else { continue };
        if arr.is_empty() || !SHRINK_KEYS.contains(&key.as_str()) {
            continue;
        }
        let n = arr.len();
        // truncate tail first (history after the violation is irrelevant)
        let mut chunk = n / 2;
        while chunk >= 1 {
            let mut start = 0;
            while start < n {
                let end = (start + chunk).min(n);
                let mut reduced = arr.clone();
                reduced.drain(start..end);
                let mut c = obj.clone();
                c.insert(key.clone(), Json::Array(reduced));
                out.push(Json::Object(c));
                start += chunk;
            }
            if chunk == 1 {
                break;
            }
            chunk /= 2;
        }
    }
    out
}

pub const SHRINK_KEYS: &[&str] =
    &["ops", "faults", "script", "tasks", "programs", "calls", "instances", "bindings", "files", "clients", "edits", "stmts", "vars", "sessions", "resources"];

// ---------------------------------------------------------------------------
// panic capture

thread_local! {
    static LAST_PANIC: std::cell::RefCell<Option<(String, String)>> = const { std::cell::RefCell::new(None) };
}

pub fn install_panic_hook() {
    std::panic::set_hook(Box::new(|info| {
        let loc = info.location().map(|l| format!("{}:{}", l.file(), l.line())).unwrap_or_default();
        let msg = if let Some(s) = info.payload().downcast_ref::<&str>() {
            (*s).to_string()
        } else if let Some(s) = info.payload().downcast_ref::<String>() {
            s.clone()
        } else {
            "<non-string panic>".to_string()
        };
        LAST_PANIC.with(|p| *p.borrow_mut() = Some((loc, msg)));
    }));
}

pub fn take_last_panic() -> Option<(String, String)> {
    LAST_PANIC.with(|p| p.borrow_mut().take())
}

fn normalise_msg(msg: &str) -> String {
    // keep the mechanism, drop the numbers
    let mut out = String::new();
    let mut last_digit = false;
    for ch in msg.chars().take(80) {
        if ch.is_ascii_digit() {
            if !last_digit {
                out.push('N');
            }
            last_digit = true;
        } else {
            last_digit = false;
            out.push(ch);
        }
    }
    out
}

fn is_product_path(loc: &str) -> bool {
    loc.contains("/repo/") || loc.contains("crates/trust-") || loc.starts_with("crates/")
}

/// Run `f` catching panics. Product panics become violations, harness panics are re-raised as Err(harness).
pub enum Caught<T> {
    Ok(T),
    ProductPanic { location: String, message: String },
    HarnessPanic { location: String, message: String },
}

pub fn catch<T>(f: impl FnOnce() -> T) -> Caught<T> {
    let _ = take_last_panic();
    match std::panic::catch_unwind(std::panic::AssertUnwindSafe(f)) {
        Ok(v) => Caught::Ok(v),
        Err(_) => {
            let (location, message) = take_last_panic().unwrap_or_default();
            if is_product_path(&location) || !location.contains("/verif/") && !location.contains("trustsim") {
                Caught::ProductPanic { location, message }
            } else {
                Caught::HarnessPanic { location, message }
            }
        }
    }
}

/// Short form of a panic location: file name relative to crates/ + line.
pub fn short_loc(loc: &str) -> String {
    match loc.find("crates/") {
        Some(i) => loc[i + 7..].to_string(),
        None => loc.rsplit('/').next().unwrap_or(loc).to_string(),
    }
}

/// Convenience for checks: call product code; a product panic becomes a violation.
pub fn guard<T>(what: &str, f: impl FnOnce() -> T) -> Result<T, Violation> {
    match catch(f) {
        Caught::Ok(v) => Ok(v),
        Caught::ProductPanic { location, message } => {
            // signature names file only (line numbers shift with unrelated edits)
            let file = short_loc(&location);
            let file = file.split(':').next().unwrap_or("").to_string();
            Err(Violation::new(
                format!("panic/{}/{}", file, normalise_msg(&message)),
                format!("panic during {what} at {location}: {message}"),
            ))
        }
        Caught::HarnessPanic { location, message } => {
            eprintln!("HARNESS-PANIC at {location}: {message}");
            std::process::exit(2);
        }
    }
}

// ---------------------------------------------------------------------------
// case execution (worker side)

pub struct CaseResult {
    pub violation: Option<Violation>,
    pub digest: u64,
}

pub fn case_seed(seed: u64, id: &str, index: u64) -> u64 {
    mix(seed, id, index)
}

pub fn generate_case(check: &dyn Check, seed: u64, tier: Tier, index: u64) -> Json {
    let mut rng = Rng::new(case_seed(seed, check.id(), index));
    check.generate(&mut rng, tier, index)
}

pub fn run_case(check: &dyn Check, case: &Json, stats: &mut Stats) -> CaseResult {
    stats.digest = Fnv::new();
    verif_hooks::budget::reset();
    let res = match catch(|| check.run(case, stats)) {
        Caught::Ok(r) => r,
        Caught::ProductPanic { location, message } => {
            let file = short_loc(&location);
            let file = file.split(':').next().unwrap_or("").to_string();
            Err(Violation::new(
                format!("panic/{}/{}", file, normalise_msg(&message)),
                format!("panic at {location}: {message}"),
            ))
        }
        Caught::HarnessPanic { location, message } => {
            eprintln!("HARNESS-PANIC at {location}: {message}");
            std::process::exit(2);
        }
    };
    let digest = {
        let mut d = stats.digest;
        if let Err(v) = &res {
            d.str(&v.signature);
        }
        d.finish()
    };
    CaseResult { violation: res.err(), digest }
}

/// Worker: run shard of the batch, report on stdout (line protocol).
pub fn worker_main(check: &dyn Check, tier: Tier, seed: u64, shard: u64, nshards: u64, cases: u64) {
    install_panic_hook();
    let stdout = std::io::stdout();
    let mut stats = Stats::default();
    let mut index = shard;
    let mut last_partial = Instant::now();
    while index < cases {
        {
            let mut o = stdout.lock();
            let _ = writeln!(o, "BEGIN {index}");
            let _ = o.flush();
        }
        let case = generate_case(check, seed, tier, index);
        let res = run_case(check, &case, &mut stats);
        stats.inc("cases");
        let mut o = stdout.lock();
        if let Some(v) = res.violation {
            let rec = json!({
                "index": index,
                "signature": v.signature,
                "detail": v.detail,
                "case": v.narrowed.unwrap_or(case),
            });
            let _ = writeln!(o, "VIOL {rec}");
        }
        let _ = writeln!(o, "END {index} {}", res.digest);
        // cumulative counters now and then, so that a worker the watchdog kills does not take them along
        // (bookkeeping for the evidence only: no verdict and no digest depends on it)
        if last_partial.elapsed().as_secs() >= 20 {
            let _ = writeln!(o, "PSTATS {}", stats.to_json());
            last_partial = Instant::now();
        }
        let _ = o.flush();
        index += nshards;
    }
    let mut o = stdout.lock();
    let _ = writeln!(o, "STATS {}", stats.to_json());
    let _ = o.flush();
}

// ---------------------------------------------------------------------------
// known findings

#[derive(Debug, Clone)]
pub struct Finding {
    pub property: String,
    pub signature: String,
    pub status: String, // "open" | "fixed"
    pub what: String,
    pub replay: Option<String>,
}

pub fn verif_root() -> PathBuf {
    std::env::var("VERIF_ROOT").map(PathBuf::from).unwrap_or_else(|_| PathBuf::from("/verif"))
}

pub fn load_findings() -> Vec<Finding> {
    let path = verif_root().join("known_findings.json");
    let Ok(text) = std::fs::read_to_string(&path) else { return vec![] };
    let Ok(v) = serde_json::from_str::<Json>(&text) else {
        eprintln!("HARNESS: cannot parse {path:?}");
        std::process::exit(2);
    };
    v["findings"]
        .as_array()
        .into_iter()
        .flatten()
        .map(|f| Finding {
            property: f["property"].as_str().unwrap_or("").to_string(),
            signature: f["signature"].as_str().unwrap_or("").to_string(),
            status: f["status"].as_str().unwrap_or("open").to_string(),
            what: f["what"].as_str().unwrap_or("").to_string(),
            replay: f["replay"].as_str().map(str::to_string),
        })
        .collect()
}

/// glob match with `*` wildcards
pub fn glob_match(pattern: &str, text: &str) -> bool {
    let parts: Vec<&str> = pattern.split('*').collect();
    if parts.len() == 1 {
        return pattern == text;
    }
    let mut pos = 0usize;
    for (i, part) in parts.iter().enumerate() {
        if part.is_empty() {
            continue;
        }
        if i == 0 {
            if !text.starts_with(part) {
                return false;
            }
            pos = part.len();
        } else if i == parts.len() - 1 {
            return text.len() >= pos + part.len() && text[pos..].ends_with(part);
        } else {
            match text[pos..].find(part) {
                Some(j) => pos += j + part.len(),
                None => return false,
            }
        }
    }
    true
}

pub fn match_open_finding<'a>(findings: &'a [Finding], id: &str, signature: &str) -> Option<&'a Finding> {
    findings.iter().find(|f| f.property == id && f.status == "open" && glob_match(&f.signature, signature))
}

// ---------------------------------------------------------------------------
// parent side

struct WorkerOut {
    stats: Option<Stats>,
    violations: Vec<Json>,
    digests: Vec<(u64, u64)>,
    last_begin: Option<u64>,
    status: Option<std::process::ExitStatus>,
    timed_out: bool,
    /// the watchdog killed the worker but the case it was in completes in a fresh process: a stall of the machine
    stalled: bool,
    /// last cumulative counters a worker reported before it died
    partial: Option<Stats>,
    stderr: String,
}

fn run_worker(
    exe: &Path,
    id: &str,
    tier: Tier,
    seed: u64,
    shard: u64,
    nshards: u64,
    cases: u64,
    hang_limit_s: u64,
) -> WorkerOut {
    let mut child = Command::new(exe)
        .args(["worker", id, tier.name()])
        .arg(seed.to_string())
        .arg(shard.to_string())
        .arg(nshards.to_string())
        .arg(cases.to_string())
        .stdout(Stdio::piped())
        .stderr(Stdio::piped())
        .spawn()
        .expect("spawn worker");
    let stdout = child.stdout.take().unwrap();
    let stderr = child.stderr.take().unwrap();
    let stderr_thread = std::thread::spawn(move || {
        let mut s = String::new();
        let _ = std::io::Read::read_to_string(&mut BufReader::new(stderr), &mut s);
        s
    });
    // watchdog: kills the child when a single case exceeds the hang limit
    let progress = std::sync::Arc::new(std::sync::Mutex::new(Instant::now()));
    let done = std::sync::Arc::new(std::sync::atomic::AtomicBool::new(false));
    let timed_out = std::sync::Arc::new(std::sync::atomic::AtomicBool::new(false));
    let pid = child.id();
    let wd = {
        let progress = progress.clone();
        let done = done.clone();
        let timed_out = timed_out.clone();
        std::thread::spawn(move || {
            while !done.load(std::sync::atomic::Ordering::SeqCst) {
                std::thread::sleep(std::time::Duration::from_millis(250));
                let idle = progress.lock().unwrap().elapsed().as_secs();
                if idle > hang_limit_s {
                    timed_out.store(true, std::sync::atomic::Ordering::SeqCst);
                    let _ = Command::new("kill").arg("-9").arg(pid.to_string()).status();
                    break;
                }
            }
        })
    };
    let mut out = WorkerOut {
        stats: None,
        violations: vec![],
        digests: vec![],
        last_begin: None,
        status: None,
        timed_out: false,
        stalled: false,
        partial: None,
        stderr: String::new(),
    };
    for line in BufReader::new(stdout).lines() {
        let Ok(line) = line else { break };
        *progress.lock().unwrap() = Instant::now();
        if let Some(rest) = line.strip_prefix("BEGIN ") {
            out.last_begin = rest.trim().parse().ok();
        } else if let Some(rest) = line.strip_prefix("END ") {
            let mut it = rest.split_whitespace();
            if let (Some(i), Some(d)) = (it.next(), it.next()) {
                if let (Ok(i), Ok(d)) = (i.parse(), d.parse()) {
                    out.digests.push((i, d));
                }
            }
            out.last_begin = None;
        } else if let Some(rest) = line.strip_prefix("VIOL ") {
            if let Ok(v) = serde_json::from_str::<Json>(rest) {
                out.violations.push(v);
            }
        } else if let Some(rest) = line.strip_prefix("PSTATS ") {
            if let Ok(v) = serde_json::from_str::<Json>(rest) {
                out.partial = Some(Stats::from_json(&v));
            }
        } else if let Some(rest) = line.strip_prefix("STATS ") {
            if let Ok(v) = serde_json::from_str::<Json>(rest) {
                out.stats = Some(Stats::from_json(&v));
            }
        }
    }
    out.status = child.wait().ok();
    done.store(true, std::sync::atomic::Ordering::SeqCst);
    let _ = wd.join();
    out.timed_out = timed_out.load(std::sync::atomic::Ordering::SeqCst);
    out.stderr = stderr_thread.join().unwrap_or_default();
    out
}

pub struct BatchResult {
    pub stats: Stats,
    /// (index, signature, detail, case)
    pub violations: Vec<(u64, String, String, Json)>,
    pub batch_digest: u64,
    pub evaluations: u64,
    pub harness_error: Option<String>,
}

pub fn run_batch(check: &dyn Check, tier: Tier, seed: u64, cases: u64, nshards: u64) -> BatchResult {
    let exe = std::env::current_exe().expect("current exe");
    let id = check.id();
    let hang = check.hang_limit_s();
    let mut stats = Stats::default();
    let mut violations = vec![];
    let mut digests: Vec<(u64, u64)> = vec![];
    let mut harness_error = None;
    // each shard may need respawning after an abort: loop per shard in a thread
    let results: Vec<Vec<WorkerOut>> = std::thread::scope(|scope| {
        let handles: Vec<_> = (0..nshards)
            .map(|shard| {
                let exe = exe.clone();
                scope.spawn(move || {
                    let mut outs = vec![];
                    // a shard is described by (first index); after an abort we resume after the culprit
                    let mut start = shard;
                    let mut respawns = 0;
                    let mut stalls = 0;
                    let mut hangs = 0;
                    loop {
                        // worker takes `shard` as first index and steps by nshards
                        let mut out = run_worker(&exe, id, tier, seed, start, nshards, cases, hang);
                        let crashed = out.stats.is_none();
                        let culprit = out.last_begin;
                        // the hang limit is wall-clock: before blaming the case, run it alone; when it completes
                        // there the machine stalled (e.g. memory pressure from unrelated jobs) and the shard resumes AT it
                        let mut resume_at_culprit = false;
                        // (the same for a worker that got SIGKILL from outside - the out-of-memory killer when other jobs
                        // fill the machine: nothing in a case can send it)
                        let killed_from_outside = {
                            use std::os::unix::process::ExitStatusExt;
                            !out.timed_out && out.status.and_then(|s| s.signal()) == Some(9)
                        };
                        if let (true, true, Some(c)) = (crashed, out.timed_out || killed_from_outside, culprit) {
                            if stalls < 3 {
                                let case = generate_case(check, seed, tier, c);
                                if matches!(run_case_in_child(id, &case, hang), Ok(None)) {
                                    out.stalled = true;
                                    stalls += 1;
                                    resume_at_culprit = true;
                                }
                            }
                        }
                        outs.push(out);
                        if !crashed {
                            break;
                        }
                        respawns += 1;
                        // every genuine hang costs the whole hang limit: after three of them in one shard the rest of
                        // the shard is given up (the hang is reported; a batch must not take hours)
                        if outs.last().is_some_and(|o| o.timed_out && !o.stalled) {
                            hangs += 1;
                            if hangs >= 3 {
                                break;
                            }
                        }
                        match culprit {
                            Some(c) if respawns < 50 => start = if resume_at_culprit { c } else { c + nshards },
                            _ => break,
                        }
                        if start >= cases {
                            break;
                        }
                    }
                    outs
                })
            })
            .collect();
        handles.into_iter().map(|h| h.join().expect("shard thread")).collect()
    });
    for outs in results {
        for out in outs {
            for v in &out.violations {
                violations.push((
                    v["index"].as_u64().unwrap_or(0),
                    v["signature"].as_str().unwrap_or("").to_string(),
                    v["detail"].as_str().unwrap_or("").to_string(),
                    v["case"].clone(),
                ));
            }
            digests.extend(out.digests.iter().copied());
            match &out.stats {
                Some(s) => stats.merge(s),
                None => {
                    if let Some(p) = &out.partial {
                        stats.merge(p);
                    }
                    // abnormal end: exit code 2 = harness panic; otherwise abort/kill inside a case
                    let code = out.status.and_then(|s| s.code());
                    if code == Some(2) {
                        harness_error = Some(format!("worker harness error: {}", out.stderr.trim()));
                    } else if out.stalled {
                        // not a verdict; the case was re-run by the respawned worker (the dead worker's partial counters are lost)
                        stats.inc("harness.worker_restarted_after_machine_stall");
                    } else if let Some(index) = out.last_begin {
                        let case = generate_case(check, seed, tier, index);
                        let how = if out.timed_out {
                            "hang".to_string()
                        } else {
                            format!("abort/{}", describe_status(out.status))
                        };
                        let tail: String = out.stderr.lines().rev().take(3).collect::<Vec<_>>().join(" | ");
                        violations.push((index, how, format!("worker died in case {index}: {tail}"), case));
                        // partial stats of the dead worker are lost; count the case
                        stats.inc("cases");
                    } else {
                        harness_error = Some(format!(
                            "worker ended without stats outside a case: status={:?} stderr={}",
                            out.status,
                            out.stderr.trim()
                        ));
                    }
                }
            }
        }
    }
    digests.sort_unstable();
    let mut d = Fnv::new();
    for (i, h) in &digests {
        d.u64(*i).u64(*h);
    }
    violations.sort_by(|a, b| a.0.cmp(&b.0));
    let evaluations = stats.counters.get("cases").copied().unwrap_or(0);
    BatchResult { stats, violations, batch_digest: d.finish(), evaluations, harness_error }
}

fn describe_status(status: Option<std::process::ExitStatus>) -> String {
    use std::os::unix::process::ExitStatusExt;
    match status {
        Some(s) => match (s.code(), s.signal()) {
            (Some(c), _) => format!("exit{c}"),
            (None, Some(sig)) => format!("signal{sig}"),
            _ => "unknown".into(),
        },
        None => "unknown".into(),
    }
}

/// Run one explicit case in a fresh child process; returns (signature, detail) of the violation if any.
/// Err = harness error.
pub fn run_case_in_child(id: &str, case: &Json, hang_limit_s: u64) -> Result<Option<(String, String)>, String> {
    let exe = std::env::current_exe().expect("current exe");
    let dir = scratch_dir();
    let path = dir.join(format!("case-{}-{}.json", std::process::id(), next_counter()));
    std::fs::write(&path, serde_json::to_vec(&json!({"check": id, "case": case})).unwrap()).map_err(|e| e.to_string())?;
    let mut child = Command::new(&exe)
        .args(["runcase"])
        .arg(&path)
        .stdout(Stdio::piped())
        .stderr(Stdio::piped())
        .spawn()
        .map_err(|e| e.to_string())?;
    let start = Instant::now();
    let status = loop {
        match child.try_wait() {
            Ok(Some(s)) => break Some(s),
            Ok(None) => {
                if start.elapsed().as_secs() > hang_limit_s {
                    let _ = child.kill();
                    let _ = child.wait();
                    break None;
                }
                std::thread::sleep(std::time::Duration::from_millis(5));
            }
            Err(e) => return Err(e.to_string()),
        }
    };
    let mut out = String::new();
    if let Some(mut so) = child.stdout.take() {
        let _ = std::io::Read::read_to_string(&mut so, &mut out);
    }
    let _ = std::fs::remove_file(&path);
    let Some(status) = status else {
        return Ok(Some(("hang".into(), "case exceeded the hang limit".into())));
    };
    for line in out.lines() {
        if let Some(rest) = line.strip_prefix("RESULT ") {
            let v: Json = serde_json::from_str(rest).map_err(|e| e.to_string())?;
            if v["ok"].as_bool() == Some(true) {
                return Ok(None);
            }
            return Ok(Some((
                v["signature"].as_str().unwrap_or("").to_string(),
                v["detail"].as_str().unwrap_or("").to_string(),
            )));
        }
    }
    if status.code() == Some(2) {
        return Err("harness error in child".into());
    }
    Ok(Some((format!("abort/{}", describe_status(Some(status))), "child died".into())))
}

fn next_counter() -> u64 {
    static C: std::sync::atomic::AtomicU64 = std::sync::atomic::AtomicU64::new(0);
    C.fetch_add(1, std::sync::atomic::Ordering::SeqCst)
}

pub fn scratch_dir() -> PathBuf {
    let dir = verif_root().join("target").join("scratch");
    let _ = std::fs::create_dir_all(&dir);
    dir
}

/// `runcase <file>`: child side of `run_case_in_child`.
pub fn runcase_main(check: &dyn Check, case: &Json) {
    install_panic_hook();
    let mut stats = Stats::default();
    let res = run_case(check, case, &mut stats);
    match res.violation {
        None => println!("RESULT {}", json!({"ok": true, "digest": res.digest})),
        Some(v) => println!(
            "RESULT {}",
            json!({"ok": false, "signature": v.signature, "detail": v.detail, "digest": res.digest})
        ),
    }
}

/// Delta-debugging: keep a candidate only if the *same signature* persists.
/// In-process with catch_unwind when the signature is not an abort/hang; otherwise child processes.
pub fn minimise(check: &dyn Check, case: &Json, signature: &str, budget_runs: usize, budget_s: u64) -> (Json, usize) {
    let in_child = signature.starts_with("abort/") || signature == "hang";
    let start = Instant::now();
    let mut best = case.clone();
    let mut runs = 0usize;
    let mut progress = true;
    while progress && runs < budget_runs && start.elapsed().as_secs() < budget_s {
        progress = false;
        for cand in check.shrink(&best) {
            if runs >= budget_runs || start.elapsed().as_secs() >= budget_s {
                break;
            }
            runs += 1;
            let same = if in_child {
                matches!(run_case_in_child(check.id(), &cand, check.hang_limit_s().min(30)), Ok(Some((s, _))) if s == signature)
            } else {
                let mut st = Stats::default();
                matches!(run_case(check, &cand, &mut st).violation, Some(v) if v.signature == signature)
            };
            if same {
                best = cand;
                progress = true;
                break;
            }
        }
    }
    (best, runs)
}

pub fn write_replay(id: &str, seed: u64, index: u64, signature: &str, detail: &str, case: &Json) -> PathBuf {
    let dir = verif_root().join("replays");
    let _ = std::fs::create_dir_all(&dir);
    let sig_hash = crate::rng::hash_str(signature) % 100_000;
    let path = dir.join(format!("{id}-{seed}-{index}-{sig_hash:05}.json"));
    let body = json!({
        "check": id,
        "seed": seed,
        "index": index,
        "signature": signature,
        "detail": detail,
        "case": case,
    });
    std::fs::write(&path, serde_json::to_string_pretty(&body).unwrap()).expect("write replay");
    path
}

/// Replay a file in a fresh process. Ok(Some(sig)) = violation reproduced with that signature.
pub fn replay_file(path: &Path) -> Result<(String, Option<(String, String)>, String), String> {
    let text = std::fs::read_to_string(path).map_err(|e| format!("{path:?}: {e}"))?;
    let v: Json = serde_json::from_str(&text).map_err(|e| format!("{path:?}: {e}"))?;
    let id = v["check"].as_str().ok_or("replay file without check")?.to_string();
    let expected = v["signature"].as_str().unwrap_or("").to_string();
    let res = run_case_in_child(&id, &v["case"], 300)?;
    Ok((id, res, expected))
}

pub struct CheckOutcome {
    pub exit_code: i32,
}

/// Full check: pinned replays, seeded batch, triage against known findings,
/// minimise + confirm + report, write evidence.
pub fn check_main(check: &dyn Check, tier: Tier, seed: u64, cases_override: Option<u64>, nshards: u64) -> CheckOutcome {
    let started = Instant::now();
    let check_id = check.id();
    let id = check.property();
    let findings = load_findings();
    let mut violation_lines: Vec<String> = vec![];
    let mut known_lines: BTreeSet<String> = BTreeSet::new();
    let mut harness_errors: Vec<String> = vec![];
    let mut pinned_run = 0u64;

    // 1. pinned replays (open findings print KNOWN-FINDING while they reproduce; fixed ones alarm if they return)
    for f in findings.iter().filter(|f| f.property == id) {
        let Some(rel) = &f.replay else { continue };
        let path = verif_root().join(rel);
        if !path.exists() {
            harness_errors.push(format!("pinned replay missing: {path:?}"));
            continue;
        }
        // a property may be served by several checks: a replay belongs to the check that recorded it
        let recorded_by = std::fs::read_to_string(&path).ok().and_then(|t| serde_json::from_str::<Json>(&t).ok()).and_then(|v| v["check"].as_str().map(str::to_string));
        if recorded_by.as_deref() != Some(check_id) {
            continue;
        }
        pinned_run += 1;
        match replay_file(&path) {
            Err(e) => harness_errors.push(e),
            Ok((_, None, _)) => {
                if f.status == "open" {
                    println!("NOTE: open finding no longer reproduces from its pinned replay: {} ({})", f.signature, rel);
                }
            }
            Ok((_, Some((sig, detail)), _)) => {
                if f.status == "open" && glob_match(&f.signature, &sig) {
                    known_lines.insert(format!("KNOWN-FINDING: property={id} {} [{}]", f.what, f.signature));
                } else if let Some(of) = match_open_finding(&findings, id, &sig) {
                    known_lines.insert(format!("KNOWN-FINDING: property={id} {} [{}]", of.what, of.signature));
                } else {
                    println!("pinned replay {rel} fails: {sig}: {detail}");
                    violation_lines.push(format!("VIOLATION property={id} replay={}", path.display()));
                }
            }
        }
    }

    // 2. seeded batch
    let cases = cases_override.unwrap_or_else(|| check.cases(tier));
    let batch = run_batch(check, tier, seed, cases, nshards);
    if let Some(e) = &batch.harness_error {
        harness_errors.push(e.clone());
    }

    // 3. triage
    let mut by_sig: BTreeMap<String, Vec<&(u64, String, String, Json)>> = BTreeMap::new();
    for v in &batch.violations {
        by_sig.entry(v.1.clone()).or_default().push(v);
    }
    let mut known_hits: BTreeMap<String, u64> = BTreeMap::new();
    let mut new_sigs = 0;
    for (sig, list) in &by_sig {
        if let Some(f) = match_open_finding(&findings, id, sig) {
            *known_hits.entry(f.signature.clone()).or_default() += list.len() as u64;
            known_lines.insert(format!("KNOWN-FINDING: property={id} {} [{}]", f.what, f.signature));
            continue;
        }
        new_sigs += 1;
        if new_sigs > 4 {
            println!("further violation signature not minimised: {sig} ({} cases)", list.len());
            continue;
        }
        // smallest serialised case first
        let first = list.iter().min_by_key(|v| v.3.to_string().len()).unwrap();
        let (index, _, detail, case) = (first.0, &first.1, &first.2, &first.3);
        println!("violation {sig} in {} case(s); first index {index}: {detail}", list.len());
        let (min_case, runs) = minimise(check, case, sig, 3000, if tier == Tier::Quick { 60 } else { 240 });
        // detail of the minimised case + confirmation in a fresh process
        let confirm = run_case_in_child(check_id, &min_case, check.hang_limit_s());
        match confirm {
            Ok(Some((s, d))) if &s == sig => {
                let path = write_replay(check_id, seed, index, sig, &d, &min_case);
                println!("minimised in {runs} runs; confirmed in a fresh process: {d}");
                violation_lines.push(format!("VIOLATION property={id} replay={}", path.display()));
            }
            other => {
                // try the unminimised case
                match run_case_in_child(check_id, case, check.hang_limit_s()) {
                    Ok(Some((s, d))) if &s == sig => {
                        let path = write_replay(check_id, seed, index, sig, &d, case);
                        println!("minimised case did not reproduce ({other:?}); unminimised case confirmed");
                        violation_lines.push(format!("VIOLATION property={id} replay={}", path.display()));
                    }
                    // a violation reproduces, but is classified differently alone than in the batch (e.g. a narrowed
                    // case takes another path): still a violation, reported under the signature of the replay
                    Ok(Some((s2, d2))) => {
                        if let Some(f) = match_open_finding(&findings, id, &s2) {
                            known_lines.insert(format!("KNOWN-FINDING: property={id} {} [{}]", f.what, f.signature));
                        } else {
                            let path = write_replay(check_id, seed, index, &s2, &d2, case);
                            println!("in a fresh process the case is classified {s2} (batch: {sig}): {d2}");
                            violation_lines.push(format!("VIOLATION property={id} replay={}", path.display()));
                        }
                    }
                    other2 => {
                        harness_errors.push(format!(
                            "violation {sig} (index {index}) did not reproduce in a fresh process: {other2:?}"
                        ));
                    }
                }
            }
        }
    }

    // 4. evidence
    let wall = started.elapsed().as_secs_f64();
    let (real, stub) = check.components();
    let mut samples = batch.stats.samples.clone();
    if samples.is_empty() && cases > 0 {
        samples.push(generate_case(check, seed, tier, 0));
    }
    let counters = &batch.stats.counters;
    let faults: BTreeMap<&String, &u64> = counters.iter().filter(|(k, _)| k.starts_with("fault.")).collect();
    let probes: BTreeMap<&String, &u64> = counters.iter().filter(|(k, _)| k.starts_with("probe.")).collect();
    let other: BTreeMap<&String, &u64> =
        counters.iter().filter(|(k, _)| !k.starts_with("fault.") && !k.starts_with("probe.")).collect();
    let zero_probes: Vec<&String> = probes.iter().filter(|(_, v)| ***v == 0).map(|(k, _)| *k).collect();
    let evidence = json!({
        "property_id": id,
        "tier": tier.name(),
        "seed": seed,
        "level": check.level(),
        "coverage": {
            "evaluations": batch.evaluations,
            "distinct_nontrivial": batch.stats.nontrivial.len(),
            "rule": check.rule(),
            "samples": samples,
            "states": batch.stats.states.len(),
            "states_measure": "distinct hashes of the abstract state / observable interleaving recorded by the check after each operation",
            "fault_kinds_fired": faults,
            "probes": probes,
            "reach_gaps": zero_probes,
            "counters": other,
            "simulated_time_s": (batch.stats.sim_time_ns as f64) / 1e9,
            "runs_per_hour": if wall > 0.0 { (batch.evaluations as f64) / wall * 3600.0 } else { 0.0 },
            "pinned_replays_run": pinned_run,
            "known_finding_hits": known_hits,
            "batch_digest": batch.batch_digest.to_string(),
            "worker_processes": nshards,
            "components_real": real,
            "components_stub": stub,
        },
        "assumptions": check.assumptions(),
        "wall_s": wall,
        "violations": violation_lines.len(),
    });
    let evdir = verif_root().join("evidence");
    let _ = std::fs::create_dir_all(&evdir);
    // one evidence file per PROPERTY: a second check serving the same property (run after the first by the property's
    // command, same tier and seed) adds its whole record under coverage.further_checks.<check id> of that file
    let mut merged = false;
    if check_id != id {
        let main = evdir.join(format!("{id}.json"));
        if let Some(mut first) = std::fs::read_to_string(&main).ok().and_then(|t| serde_json::from_str::<Json>(&t).ok()) {
            if first["tier"] == evidence["tier"] && first["seed"] == evidence["seed"] {
                let mut sub = evidence["coverage"].clone();
                sub["assumptions"] = evidence["assumptions"].clone();
                sub["wall_s"] = evidence["wall_s"].clone();
                sub["violations"] = evidence["violations"].clone();
                first["coverage"]["further_checks"][check_id] = sub;
                first["wall_s"] = Json::from(first["wall_s"].as_f64().unwrap_or(0.0) + wall);
                first["violations"] = Json::from(first["violations"].as_u64().unwrap_or(0) + violation_lines.len() as u64);
                std::fs::write(&main, serde_json::to_string_pretty(&first).unwrap()).expect("write evidence");
                let _ = std::fs::remove_file(evdir.join(format!("{check_id}.json")));
                merged = true;
            }
        }
    }
    if !merged {
        std::fs::write(evdir.join(format!("{check_id}.json")), serde_json::to_string_pretty(&evidence).unwrap())
            .expect("write evidence");
    }

    for l in &known_lines {
        println!("{l}");
    }
    println!(
        "{check_id} {}: {} cases, {} distinct non-trivial, {} states, {} violation(s), {} known-finding signature(s), {:.1}s",
        tier.name(),
        batch.evaluations,
        batch.stats.nontrivial.len(),
        batch.stats.states.len(),
        violation_lines.len(),
        known_lines.len(),
        wall
    );
    if !harness_errors.is_empty() {
        for e in &harness_errors {
            eprintln!("HARNESS-ERROR: {e}");
        }
        return CheckOutcome { exit_code: 2 };
    }
    if !violation_lines.is_empty() {
        for l in &violation_lines {
            println!("{l}");
        }
        return CheckOutcome { exit_code: 1 };
    }
    CheckOutcome { exit_code: 0 }
}
