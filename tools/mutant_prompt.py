#!/usr/bin/env python3
import json, sys
pid, n = sys.argv[1], sys.argv[2] if len(sys.argv) > 2 else "3"
props = {json.loads(l)["id"]: json.loads(l) for l in open("/verif/properties.jsonl")}
p = props[pid]
t = open("/verif/tools/mutant_prompt.txt").read()
print(t.format(WT=f"/tmp/mut-{pid}", ID=pid, TITLE=p["title"], STATEMENT=p["statement"],
               QUANT=p["quantifier"]["text"], FILES=", ".join(p["anchors"]["files"]), N=n))
