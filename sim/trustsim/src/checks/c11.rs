//! C11 - STBC container under storage faults and hot reload (partial).
//!
//! World: containers emitted by the real compiler for ProgGen projects.
//! Clean path: validate, decode(encode(m)) = m, encode(decode(b)) = b.
//! Storage faults on the emitted bytes: every truncation, k-bit flips (k <= 3,
//! one flip biased onto the header's CRC flag so deep decoders are reached),
//! 0xFF blow-ups of 4-byte fields, zeroed ranges, torn mixes of two
//! containers.  Each damaged container goes through decode / validate /
//! metadata under a counting allocator and - when it validates - is hot
//! reloaded into a running world at an arbitrary cycle.
use serde_json::{json, Value as Json};

use trust_runtime::bytecode::BytecodeModule;
use trust_runtime::value::Duration;

use crate::framework::{guard, Check, Stats, Tier, Violation};
use crate::proggen::{self, Knobs};
use crate::rng::{Fnv, Rng};
use crate::world;

pub struct C11Check;
pub static C11: C11Check = C11Check;

const FLAGS_OFFSET: usize = 8; // magic(4) major(2) minor(2) flags(4)

fn alloc_bound(len: usize) -> usize {
    len * 256 + (1 << 20)
}

fn hex(b: &[u8]) -> String {
    b.iter().map(|x| format!("{x:02x}")).collect()
}

fn unhex(s: &str) -> Vec<u8> {
    (0..s.len() / 2).filter_map(|i| u8::from_str_radix(&s[2 * i..2 * i + 2], 16).ok()).collect()
}


// ---------------------------------------------------------------------------
// structure-aware mutations: the decoded module is changed in memory and re-encoded (checksum recomputed by
// the encoder), so every mutant passes the framing and reaches the table decoders, the validator and metadata()

use trust_runtime::bytecode::{ConstEntry, SectionData, TypeData, TypeKind};

fn sec<'a>(m: &'a mut BytecodeModule, pick: fn(&SectionData) -> bool) -> Option<&'a mut SectionData> {
    m.sections.iter_mut().map(|s| &mut s.data).find(|d| pick(d))
}

fn struct_mutants(m: &BytecodeModule) -> Vec<(&'static str, BytecodeModule)> {
    let mut out: Vec<(&'static str, BytecodeModule)> = vec![];
    let count = |pick: fn(&SectionData) -> Option<usize>| m.sections.iter().find_map(|s| pick(&s.data)).unwrap_or(0);
    let n_types = count(|d| if let SectionData::TypeTable(t) = d { Some(t.entries.len()) } else { None }) as u32;
    let n_consts = count(|d| if let SectionData::ConstPool(t) = d { Some(t.entries.len()) } else { None }) as u32;
    let n_refs = count(|d| if let SectionData::RefTable(t) = d { Some(t.entries.len()) } else { None }) as u32;
    let n_strings = count(|d| if let SectionData::StringTable(t) = d { Some(t.entries.len()) } else { None }) as u32;
    let n_pous = count(|d| if let SectionData::PouIndex(t) = d { Some(t.entries.len()) } else { None }) as u32;
    let is_types: fn(&SectionData) -> bool = |d| matches!(d, SectionData::TypeTable(_));
    let is_consts: fn(&SectionData) -> bool = |d| matches!(d, SectionData::ConstPool(_));

    // header flag bits beside the checksum bit
    for bit in 1..32 {
        let mut x = m.clone();
        x.flags |= 1 << bit;
        out.push(("header_flag_bit", x));
    }
    // section flags / ids
    for si in 0..m.sections.len() {
        let mut x = m.clone();
        x.sections[si].flags ^= 0x8001;
        out.push(("section_flags", x));
    }

    // ---- type graph: self references, two-entry cycles, boundary ids; a constant of the affected type makes the
    // validator walk it
    let point_const_at = |x: &mut BytecodeModule, t: u32| {
        if let Some(SectionData::ConstPool(c)) = sec(x, is_consts) {
            if let Some(e) = c.entries.first_mut() {
                e.type_id = t;
            } else {
                c.entries.push(ConstEntry { type_id: t, payload: vec![0; 8] });
            }
        }
    };
    for t in 0..n_types {
        let next = (t + 1) % n_types.max(1);
        for (label, target) in [("type_self_reference", t), ("type_points_at_next", next), ("type_id_at_table_end", n_types), ("type_id_max", u32::MAX)] {
            // (a) entries that already reference a type
            let mut x = m.clone();
            let mut touched = false;
            if let Some(SectionData::TypeTable(tt)) = sec(&mut x, is_types) {
                match &mut tt.entries[t as usize].data {
                    TypeData::Array { elem_type_id, .. } => {
                        *elem_type_id = target;
                        touched = true;
                    }
                    TypeData::Struct { fields } | TypeData::Union { fields } => {
                        if let Some(f) = fields.last_mut() {
                            f.type_id = target;
                            touched = true;
                        }
                    }
                    TypeData::Enum { base_type_id, .. } | TypeData::Subrange { base_type_id, .. } => {
                        *base_type_id = target;
                        touched = true;
                    }
                    TypeData::Alias { target_type_id } | TypeData::Reference { target_type_id } => {
                        *target_type_id = target;
                        touched = true;
                    }
                    TypeData::Pou { pou_id } => {
                        *pou_id = if target == t { n_pous } else { target };
                        touched = true;
                    }
                    _ => {}
                }
            }
            if touched {
                let mut y = x.clone();
                point_const_at(&mut y, t);
                out.push((label, x));
                out.push((label, y));
            }
        }
        // (b) the entry becomes a subrange / alias / array of `target`; with `next` turned the same way for a
        // cycle made of one kind only
        if t < 24 {
            for kind in 0..3 {
                for two in [false, true] {
                    let mut x = m.clone();
                    if let Some(SectionData::TypeTable(tt)) = sec(&mut x, is_types) {
                        let make = |to: u32| match kind {
                            0 => (TypeKind::Subrange, TypeData::Subrange { base_type_id: to, lower: 0, upper: 9 }),
                            1 => (TypeKind::Alias, TypeData::Alias { target_type_id: to }),
                            _ => (TypeKind::Array, TypeData::Array { elem_type_id: to, dims: vec![(0, 1)] }),
                        };
                        let (k, d) = make(if two { next } else { t });
                        tt.entries[t as usize].kind = k;
                        tt.entries[t as usize].data = d;
                        if two && next != t {
                            let (k, d) = make(t);
                            tt.entries[next as usize].kind = k;
                            tt.entries[next as usize].data = d;
                        }
                    }
                    point_const_at(&mut x, t);
                    out.push((if two { "type_cycle_of_two" } else { "type_cycle_of_one" }, x));
                }
            }
        }
    }
    // ---- whole tables emptied / sections dropped (a container without resources, without POUs, ...)
    for si in 0..m.sections.len() {
        let mut x = m.clone();
        let emptied = match &mut x.sections[si].data {
            SectionData::StringTable(t) | SectionData::DebugStringTable(t) => {
                t.entries.clear();
                true
            }
            SectionData::ConstPool(t) => {
                t.entries.clear();
                true
            }
            SectionData::RefTable(t) => {
                t.entries.clear();
                true
            }
            SectionData::PouIndex(t) => {
                t.entries.clear();
                true
            }
            SectionData::ResourceMeta(t) => {
                t.resources.clear();
                true
            }
            SectionData::IoMap(t) => {
                t.bindings.clear();
                true
            }
            SectionData::VarMeta(t) => {
                t.entries.clear();
                true
            }
            SectionData::RetainInit(t) => {
                t.entries.clear();
                true
            }
            SectionData::DebugMap(t) => {
                t.entries.clear();
                true
            }
            _ => false,
        };
        if emptied {
            out.push(("table_emptied", x));
        }
        if let SectionData::ResourceMeta(t) = &m.sections[si].data {
            // resources without tasks
            let mut y = m.clone();
            if let SectionData::ResourceMeta(ty) = &mut y.sections[si].data {
                for r in &mut ty.resources {
                    r.tasks.clear();
                }
            }
            let _ = t;
            out.push(("tasks_emptied", y));
        }
        let mut z = m.clone();
        z.sections.remove(si);
        out.push(("section_dropped", z));
    }
    // ---- constants
    for c in 0..n_consts.min(12) {
        for (label, f) in [
            ("const_type_at_table_end", 0u8),
            ("const_type_max", 1),
            ("const_payload_empty", 2),
            ("const_payload_short", 3),
            ("const_payload_long", 4),
        ] {
            let mut x = m.clone();
            if let Some(SectionData::ConstPool(cp)) = sec(&mut x, is_consts) {
                let e = &mut cp.entries[c as usize];
                match f {
                    0 => e.type_id = n_types,
                    1 => e.type_id = u32::MAX,
                    2 => e.payload.clear(),
                    3 => {
                        e.payload.pop();
                    }
                    _ => e.payload.extend_from_slice(&[0xff; 5]),
                }
            }
            out.push((label, x));
        }
    }
    // ---- every other table: one index at the table end / at the maximum
    for (label, v_of) in [("index_at_table_end", 0u8), ("index_max", 1)] {
        let pickv = |len: u32| if v_of == 0 { len } else { u32::MAX };
        let n_sections = m.sections.len();
        for si in 0..n_sections {
            // number of sites in this section
            let sites = match &m.sections[si].data {
                SectionData::RefTable(t) => t.entries.len().min(8) * 3,
                SectionData::PouIndex(t) => t.entries.len().min(10) * 10,
                SectionData::ResourceMeta(t) => t.resources.iter().map(|r| 4 + r.tasks.len() * 6).sum(),
                SectionData::IoMap(t) => t.bindings.len().min(8) * 3,
                SectionData::VarMeta(t) => t.entries.len().min(8) * 5,
                SectionData::RetainInit(t) => t.entries.len().min(8) * 2,
                SectionData::DebugMap(t) => t.entries.len().min(4) * 3,
                _ => 0,
            };
            for site in 0..sites {
                let mut x = m.clone();
                let mut done = false;
                match &mut x.sections[si].data {
                    SectionData::RefTable(t) => {
                        let e = &mut t.entries[site / 3];
                        match site % 3 {
                            0 => e.owner_id = pickv(n_pous),
                            1 => e.offset = pickv(1 << 16),
                            _ => {
                                for sgm in &mut e.segments {
                                    if let trust_runtime::bytecode::RefSegment::Field { name_idx } = sgm {
                                        *name_idx = pickv(n_strings);
                                    }
                                }
                            }
                        }
                        done = true;
                    }
                    SectionData::PouIndex(t) => {
                        let e = &mut t.entries[site / 10];
                        match site % 10 {
                            0 => e.name_idx = pickv(n_strings),
                            1 => e.code_offset = pickv(1 << 20),
                            2 => e.code_length = pickv(1 << 20),
                            3 => e.local_ref_start = pickv(n_refs),
                            4 => e.local_ref_count = pickv(n_refs),
                            5 => e.return_type_id = Some(pickv(n_types)),
                            6 => e.owner_pou_id = Some(if v_of == 0 { e.id } else { u32::MAX }),
                            7 => {
                                if let Some(p) = e.params.first_mut() {
                                    p.type_id = pickv(n_types);
                                    p.default_const_idx = Some(pickv(n_consts));
                                }
                            }
                            8 => {
                                let id = e.id;
                                if let Some(cm) = e.class_meta.as_mut() {
                                    // a class that is its own parent
                                    cm.parent_pou_id = Some(if v_of == 0 { id } else { u32::MAX });
                                }
                            }
                            _ => {
                                if let Some(cm) = e.class_meta.as_mut() {
                                    if let Some(me) = cm.methods.first_mut() {
                                        me.pou_id = pickv(n_pous);
                                        me.vtable_slot = pickv(1 << 16);
                                    }
                                    if let Some(im) = cm.interfaces.first_mut() {
                                        im.interface_type_id = pickv(n_types);
                                    }
                                }
                            }
                        }
                        done = true;
                    }
                    SectionData::ResourceMeta(t) => {
                        let mut k = site;
                        for r in &mut t.resources {
                            let span = 4 + r.tasks.len() * 6;
                            if k >= span {
                                k -= span;
                                continue;
                            }
                            match k {
                                0 => r.name_idx = pickv(n_strings),
                                // (large, but not so large that sixteen workers applying it at once exhaust the machine:
                                // a validated container's image sizes are honoured by apply)
                                1 => r.inputs_size = 1 << 27,
                                2 => r.outputs_size = 1 << 27,
                                3 => r.memory_size = 1 << 27,
                                _ => {
                                    let task = &mut r.tasks[(k - 4) / 6];
                                    match (k - 4) % 6 {
                                        0 => task.name_idx = pickv(n_strings),
                                        1 => task.single_name_idx = Some(pickv(n_strings)),
                                        2 => task.program_name_idx.push(pickv(n_strings)),
                                        3 => task.fb_ref_idx.push(pickv(n_refs)),
                                        4 => task.interval_nanos = if v_of == 0 { i64::MIN } else { -1 },
                                        _ => task.priority = u32::MAX,
                                    }
                                }
                            }
                            done = true;
                            break;
                        }
                    }
                    SectionData::IoMap(t) => {
                        let e = &mut t.bindings[site / 3];
                        match site % 3 {
                            0 => e.address_str_idx = pickv(n_strings),
                            1 => e.ref_idx = pickv(n_refs),
                            _ => e.type_id = Some(pickv(n_types)),
                        }
                        done = true;
                    }
                    SectionData::VarMeta(t) => {
                        let e = &mut t.entries[site / 5];
                        match site % 5 {
                            0 => e.name_idx = pickv(n_strings),
                            1 => e.type_id = pickv(n_types),
                            2 => e.ref_idx = pickv(n_refs),
                            3 => e.init_const_idx = Some(pickv(n_consts)),
                            _ => e.retain = 0xff,
                        }
                        done = true;
                    }
                    SectionData::RetainInit(t) => {
                        let e = &mut t.entries[site / 2];
                        if site % 2 == 0 {
                            e.ref_idx = pickv(n_refs);
                        } else {
                            e.const_idx = pickv(n_consts);
                        }
                        done = true;
                    }
                    SectionData::DebugMap(t) => {
                        let e = &mut t.entries[site / 3];
                        match site % 3 {
                            0 => e.pou_id = pickv(n_pous),
                            1 => e.code_offset = pickv(1 << 20),
                            _ => e.file_idx = pickv(n_strings),
                        }
                        done = true;
                    }
                    _ => {}
                }
                if done {
                    out.push((label, x));
                }
            }
        }
    }
    out
}

struct Reload<'a> {
    src: &'a str,
    cycles_before: u64,
}

/// decode / validate / metadata / hot reload of one (possibly damaged) container
fn exercise(kind: &str, bytes: &[u8], reload: &Reload<'_>, stats: &mut Stats) -> Result<(), Violation> {
    let narrowed = || json!({"raw_hex": hex(bytes), "reload_src": reload.src, "cycles_before": reload.cycles_before, "kind": kind});
    crate::alloc_probe::reset_max();
    let decoded = guard("BytecodeModule::decode", || BytecodeModule::decode(bytes)).map_err(|v| v.narrowed(narrowed()))?;
    let peak = crate::alloc_probe::max_single();
    if peak > alloc_bound(bytes.len()) {
        return Err(Violation::new(
            format!("alloc/oversized-request/decode/{kind}"),
            format!("decoding a {}-byte container requested a single allocation of {peak} bytes (bound {})", bytes.len(), alloc_bound(bytes.len())),
        )
        .narrowed(narrowed()));
    }
    stats.inc(&format!("fault.{kind}"));
    let Ok(module) = decoded else {
        stats.inc("probe.damaged_container_rejected_by_decode");
        return Ok(());
    };
    {
        // decoding an encoded module reproduces the module (whatever container the module came from)
        if let Ok(re) = guard("BytecodeModule::encode", || module.encode()).map_err(|v| v.narrowed(narrowed()))? {
            match guard("BytecodeModule::decode", || BytecodeModule::decode(&re)).map_err(|v| v.narrowed(narrowed()))? {
                Ok(m2) if m2 == module => {}
                other => {
                    return Err(Violation::new(
                        format!("roundtrip/decode-encode-not-identity/{kind}"),
                        format!("a module decoded from a {}-byte container encodes to bytes that decode to {}", bytes.len(), match other { Ok(_) => "another module".to_string(), Err(e) => format!("an error: {e:?}") }),
                    )
                    .narrowed(narrowed()));
                }
            }
        }
    }
    crate::alloc_probe::reset_max();
    let valid = guard("BytecodeModule::validate", || module.validate()).map_err(|v| v.narrowed(narrowed()))?;
    let meta = guard("BytecodeModule::metadata", || module.metadata()).map_err(|v| v.narrowed(narrowed()))?;
    let peak = crate::alloc_probe::max_single();
    if peak > alloc_bound(bytes.len()) {
        return Err(Violation::new(
            format!("alloc/oversized-request/validate/{kind}"),
            format!("validate/metadata of a {}-byte container requested a single allocation of {peak} bytes", bytes.len()),
        )
        .narrowed(narrowed()));
    }
    let _ = meta;
    if valid.is_err() {
        stats.inc("probe.damaged_container_rejected_by_validate");
        return Ok(());
    }
    stats.inc("probe.damaged_container_validates");
    // ---- hot reload into a running world
    let mut rt = match world::compile(reload.src) {
        Ok(rt) => rt,
        Err(e) => return Err(Violation::new("harness/reload-world-rejected", e)),
    };
    rt.io_mut().resize(proggen::INPUT_LEN, 8, 0);
    let mut now = 0i64;
    for _ in 0..reload.cycles_before {
        now += 10_000_000;
        rt.set_current_time(Duration::from_nanos(now));
        if guard("execute_cycle", || rt.execute_cycle()).map_err(|v| v.narrowed(narrowed()))?.is_err() {
            rt.clear_fault();
        }
    }
    crate::alloc_probe::reset_max();
    let applied = guard("Runtime::apply_bytecode_bytes", || rt.apply_bytecode_bytes(bytes, None)).map_err(|v| v.narrowed(narrowed()))?;
    let peak = crate::alloc_probe::max_single();
    if peak > alloc_bound(bytes.len()) {
        // process-image sizes are legitimate metadata of a validated container: the property only demands
        // "no panic" of the apply step, so this is reported as a probe, not judged
        stats.inc("probe.apply_sized_image_beyond_allocation_bound");
    }
    stats.inc(if applied.is_ok() { "probe.hot_reload_applied" } else { "probe.hot_reload_rejected" });
    for _ in 0..2 {
        now += 10_000_000;
        rt.set_current_time(Duration::from_nanos(now));
        if guard("execute_cycle after reload", || rt.execute_cycle()).map_err(|v| v.narrowed(narrowed()))?.is_err() {
            rt.clear_fault();
        }
    }
    Ok(())
}

/// decode / validate / metadata only (the exhaustive field sweeps)
fn exercise_light(kind: &str, bytes: &[u8], stats: &mut Stats) -> Result<(), Violation> {
    let narrowed = || json!({"raw_hex": hex(bytes), "reload_src": "PROGRAM Main\nEND_PROGRAM\n", "cycles_before": 0, "kind": kind});
    crate::alloc_probe::reset_max();
    let decoded = guard("BytecodeModule::decode", || BytecodeModule::decode(bytes)).map_err(|v| v.narrowed(narrowed()))?;
    let peak = crate::alloc_probe::max_single();
    if peak > alloc_bound(bytes.len()) {
        return Err(Violation::new(
            format!("alloc/oversized-request/decode/{kind}"),
            format!("decoding a {}-byte container requested a single allocation of {peak} bytes (bound {})", bytes.len(), alloc_bound(bytes.len())),
        )
        .narrowed(narrowed()));
    }
    stats.inc(&format!("fault.{kind}"));
    if let Ok(module) = decoded {
        // decoding an encoded module reproduces the module (whatever container the module came from)
        if let Ok(re) = guard("BytecodeModule::encode", || module.encode()).map_err(|v| v.narrowed(narrowed()))? {
            match guard("BytecodeModule::decode", || BytecodeModule::decode(&re)).map_err(|v| v.narrowed(narrowed()))? {
                Ok(m2) if m2 == module => {}
                other => {
                    return Err(Violation::new(
                        format!("roundtrip/decode-encode-not-identity/{kind}"),
                        format!("a module decoded from a {}-byte container encodes to bytes that decode to {}", bytes.len(), match other { Ok(_) => "another module".to_string(), Err(e) => format!("an error: {e:?}") }),
                    )
                    .narrowed(narrowed()));
                }
            }
        }
        crate::alloc_probe::reset_max();
        let valid = guard("BytecodeModule::validate", || module.validate()).map_err(|v| v.narrowed(narrowed()))?;
        let _ = guard("BytecodeModule::metadata", || module.metadata()).map_err(|v| v.narrowed(narrowed()))?;
        let peak = crate::alloc_probe::max_single();
        if peak > alloc_bound(bytes.len()) {
            return Err(Violation::new(
                format!("alloc/oversized-request/validate/{kind}"),
                format!("validate/metadata of a {}-byte container requested a single allocation of {peak} bytes", bytes.len()),
            )
            .narrowed(narrowed()));
        }
        if valid.is_ok() {
            stats.inc("probe.damaged_container_validates");
        }
    }
    Ok(())
}

/// Hot reload the way the control endpoint does it: a `ReloadBytecode` command to the real resource thread, once with
/// the requester still waiting and once with the requester gone (it gave up while the resource was parked at its
/// start gate). The thread must survive both, answer a later request and stop cleanly.
fn reload_through_resource_thread(src: &str, bytes: &[u8], stats: &mut Stats) -> Result<(), Violation> {
    use std::sync::mpsc::channel;
    use std::sync::Arc;
    use trust_runtime::scheduler::{ManualClock, ResourceCommand, ResourceRunner, ResourceState, StartGate};
    let rt = match world::compile(src) {
        Ok(rt) => rt,
        Err(_) => return Ok(()),
    };
    let gate = Arc::new(StartGate::new());
    let clock = ManualClock::new();
    let runner = ResourceRunner::new(rt, clock.clone(), Duration::from_millis(10)).with_start_gate(gate.clone());
    let mut handle = match guard("ResourceRunner::spawn", move || runner.spawn("c11-reload"))? {
        Ok(h) => h,
        Err(e) => return Err(Violation::new("harness/spawn", format!("{e:?}"))),
    };
    let control = handle.control();
    // 1. requester gone: the receiver is dropped before the resource gets to the command
    let (tx_gone, rx_gone) = channel();
    drop(rx_gone);
    let _ = control.send_command(ResourceCommand::ReloadBytecode { bytes: bytes.to_vec(), respond_to: tx_gone });
    // 2. requester waiting
    let (tx, rx) = channel();
    let _ = control.send_command(ResourceCommand::ReloadBytecode { bytes: bytes.to_vec(), respond_to: tx });
    gate.open();
    clock.advance(Duration::from_millis(10));
    // generous bound: this is a hang detector for a dead thread, not a timing oracle
    let answer = rx.recv_timeout(std::time::Duration::from_secs(120));
    let alive = answer.is_ok();
    handle.stop();
    clock.advance(Duration::from_millis(10));
    let joined = handle.join();
    stats.inc("probe.hot_reload_through_resource_thread");
    if joined.is_err() || !alive {
        return Err(Violation::new(
            "reload/resource-thread-died",
            format!("hot reload of a valid container through the resource thread: reply to the waiting requester {:?}, join {:?} (one earlier requester had gone away before its reload ran)", answer.as_ref().map(|r| r.is_ok()).map_err(|e| e.to_string()), joined.as_ref().map(|_| ()).map_err(|_| "thread panicked")),
        ));
    }
    if let Ok(Err(e)) = &answer {
        return Err(Violation::new("reload/valid-container-rejected-by-resource-thread", format!("{e:?}")));
    }
    // (the generated program may legitimately fault in its first cycles: the final state is not judged here)
    let _ = ResourceState::Stopped;
    Ok(())
}

impl Check for C11Check {
    fn id(&self) -> &'static str {
        "C11"
    }
    fn level(&self) -> &'static str {
        "fault_enumeration"
    }
    fn cases(&self, tier: Tier) -> u64 {
        match tier {
            Tier::Quick => 320,
            Tier::Thorough => 3_000,
        }
    }
    fn hang_limit_s(&self) -> u64 {
        120
    }
    fn rule(&self) -> &'static str {
        "case = container emitted by the real compiler for a ProgGen project (+ bulk units) and a second container of a sibling project; clean path: validate, decode(encode(m)) = m, encode(decode(b)) = b; then storage faults on the bytes: EVERY truncation (<= 6000 bytes, else 1500 seeded offsets), EVERY 4-byte field inflated to 0x00FFFFFF and every aligned field set to 0/1/2 (CRC flag cleared; decode/validate/metadata only), the listed 1-3 bit flips (half of them with an extra flip on the header's CRC flag), 0xFF blow-ups of 4-byte fields with the CRC flag cleared, zeroed ranges, torn mixes of the two containers at seeded offsets; each damaged container runs decode / validate / metadata under a counting allocator and, if it validates, is hot reloaded into a running world after k cycles followed by two more cycles; plus ~740 structure-aware mutants per container (decoded module changed in memory and re-encoded with a fresh checksum: type entries turned into one-/two-entry cycles of subranges, aliases, arrays with a constant of that type; every table index at the table end and at u32::MAX; header/section flag bits; constant payloads empty/short/long), a tenth of the validating ones hot-reloaded; decode(encode(m)) = m for every module decoded from any damaged container; round 3: every table emptied and every section dropped, accepted program without a valid container is a violation, hot reload of the clean container through the real resource thread (requester waiting / requester gone); distinct non-trivial = distinct (container hash, fault kind) pairs"
    }
    fn assumptions(&self) -> Vec<&'static str> {
        vec![
            "claimed: totality under storage corruption of compiler-emitted containers and hot reload at arbitrary cycles; NOT claimed: arbitrary adversarial byte strings with recomputed checksums (input-space fuzzing, no fault/time/history in it)",
            "allocation bound: largest single request <= 256 x container size + 1 MiB",
            "a rejected or applied hot reload is judged only for 'no panic/abort/oversized allocation, world keeps cycling' (the property does not state atomicity of a rejected reload)",
        ]
    }
    fn components(&self) -> (Vec<&'static str>, Vec<&'static str>) {
        (
            vec!["bytecode encoder (compiler-emitted containers)", "BytecodeModule::decode/validate/encode/metadata", "Runtime::apply_bytecode_bytes (hot reload)", "execute_cycle after reload"],
            vec!["storage (byte-level corruption of the emitted container)", "clock", "ResourceCommand::ReloadBytecode transport (the runtime entry point is called directly)"],
        )
    }

    fn generate(&self, rng: &mut Rng, _tier: Tier, _index: u64) -> Json {
        let mut kr = rng.fork("knobs");
        let mut pr = rng.fork("project");
        let mut fr = rng.fork("faults");
        let knobs = Knobs::swarm(&mut kr);
        let size = (pr.usize(0, 2), pr.usize(0, 2), pr.usize(1, 2));
        let mut project = proggen::gen_project(&mut pr, knobs.clone(), size);
        if pr.chance(1, 3) {
            let nb = pr.usize(1, 4);
            project["bulk"] = proggen::gen_bulk(&mut pr, nb);
        }
        let sib_size = (pr.usize(0, 1), pr.usize(0, 1), pr.usize(1, 2));
        let sibling = proggen::gen_project(&mut pr, knobs, sib_size);
        let mut faults = vec![];
        for _ in 0..fr.usize(30, 80) {
            match fr.below(6) {
                0 | 1 => {
                    let k = fr.usize(1, 3);
                    let flips: Vec<Json> = (0..k).map(|_| json!([fr.below(1_000_000), fr.below(8)])).collect();
                    faults.push(json!({"k": "flip", "flips": flips, "crc_off": fr.bool()}));
                }
                2 => faults.push(json!({"k": "ff4", "pos": fr.below(1_000_000)})),
                3 => faults.push(json!({"k": "zero", "pos": fr.below(1_000_000), "len": fr.range(1, 64)})),
                4 => faults.push(json!({"k": "torn", "pos": fr.below(1_000_000), "b_first": fr.bool()})),
                _ => faults.push(json!({"k": "small_count", "pos": fr.below(1_000_000), "val": *fr.pick(&[0x0001_0000u64, 0x0010_0000, 0x00ff_ffff, 0x7fff_ffff])})),
            }
        }
        json!({"project": project, "sibling": sibling, "cycles_before": fr.below(4), "faults": faults})
    }

    fn shrink(&self, case: &Json) -> Vec<Json> {
        if case["raw_hex"].is_string() {
            return vec![];
        }
        let mut out = crate::framework::shrink_generic(case);
        for p in proggen::shrink_project(&case["project"]) {
            let mut c = case.clone();
            c["project"] = p;
            out.push(c);
        }
        out
    }

    fn run(&self, case: &Json, stats: &mut Stats) -> Result<(), Violation> {
        for p in [
            "probe.damaged_container_rejected_by_decode",
            "probe.damaged_container_rejected_by_validate",
            "probe.damaged_container_validates",
            "probe.hot_reload_applied",
            "probe.hot_reload_rejected",
            "probe.clean_roundtrip",
            "probe.cross_reload_of_sibling_container",
            "probe.apply_sized_image_beyond_allocation_bound",
            "probe.mutant_refused_by_encoder",
            "probe.hot_reload_through_resource_thread",
        ] {
            stats.add(p, 0);
        }
        // narrowed replay: one explicit damaged container
        if let Some(h) = case["raw_hex"].as_str() {
            let bytes = unhex(h);
            let src = case["reload_src"].as_str().unwrap_or("PROGRAM Main\nEND_PROGRAM\n").to_string();
            let reload = Reload { src: &src, cycles_before: case["cycles_before"].as_u64().unwrap_or(0) };
            return exercise(case["kind"].as_str().unwrap_or("raw"), &bytes, &reload, stats);
        }
        let src = proggen::render(&case["project"]);
        let bytes = match guard("compile", || trust_runtime::harness::bytecode_bytes_from_source(&src))? {
            Ok(b) => b,
            Err(e) => {
                // the front end decides what a program is: when it accepts the source (the runtime builds), the
                // encoder must deliver a container that passes its own validation
                if world::compile(&src).is_ok() {
                    return Err(Violation::new(
                        "clean/accepted-program-has-no-valid-container",
                        format!("the checker accepts the program and the runtime builds, but the bytecode build fails: {e}\n{src}"),
                    ));
                }
                stats.inc("rejected_by_compiler");
                return Ok(());
            }
        };
        let sib_src = proggen::render(&case["sibling"]);
        let sib = trust_runtime::harness::bytecode_bytes_from_source(&sib_src).ok();
        let mut ch = Fnv::new();
        ch.bytes(&bytes);
        let chash = ch.finish();
        stats.inc("containers");
        stats.add("container_bytes", bytes.len() as u64);
        if stats.samples.is_empty() {
            stats.sample(json!({"container_len": bytes.len(), "faults": case["faults"].as_array().map(|f| f.iter().take(6).cloned().collect::<Vec<_>>()), "source_head": src.chars().take(800).collect::<String>()}));
        }

        // ---- clean path
        let module = match guard("decode", || BytecodeModule::decode(&bytes))? {
            Ok(m) => m,
            Err(e) => return Err(Violation::new("clean/emitted-container-does-not-decode", format!("{e:?}"))),
        };
        if let Err(e) = guard("validate", || module.validate())? {
            return Err(Violation::new("clean/emitted-container-does-not-validate", format!("{e:?}")));
        }
        match guard("encode", || module.encode())? {
            Ok(re) => {
                if re != bytes {
                    let at = re.iter().zip(bytes.iter()).position(|(a, b)| a != b).unwrap_or(re.len().min(bytes.len()));
                    return Err(Violation::new("clean/encode-decode-not-identity", format!("encode(decode(b)) differs from b at byte {at} ({} vs {} bytes)", re.len(), bytes.len())));
                }
                match guard("decode", || BytecodeModule::decode(&re))? {
                    Ok(m2) if m2 == module => {}
                    other => return Err(Violation::new("clean/decode-encode-not-identity", format!("decode(encode(m)) != m: {:?}", other.err()))),
                }
            }
            Err(e) => return Err(Violation::new("clean/decoded-module-does-not-encode", format!("{e:?}"))),
        }
        if let Err(e) = guard("metadata", || module.metadata())? {
            return Err(Violation::new("clean/emitted-container-has-no-metadata", format!("{e:?}")));
        }
        // the encoder's own in-memory module must survive encode -> decode unchanged
        match guard("build_bytecode_module", || trust_runtime::harness::CompileSession::from_source(src.clone()).build_bytecode_module())? {
            Ok(m0) => match guard("encode", || m0.encode())? {
                Ok(b0) => match guard("decode", || BytecodeModule::decode(&b0))? {
                    Ok(m1) if m1 == m0 => {}
                    Ok(_) => return Err(Violation::new("clean/decode-encode-not-identity/compiler-module", "decode(encode(m)) != m for the module the compiler built".to_string())),
                    Err(e) => return Err(Violation::new("clean/emitted-container-does-not-decode", format!("{e:?}"))),
                },
                Err(e) => return Err(Violation::new("clean/compiler-module-does-not-encode", format!("{e:?}"))),
            },
            Err(_) => {}
        }
        stats.inc("probe.clean_roundtrip");
        reload_through_resource_thread(&src, &bytes, stats)?;
        let reload = Reload { src: &src, cycles_before: case["cycles_before"].as_u64().unwrap_or(0) };
        // the undamaged container and the sibling's container, reloaded into this world
        exercise("clean", &bytes, &reload, stats)?;
        if let Some(s) = &sib {
            exercise("sibling", s, &reload, stats)?;
            stats.inc("probe.cross_reload_of_sibling_container");
        }
        stats.log(&format!("{chash}:{}", bytes.len()));

        // ---- every truncation
        let n = bytes.len();
        let cuts: Vec<usize> = if n <= 6000 {
            (0..n).collect()
        } else {
            let mut r = Rng::new(chash);
            let mut c: Vec<usize> = (0..64).chain(n - 64..n).collect();
            c.extend((0..1400).map(|_| r.below(n as u64) as usize));
            c.sort_unstable();
            c.dedup();
            c
        };
        for cut in cuts {
            exercise("truncate", &bytes[..cut], &reload, stats)?;
        }
        let mut h = Fnv::new();
        h.u64(chash).str("truncate");
        stats.nontrivial(h.finish());

        // ---- every 4-byte field inflated (count / length / offset / index corruption), CRC flag cleared
        let sweep: Vec<usize> = if n <= 6000 {
            (12..n.saturating_sub(3)).collect()
        } else {
            let mut r = Rng::new(chash ^ 0x5eed);
            let mut c: Vec<usize> = (0..1500).map(|_| 12 + r.below((n - 16) as u64) as usize).collect();
            c.sort_unstable();
            c.dedup();
            c
        };
        for &o in &sweep {
            let mut b = bytes.clone();
            b[FLAGS_OFFSET] &= !1;
            b[o..o + 4].copy_from_slice(&0x00ff_ffffu32.to_le_bytes());
            exercise_light("field_inflated", &b, stats)?;
        }
        // small values at aligned fields: index / type-id confusion (self references, cycles)
        for &o in sweep.iter().filter(|o| **o % 4 == 0) {
            for val in 0u32..10 {
                if bytes[o..o + 4] == val.to_le_bytes() {
                    continue;
                }
                let mut b = bytes.clone();
                b[FLAGS_OFFSET] &= !1;
                b[o..o + 4].copy_from_slice(&val.to_le_bytes());
                exercise_light("index_confused", &b, stats)?;
            }
        }
        let mut h = Fnv::new();
        h.u64(chash).str("field-sweep");
        stats.nontrivial(h.finish());

        // ---- structure-aware mutations of the decoded module, re-encoded with a fresh checksum
        let mutants = struct_mutants(&module);
        stats.add("structure_mutants", mutants.len() as u64);
        let mut validating = 0u64;
        for (label, mutant) in mutants {
            match guard("encode mutant", || mutant.encode())? {
                Ok(b) => {
                    // those that still validate also go through the hot reload
                    let validates = BytecodeModule::decode(&b).ok().is_some_and(|m| std::panic::catch_unwind(std::panic::AssertUnwindSafe(|| m.validate().is_ok())).unwrap_or(false));
                    validating += u64::from(validates);
                    // hot reload for a deterministic tenth of them (a reload costs a compile of the world)
                    if validates && validating % 10 == 1 {
                        exercise(label, &b, &reload, stats)?;
                    } else {
                        exercise_light(label, &b, stats)?;
                    }
                }
                Err(_) => stats.inc("probe.mutant_refused_by_encoder"),
            }
        }
        let mut h = Fnv::new();
        h.u64(chash).str("structure");
        stats.nontrivial(h.finish());

        // ---- listed faults
        for f in case["faults"].as_array().cloned().unwrap_or_default() {
            let mut b = bytes.clone();
            let kind = f["k"].as_str().unwrap_or("flip");
            let pos = (f["pos"].as_u64().unwrap_or(0) as usize) % n;
            match kind {
                "flip" => {
                    for fl in f["flips"].as_array().cloned().unwrap_or_default() {
                        let p = (fl[0].as_u64().unwrap_or(0) as usize) % n;
                        b[p] ^= 1 << (fl[1].as_u64().unwrap_or(0) % 8);
                    }
                    if f["crc_off"].as_bool().unwrap_or(false) {
                        b[FLAGS_OFFSET] ^= 1;
                    }
                }
                "ff4" | "small_count" => {
                    b[FLAGS_OFFSET] &= !1;
                    let val: u32 = if kind == "ff4" { u32::MAX } else { f["val"].as_u64().unwrap_or(0x10000) as u32 };
                    // aligned 4-byte field
                    let p = pos & !3;
                    for (i, byte) in val.to_le_bytes().iter().enumerate() {
                        if p + i < n {
                            b[p + i] = *byte;
                        }
                    }
                }
                "zero" => {
                    for i in 0..f["len"].as_u64().unwrap_or(1) as usize {
                        if pos + i < n {
                            b[pos + i] = 0;
                        }
                    }
                }
                _ => {
                    let Some(s) = &sib else { continue };
                    let (first, second) = if f["b_first"].as_bool().unwrap_or(false) { (s, &bytes) } else { (&bytes, s) };
                    let cut = pos.min(first.len());
                    let mut mix = first[..cut].to_vec();
                    if cut < second.len() {
                        mix.extend_from_slice(&second[cut..]);
                    }
                    b = mix;
                }
            }
            let label = match kind {
                "flip" if f["crc_off"].as_bool().unwrap_or(false) => "bitflip_crc_flag_hit",
                "flip" => "bitflip",
                "ff4" => "length_blowup",
                "small_count" => "count_inflated",
                "zero" => "zeroed_range",
                _ => "torn_mix",
            };
            exercise(label, &b, &reload, stats)?;
            let mut h = Fnv::new();
            h.u64(chash).str(label);
            stats.nontrivial(h.finish());
        }
        stats.state(chash);
        Ok(())
    }
}
