#!/usr/bin/env python3
"""Generate /verif/MANIFEST.json from the table below (single source of truth)."""
import json, os, subprocess
ROOT = os.path.dirname(os.path.dirname(os.path.abspath(__file__)))

CHECKS = {
 "C04": ("exploration",
         "deterministic simulation: seeded FB banks x (inputs, dt) traces incl. dt=0 / exact-PT / jumps / restarts, lock-step IEC reference models compared after every call",
         "Seeded search over call traces against independent IEC reference models of TON/TOF/TP, CTU/CTD/CTUD (all typed variants), R_TRIG/F_TRIG, SR/RS; Q/ET/CV compared after every single call through per-call-site output copies, plus the independence invariant for uncalled instances. Sampling, not proof.",
         "Trusts the reference models (DESIGN Appendix B) and the documented relaxations: ET after expiry may be 0 or PT; exact comparison suspended after PT changes while timing. Clock is written directly (stub).",
         "DESIGN.md section 3 C04"),
 # id: (category, technique, level text, level_note, design_ref)
 "C06": ("exploration",
         "deterministic simulation: seeded task sets x clock timelines (stalls, jumps) x SINGLE edges x restarts, lock-step reference scheduler",
         "Seeded search over configurations and timelines against an executable reference scheduler written from the property and docs/specs 4.3; every cycle's executed task/program sequence and overrun counters are compared. Sampling, not proof; the space (intervals x priorities x SINGLE sharing x clock traces) is far beyond the example tests and is covered by tens of thousands of distinct due-set/tie shapes per run.",
         "Trusts the reference scheduler (Appendix B of DESIGN.md), the compiler's CONFIGURATION lowering being the one users get, and that program-side counters (seq/mark/runs) observe execution order. Runner loop is a stub (clock written directly).",
         "DESIGN.md section 3 C06"),
}

NOT_APPLICABLE = {
 "C02": "pure function of (program, input trace): no schedule, clock source, fault or interleaving to simulate; needs differential testing against a reference evaluator, a different technique",
 "C12": "pure function of the input text (lexing/parsing): no time, fault, history or schedule",
 "C15": "pure function of (text, formatting configuration, range/position): no time, fault, history or schedule",
 "C16": "pure function of (project, occurrence, new name); its behavioural clause is C02-shaped: no time, fault, history or schedule",
}

PENDING_REASON = "check not built yet in this revision (planned, see DESIGN.md section 0); not claimed until it exists"
ALL = ["C%02d" % i for i in range(1, 21)]

def main():
    checks = []
    for cid, (cat, tech, text, note, ref) in sorted(CHECKS.items()):
        checks.append({
            "property_id": cid,
            "quick_cmd": f"./check {cid} quick",
            "thorough_cmd": f"./check {cid} thorough",
            "evidence_file": f"/verif/evidence/{cid}.json",
            "replay_cmd_template": "./check replay {path}",
            "engine": "trustsim",
            "level_claimed": {"category": cat, "text": text, "design_ref": ref},
            "level_note": note,
            "technique": tech,
        })
    na = []
    for cid in ALL:
        if cid in CHECKS:
            continue
        na.append({"property_id": cid, "reason": NOT_APPLICABLE.get(cid, PENDING_REASON)})
    hooks_commits = []
    try:
        out = subprocess.run(["git", "-C", "/repo", "log", "--format=%H %s"], capture_output=True, text=True).stdout
        for line in out.splitlines():
            h, _, s = line.partition(" ")
            if s.startswith("verif hooks"):
                hooks_commits.append(h)
    except Exception:
        pass
    manifest = {
        "version": 1,
        "setup_cmd": "./check build",
        "hooks": {
            "guard": "--cfg trust_verif (and --cfg trust_verif_shuttle for the thread-scheduling shim)",
            "enable": "checks build /repo's crates through shadow manifests in /verif/sim with RUSTFLAGS=--cfg trust_verif (sim/.cargo/config.toml); /repo/Cargo.toml and Cargo.lock are untouched",
            "baseline_off_cmd": "cd /repo && cargo nextest run --workspace --no-fail-fast --test-threads 8 --offline || cargo test --workspace --no-fail-fast --offline",
            "source_commits": hooks_commits,
            "add_only": True,
        },
        "engines": [
            {"name": "trustsim", "path": "/verif/sim", "serves_properties": sorted(CHECKS.keys()),
             "kind_free_text": "deterministic simulator: seeded PRNG decides workload, clock, faults and schedules; real compiler/runtime/services under test; sharded worker processes; minimisation and replay files"},
        ],
        "checks": checks,
        "not_applicable": na,
        "notes": "See DESIGN.md. Exit codes: 0 held, 1 VIOLATION line printed, 2 harness error. known_findings.json lists open findings (KNOWN-FINDING lines) and fixed records.",
    }
    with open(os.path.join(ROOT, "MANIFEST.json"), "w") as fh:
        json.dump(manifest, fh, indent=1)
        fh.write("\n")

if __name__ == "__main__":
    main()
