//! C19 version-chain oracle (DESIGN Appendix B "Version chain") as a pure
//! function over a recorded history.  Used by the operation-granularity check
//! (`c19.rs`); written so that a thread-interleaving variant can record the
//! same events (in linearisation order) and reuse it unchanged.
//!
//! The oracle is the *refinement* the property states, not equality of version
//! numbers: versions need not be consecutive (the implementation bumps them
//! whenever it re-syncs with the disk), but
//!   * an acknowledged write must not be based on a version that an
//!     acknowledged content change of the same file has superseded,
//!   * an acknowledgement must hand out a version newer than the one it was
//!     based on,
//!   * after every event the file equals the content of the last acknowledged
//!     content change (or a later external modification).
use crate::framework::Violation;

#[derive(Debug, Clone, PartialEq, Eq)]
pub enum EvOp {
    /// the session was told `version` (+ content id) by a successful open
    Open,
    /// the session was told the current version by a conflict reply; `content`
    /// = id of what that version denotes (the file at that moment), if the recorder knows it
    ConflictInfo,
    /// acknowledged `apply_source(expected) -> version`, content id written
    WriteAck,
    /// refused write (any error); `expected` recorded
    WriteRefused,
    /// another acknowledged API operation set the content of the file
    /// (create with content, rename into this path, symbol rename); the acting
    /// session observes `version` when the API returned one
    ContentSet,
    /// an acknowledged rename moved an existing file (content id carried along)
    /// to this path; not a write, but it redefines what the path holds
    Moved,
    /// the harness modified the file behind the API's back
    External,
    /// the file (or the API's memory of it) went away: delete, rename away,
    /// project switch.  Version numbers handed out before are meaningless after.
    Reset,
}

#[derive(Debug, Clone)]
pub struct Event {
    /// alias of the acting session ("e0", "v1", "ext")
    pub session: String,
    pub op: EvOp,
    /// API key of the file (normalised workspace path); version numbers are per key
    pub file: String,
    /// identity of the real file the key resolved to (two keys may alias one file)
    pub real: String,
    pub expected: Option<u64>,
    /// version the API reported (open / ack / conflict current_version / create)
    pub version: Option<u64>,
    /// id (hash) of the content read or written
    pub content: Option<u64>,
    /// hash of the real file right after the event (None: file absent / not sampled)
    pub disk_after: Option<u64>,
}

fn observes(e: &Event) -> bool {
    e.version.is_some() && matches!(e.op, EvOp::Open | EvOp::ConflictInfo | EvOp::WriteAck | EvOp::ContentSet)
}

fn sets_content_via_api(e: &Event) -> bool {
    matches!(e.op, EvOp::WriteAck | EvOp::ContentSet | EvOp::Moved)
}

/// Check the whole history (events in linearisation order).
pub fn check_version_chain(history: &[Event]) -> Result<(), Violation> {
    for (w, ev) in history.iter().enumerate() {
        // ---- disk equals the last content-defining event of that real file
        if let Some(disk) = ev.disk_after {
            let last = history[..=w]
                .iter()
                .rev()
                .find(|e| e.real == ev.real && (sets_content_via_api(e) || e.op == EvOp::External || e.op == EvOp::Reset));
            if let Some(last) = last {
                if last.op != EvOp::Reset {
                    if let Some(c) = last.content {
                        if c != disk {
                            let sig = if ev.op == EvOp::WriteRefused {
                                "lost-update/refused-write-changed-file"
                            } else if ev.op == EvOp::WriteAck {
                                "lost-update/acked-write-not-on-disk"
                            } else {
                                "lost-update/file-differs-from-last-write"
                            };
                            return Err(Violation::new(
                                sig,
                                format!(
                                    "event {w} ({:?} by {} on {}): file content differs from the content of the last acknowledged change ({:?} by {})",
                                    ev.op, ev.session, ev.file, last.op, last.session
                                ),
                            ));
                        }
                    }
                }
            }
        }
        if ev.op != EvOp::WriteAck {
            continue;
        }
        let Some(expected) = ev.expected else { continue };
        // ---- the acknowledgement must advance the version
        if let Some(v) = ev.version {
            if v <= expected {
                return Err(Violation::new(
                    "version-chain/ack-did-not-advance",
                    format!("event {w}: write by {} on {} expected {expected}, acknowledged with version {v}", ev.session, ev.file),
                ));
            }
        }
        // ---- basis of the write: the session's own latest observation if it
        // matches `expected`, otherwise (the client guessed or was told the
        // number elsewhere) the latest observation of that number by anyone.
        let own = history[..w].iter().enumerate().rev().find(|(_, e)| e.file == ev.file && e.real == ev.real && e.session == ev.session && observes(e));
        let basis = match own {
            Some((i, e)) if e.version == Some(expected) => Some(i),
            _ => history[..w]
                .iter()
                .enumerate()
                .rev()
                .find(|(_, e)| e.file == ev.file && e.real == ev.real && observes(e) && e.version == Some(expected))
                .map(|(i, _)| i),
        };
        let Some(basis) = basis else { continue };
        let between = &history[basis + 1..w];
        // A change under the same key must have been fenced by the version number.
        // A change that reached the file under another key (alias) or by a rename is
        // only lost if it left something the writer had not seen.
        let basis_content = history[basis].content;
        let loses = |e: &Event| {
            e.real == ev.real
                && sets_content_via_api(e)
                && ((e.file == ev.file && e.op != EvOp::Moved) || e.content.is_none() || e.content != basis_content)
        };
        if let Some(lost) = between.iter().find(|e| loses(e)) {
            let reset = between.iter().any(|e| (e.real == ev.real || e.file == ev.file) && e.op == EvOp::Reset);
            let sig = if reset {
                "lost-update/stale-write-accepted/after-version-reset"
            } else if lost.file != ev.file {
                "lost-update/stale-write-accepted/through-alias"
            } else {
                "lost-update/stale-write-accepted"
            };
            return Err(Violation::new(
                sig,
                format!(
                    "event {w}: write by {} on {} with expected version {expected} was acknowledged although it was based on event {basis} ({:?} by {}) and {} had an acknowledged {:?} in between - that change was silently overwritten",
                    ev.session, ev.file, history[basis].op, history[basis].session, lost.session, lost.op
                ),
            ));
        }
    }
    Ok(())
}
