//! C07 - process image: inputs latched once per cycle, outputs published once
//! at the end.
//!
//! World: generated address map over %I/%Q/%M (X/B/W/D/L, overlapping and
//! adjacent input spans, bit-adjacent output spans), three programs (first
//! task, second task, background) that copy every input to their own outputs,
//! 1..3 drivers that change their input bytes on EVERY read call and log every
//! call together with the runtime's events.  Oracle: independent little-endian
//! / bit model of the images (DESIGN Appendix B).
use serde_json::{json, Value as Json};

use trust_runtime::error::RuntimeError;
use trust_runtime::io::IoAddress;
use trust_runtime::value::{Duration, Value};
use trust_runtime::watchdog::FaultPolicy;

use crate::framework::{guard, Check, Stats, Tier, Violation};
use crate::rng::{Fnv, Rng};
use crate::world::{self, DriverEvent};

pub struct C07Check;
pub static C07: C07Check = C07Check;

const IN_LEN: usize = 8;
const OUT_LEN: usize = 64;
const MEM_LEN: usize = 8;

const TYPES: &[(&str, &str)] = &[
    ("X", "BOOL"),
    ("B", "BYTE"),
    ("B", "SINT"),
    ("B", "USINT"),
    ("W", "WORD"),
    ("W", "INT"),
    ("W", "UINT"),
    ("D", "DWORD"),
    ("D", "DINT"),
    ("D", "UDINT"),
    ("D", "REAL"),
    ("L", "LWORD"),
    ("L", "LINT"),
    ("L", "ULINT"),
    ("L", "LREAL"),
];

fn width(size: &str) -> usize {
    match size {
        "X" => 0,
        "B" => 1,
        "W" => 2,
        "D" => 4,
        _ => 8,
    }
}

fn addr_text(area: char, size: &str, byte: usize, bit: u32) -> String {
    if size == "X" {
        format!("%{area}X{byte}.{bit}")
    } else {
        format!("%{area}{size}{byte}")
    }
}

/// raw bits of the addressed span (independent model)
fn decode(img: &[u8], size: &str, byte: usize, bit: u32) -> u64 {
    let get = |i: usize| u64::from(img.get(i).copied().unwrap_or(0));
    if size == "X" {
        return (get(byte) >> bit) & 1;
    }
    let mut v = 0u64;
    for i in 0..width(size) {
        v |= get(byte + i) << (8 * i);
    }
    v
}

fn encode(img: &mut [u8], size: &str, byte: usize, bit: u32, val: u64) {
    if size == "X" {
        if let Some(b) = img.get_mut(byte) {
            if val & 1 == 1 {
                *b |= 1 << bit;
            } else {
                *b &= !(1 << bit);
            }
        }
        return;
    }
    for i in 0..width(size) {
        if let Some(b) = img.get_mut(byte + i) {
            *b = ((val >> (8 * i)) & 0xff) as u8;
        }
    }
}

fn is_signed(ty: &str) -> bool {
    matches!(ty, "SINT" | "INT" | "DINT" | "LINT")
}
fn is_arith(ty: &str) -> bool {
    matches!(ty, "SINT" | "INT" | "DINT" | "LINT" | "USINT" | "UINT" | "UDINT" | "ULINT")
}

/// `v > 0` under the declared type, from raw bits
fn positive(ty: &str, size: &str, bits: u64) -> bool {
    if is_signed(ty) {
        let w = width(size) * 8;
        let sign = (bits >> (w - 1)) & 1 == 1;
        !sign && bits != 0
    } else {
        bits != 0
    }
}

/// raw bits of a runtime value (two's complement / IEEE), None for non-scalar
fn value_bits(v: &Value) -> Option<u64> {
    Some(match v {
        Value::Bool(b) => u64::from(*b),
        Value::SInt(x) => u64::from(*x as u8),
        Value::Int(x) => u64::from(*x as u16),
        Value::DInt(x) => u64::from(*x as u32),
        Value::LInt(x) => *x as u64,
        Value::USInt(x) | Value::Byte(x) => u64::from(*x),
        Value::UInt(x) | Value::Word(x) => u64::from(*x),
        Value::UDInt(x) | Value::DWord(x) => u64::from(*x),
        Value::ULInt(x) | Value::LWord(x) => *x,
        Value::Real(x) => u64::from(x.to_bits()),
        Value::LReal(x) => x.to_bits(),
        _ => return None,
    })
}

fn typed_value(ty: &str, bits: u64) -> Value {
    match ty {
        "BOOL" => Value::Bool(bits & 1 == 1),
        "BYTE" => Value::Byte(bits as u8),
        "SINT" => Value::SInt(bits as u8 as i8),
        "USINT" => Value::USInt(bits as u8),
        "WORD" => Value::Word(bits as u16),
        "INT" => Value::Int(bits as u16 as i16),
        "UINT" => Value::UInt(bits as u16),
        "DWORD" => Value::DWord(bits as u32),
        "DINT" => Value::DInt(bits as u32 as i32),
        "UDINT" => Value::UDInt(bits as u32),
        "REAL" => Value::Real(f32::from_bits(bits as u32)),
        "LWORD" => Value::LWord(bits),
        "LINT" => Value::LInt(bits as i64),
        "ULINT" => Value::ULInt(bits),
        _ => Value::LReal(f64::from_bits(bits)),
    }
}

/// the raw image value (as `IoInterface::write` wants it) for a span
fn raw_value(size: &str, bits: u64) -> Value {
    match size {
        "X" => Value::Bool(bits & 1 == 1),
        "B" => Value::Byte(bits as u8),
        "W" => Value::Word(bits as u16),
        "D" => Value::DWord(bits as u32),
        _ => Value::LWord(bits),
    }
}

#[derive(Clone, Debug)]
struct InVar {
    size: String,
    ty: String,
    byte: usize,
    bit: u32,
    global: bool,
    /// output slots: (program index 0..2, byte, bit) copies; plus optional sign probe (byte, bit)
    outs: Vec<(usize, usize, u32)>,
    pos: Option<(usize, u32)>,
}

fn parse_inputs(case: &Json) -> Vec<InVar> {
    case["inputs"]
        .as_array()
        .cloned()
        .unwrap_or_default()
        .iter()
        .map(|i| InVar {
            size: i["size"].as_str().unwrap_or("X").to_string(),
            ty: i["ty"].as_str().unwrap_or("BOOL").to_string(),
            byte: i["byte"].as_u64().unwrap_or(0) as usize,
            bit: i["bit"].as_u64().unwrap_or(0) as u32,
            global: i["global"].as_bool().unwrap_or(false),
            outs: i["outs"]
                .as_array()
                .cloned()
                .unwrap_or_default()
                .iter()
                .map(|o| (o[0].as_u64().unwrap_or(0) as usize, o[1].as_u64().unwrap_or(0) as usize, o[2].as_u64().unwrap_or(0) as u32))
                .collect(),
            pos: i["pos"].as_array().map(|p| (p[0].as_u64().unwrap_or(0) as usize, p[1].as_u64().unwrap_or(0) as u32)),
        })
        .collect()
}

const PROGS: [&str; 3] = ["PA", "PM", "PB"];

pub fn source_for(case: &Json) -> String {
    let inputs = parse_inputs(case);
    let n_mem = case["mems"].as_u64().unwrap_or(0) as usize;
    let mut s = String::from("CONFIGURATION C\nVAR_GLOBAL\n  g_div : DINT := 1;\n");
    for (i, v) in inputs.iter().enumerate() {
        if v.global {
            s.push_str(&format!("  gin{i} AT {} : {};\n", addr_text('I', &v.size, v.byte, v.bit), v.ty));
        }
    }
    let event = case["event"].as_bool().unwrap_or(false);
    if event {
        // an event task whose SINGLE variable is itself an input: it must see this cycle's latched value
        s.push_str("  gtrig AT %IX7.6 : BOOL;\n");
    }
    if case["nested"].as_bool().unwrap_or(false) {
        // a configuration-level FB instance with its own direct variables
        s.push_str("  gfb : GIo;\n");
    }
    // sched 0: both tasks due in every 10 ms cycle, PB in the background; 1: T0 every 25 ms; 2: T0 25 ms, T1 35 ms and PB
    // attached to T1 as well - cycles in which no program code runs at all
    let sched = case["sched"].as_u64().unwrap_or(0);
    let (i0, i1) = match sched {
        1 => (25, 1),
        2 => (25, 35),
        _ => (1, 1),
    };
    s.push_str(&format!("END_VAR\nTASK T0 (INTERVAL := T#{i0}ms, PRIORITY := 0);\nTASK T1 (INTERVAL := T#{i1}ms, PRIORITY := 1);\n"));
    if event {
        s.push_str("TASK TE (SINGLE := gtrig, PRIORITY := 0);\nPROGRAM PE WITH TE : ProgE;\n");
    }
    s.push_str(&format!("PROGRAM PA WITH T0 : ProgA;\nPROGRAM PM WITH T1 : ProgM;\nPROGRAM PB{} : ProgB;\nEND_CONFIGURATION\n\n", if sched == 2 { " WITH T1" } else { "" }));
    let nested = case["nested"].as_bool().unwrap_or(false);
    if nested {
        s.push_str(&format!("FUNCTION_BLOCK GIo\nVAR\n  gi AT %IX6.2 : BOOL;\nEND_VAR\nVAR_OUTPUT\n  gq AT %QX{}.4 : BOOL;\nEND_VAR\ngq := gi;\nEND_FUNCTION_BLOCK\n\n", OUT_LEN - 5));
        // an FB instance inside an FB instance inside a program, with its own direct variables
        s.push_str(&format!(
            "FUNCTION_BLOCK Inner\nVAR\n  ni AT %IX6.1 : BOOL;\nEND_VAR\nVAR_OUTPUT\n  nq AT %QX{}.2 : BOOL;\nEND_VAR\nnq := ni;\nEND_FUNCTION_BLOCK\n\nFUNCTION_BLOCK Outer\nVAR\n  inner : Inner;\nEND_VAR\ninner();\nEND_FUNCTION_BLOCK\n\n",
            OUT_LEN - 5
        ));
    }
    if event {
        s.push_str(&format!("PROGRAM ProgE\nVAR\n  ecnt AT %QW{} : UINT;\nEND_VAR\necnt := ecnt + UINT#1;\nEND_PROGRAM\n\n", OUT_LEN - 2));
    }
    for (pi, pname) in ["ProgA", "ProgM", "ProgB"].iter().enumerate() {
        s.push_str(&format!("PROGRAM {pname}\nVAR_EXTERNAL\n  g_div : DINT;\n"));
        for (i, v) in inputs.iter().enumerate() {
            if v.global && (v.outs.iter().any(|o| o.0 == pi) || (pi == 0 && v.pos.is_some())) {
                s.push_str(&format!("  gin{i} : {};\n", v.ty));
            }
        }
        s.push_str("END_VAR\nVAR\n  t : DINT;\n");
        if pi == 0 && nested {
            s.push_str("  outer : Outer;\n");
        }
        for (i, v) in inputs.iter().enumerate() {
            let used = v.outs.iter().any(|o| o.0 == pi) || (pi == 0 && v.pos.is_some());
            if !v.global && used {
                s.push_str(&format!("  in{i} AT {} : {};\n", addr_text('I', &v.size, v.byte, v.bit), v.ty));
            }
            for (oi, o) in v.outs.iter().enumerate() {
                if o.0 == pi {
                    s.push_str(&format!("  o{i}_{oi} AT {} : {};\n", addr_text('Q', &v.size, o.1, o.2), v.ty));
                }
            }
            if pi == 0 {
                if let Some((b, bit)) = v.pos {
                    s.push_str(&format!("  pos{i} AT %QX{b}.{bit} : BOOL;\n"));
                }
            }
        }
        if pi == 1 {
            for j in 0..n_mem {
                s.push_str(&format!("  m{j} AT %MW{} : UINT;\n", 2 * j));
            }
            s.push_str("  pbit AT %IX7.7 : BOOL;\n");
            for (k, bw) in case["bitwords"].as_array().cloned().unwrap_or_default().iter().enumerate() {
                let ty = bw["ty"].as_str().unwrap_or("WORD");
                s.push_str(&format!("  bw{k} AT %Q{}{} : {ty} := {ty}#16#{:X};\n", bw["size"].as_str().unwrap_or("W"), bw["byte"].as_u64().unwrap_or(0), bw["init"].as_u64().unwrap_or(0)));
            }
            for (k, a) in case["in_arrays"].as_array().cloned().unwrap_or_default().iter().enumerate() {
                let lo = a["lo"].as_i64().unwrap_or(0);
                s.push_str(&format!("  ai{k} AT %I{}{} : ARRAY[{lo}..{}] OF {};\n", a["size"].as_str().unwrap_or("W"), a["byte"].as_u64().unwrap_or(0), lo + a["len"].as_i64().unwrap_or(1) - 1, a["ty"].as_str().unwrap_or("INT")));
            }
            for (k, a) in case["out_arrays"].as_array().cloned().unwrap_or_default().iter().enumerate() {
                let lo = a["lo"].as_i64().unwrap_or(0);
                s.push_str(&format!("  aq{k} AT %Q{}{} : ARRAY[{lo}..{}] OF {};\n", a["size"].as_str().unwrap_or("W"), a["byte"].as_u64().unwrap_or(0), lo + a["len"].as_i64().unwrap_or(1) - 1, a["ty"].as_str().unwrap_or("INT")));
            }
        }
        if pi == 2 && case["enc"].as_bool().unwrap_or(false) {
            s.push_str(&format!("  ovf AT %QW{} : INT;\n", OUT_LEN - 4));
        }
        s.push_str("END_VAR\n");
        for (i, v) in inputs.iter().enumerate() {
            let name = if v.global { format!("gin{i}") } else { format!("in{i}") };
            for (oi, o) in v.outs.iter().enumerate() {
                if o.0 == pi {
                    s.push_str(&format!("o{i}_{oi} := {name};\n"));
                }
            }
            if pi == 0 && v.pos.is_some() {
                s.push_str(&format!("pos{i} := {name} > 0;\n"));
            }
        }
        if pi == 0 && nested {
            s.push_str("outer();\ngfb();\n");
        }
        if pi == 1 {
            for j in 0..n_mem {
                s.push_str(&format!("m{j} := m{j} + 1;\n"));
            }
            for (k, bw) in case["bitwords"].as_array().cloned().unwrap_or_default().iter().enumerate() {
                s.push_str(&format!("bw{k}.%X{} := pbit;\n", bw["bit"].as_u64().unwrap_or(0)));
            }
            let in_arrays = case["in_arrays"].as_array().cloned().unwrap_or_default();
            for (k, a) in case["out_arrays"].as_array().cloned().unwrap_or_default().iter().enumerate() {
                let lo = a["lo"].as_i64().unwrap_or(0);
                let ty = a["ty"].as_str().unwrap_or("INT");
                for (j, e) in a["elems"].as_array().cloned().unwrap_or_default().iter().enumerate() {
                    let idx = lo + j as i64;
                    match e["from"].as_u64() {
                        Some(src_j) if !in_arrays.is_empty() => {
                            let ilo = in_arrays[0]["lo"].as_i64().unwrap_or(0);
                            s.push_str(&format!("aq{k}[{idx}] := ai0[{}];\n", ilo + src_j as i64));
                        }
                        _ => {
                            let c = e["c"].as_u64().unwrap_or(0);
                            let lit = match ty {
                                "BYTE" | "WORD" => format!("{ty}#16#{c:X}"),
                                _ => format!("{ty}#{c}"),
                            };
                            s.push_str(&format!("aq{k}[{idx}] := {lit};\n"));
                        }
                    }
                }
            }
        }
        if pi == 2 && case["enc"].as_bool().unwrap_or(false) {
            // g_div = 20 drives an INT output past its range (the interpreter leaves the DINT sum in the variable):
            // the second such cycle faults while the outputs are being encoded
            s.push_str("IF g_div = 20 THEN ovf := ovf + 20000; END_IF;\n");
        }
        // fault site: g_div = program index + 1 selects which program divides by zero
        s.push_str(&format!("IF g_div = {} THEN t := 1 / (g_div - {}); END_IF;\n", pi as i64 + 10, pi as i64 + 10));
        s.push_str("END_PROGRAM\n\n");
    }
    s
}

fn render_log(log: &[DriverEvent]) -> String {
    let parts: Vec<String> = log
        .iter()
        .map(|e| match e {
            DriverEvent::Read { driver, .. } => format!("R{driver}"),
            DriverEvent::Write { driver, .. } => format!("W{driver}"),
            DriverEvent::ReadErr { driver } => format!("R{driver}!"),
            DriverEvent::WriteErr { driver } => format!("W{driver}!"),
            DriverEvent::Rt(s) => s.clone(),
        })
        .collect();
    parts.join(" ")
}

fn variant_name(e: &RuntimeError) -> String {
    let t = format!("{e:?}");
    t.split(|c: char| !c.is_alphanumeric()).next().unwrap_or("").to_string()
}

impl Check for C07Check {
    fn id(&self) -> &'static str {
        "C07"
    }
    fn cases(&self, tier: Tier) -> u64 {
        match tier {
            Tier::Quick => 10_000,
            Tier::Thorough => 50_000,
        }
    }
    fn rule(&self) -> &'static str {
        "case = seeded address map (1-6 inputs over %IX/B/W/D/L of all 15 elementary types at overlapping/adjacent spans in an 8-byte image, program-level and global bindings, each copied to 1-3 outputs in the first task / second task / background program at bit- and byte-adjacent %Q spans of a pre-filled 40-byte image, sign probes, 0-3 %MW counters) x 1-3 drivers changing their bytes on every read call x history of cycles with explicit boundary input bytes, debugger one-shot I/O writes, forced inputs/outputs, and a final value fault / driver read error / driver write error; later additions: bit-string outputs written through bit access, arrays with non-zero lower bounds bound to direct addresses, an event task whose SINGLE variable is an %IX input, all drivers registered under one name, a fault in the output-encoding phase, and after any faulted cycle a warm/cold restart followed by 1-3 cycles compared with a fresh runtime (images, bytes given to every driver, variables); round 3: slow-task schedules without a background program (cycles in which no program code runs; which programs ran is read from the task events and the model keeps every output-bound variable), an FB instance nested in an FB instance and a configuration-level FB instance with their own %I/%Q variables; distinct non-trivial = distinct (map shape hash) with >=2 sizes and >=1 overlapping or adjacent pair"
    }
    fn assumptions(&self) -> Vec<&'static str> {
        vec![
            "output spans of different variables do not overlap at byte granularity except distinct bits of one byte (the property does not define a winner for overlapping outputs)",
            "%M-bound variables are latched from and published to the memory image every cycle (observed behaviour; their declared initialiser is therefore not visible) - modelled, not judged",
            "order among drivers within the read phase / write phase is not constrained, only 'each exactly once, reads before any program code, writes after all of it'",
            "debugger one-shot I/O writes and forced I/O are applied to the image after the drivers' read and before latching; forced outputs override program outputs in the published image",
            "on a faulted cycle under safe_halt with an empty safe-state map the delivered image must equal the previously published one on all bound output spans",
        ]
    }
    fn components(&self) -> (Vec<&'static str>, Vec<&'static str>) {
        (
            vec!["compiler (AT bindings, CONFIGURATION)", "Runtime::execute_cycle", "read_cycle_inputs/write_cycle_outputs", "IoInterface read/write/read_inputs/write_outputs", "coerce_from_io/coerce_to_io", "DebugControl io writes and forces", "fault path"],
            vec!["I/O drivers (scripted, logging)", "clock"],
        )
    }

    fn generate(&self, rng: &mut Rng, tier: Tier, _index: u64) -> Json {
        let mut cfg = rng.fork("map");
        let mut o = rng.fork("ops");
        let n_in = cfg.usize(1, 6);
        // output allocation: bytes handed out sequentially; bits packed into shared bytes
        let mut next_byte = cfg.usize(0, 2);
        let mut bit_byte: Option<(usize, u32)> = None;
        let mut alloc = |cfg: &mut Rng, size: &str| -> Option<(usize, u32)> {
            if size == "X" {
                if let Some((b, bit)) = bit_byte {
                    if bit < 8 {
                        bit_byte = Some((b, bit + 1 + cfg.below(2) as u32));
                        return Some((b, bit));
                    }
                }
                if next_byte >= OUT_LEN {
                    return None;
                }
                let b = next_byte;
                next_byte += 1;
                let first = cfg.below(3) as u32;
                bit_byte = Some((b, first + 1));
                Some((b, first))
            } else {
                let w = width(size);
                if cfg.chance(1, 4) {
                    next_byte += cfg.usize(0, 2); // gap: untouched bytes between spans
                }
                if next_byte + w > OUT_LEN {
                    return None;
                }
                let b = next_byte;
                next_byte += w;
                Some((b, 0))
            }
        };
        let mut inputs = vec![];
        for _ in 0..n_in {
            let (size, ty) = *cfg.pick(TYPES);
            let w = width(size).max(1);
            let byte = cfg.usize(0, IN_LEN - w);
            let bit = cfg.below(8);
            let mut outs = vec![];
            let progs: Vec<usize> = match cfg.below(4) {
                0 => vec![0, 2],
                1 => vec![0, 1, 2],
                2 => vec![2],
                _ => vec![0],
            };
            for p in progs {
                if let Some((b, bit)) = alloc(&mut cfg, size) {
                    outs.push(json!([p, b, bit]));
                }
            }
            let pos = if is_arith(ty) && cfg.chance(1, 2) { alloc(&mut cfg, "X").map(|(b, bit)| json!([b, bit])) } else { None };
            inputs.push(json!({"size": size, "ty": ty, "byte": byte, "bit": bit, "global": cfg.chance(1, 4), "outs": outs, "pos": pos}));
        }
        // bit-string outputs written through partial (bit) access, arrays bound to direct addresses
        let mut bitwords = vec![];
        for _ in 0..cfg.usize(0, 2) {
            let (size, ty) = *cfg.pick(&[("B", "BYTE"), ("W", "WORD"), ("W", "WORD"), ("D", "DWORD"), ("L", "LWORD")]);
            if let Some((b, _)) = alloc(&mut cfg, size) {
                let wbits = width(size) as u64 * 8;
                let init = match cfg.below(3) {
                    0 => u64::MAX,
                    1 => 0,
                    _ => cfg.next_u64(),
                };
                let init = if wbits == 64 { init & (u64::MAX >> 1) } else { init & ((1u64 << wbits) - 1) };
                bitwords.push(json!({"size": size, "ty": ty, "byte": b, "bit": cfg.below(wbits.min(63)), "init": init}));
            }
        }
        let mut in_arrays = vec![];
        if cfg.chance(1, 3) {
            let (size, ty) = *cfg.pick(&[("W", "INT"), ("B", "BYTE"), ("W", "UINT")]);
            let len = cfg.range(2, 3);
            in_arrays.push(json!({"size": size, "ty": ty, "byte": cfg.usize(0, 1), "lo": cfg.range(-2, 2), "len": len}));
        }
        let mut out_arrays = vec![];
        for _ in 0..cfg.usize(0, 2) {
            let (size, ty) = match in_arrays.first() {
                Some(a) if cfg.bool() => (a["size"].as_str().unwrap_or("W").to_string(), a["ty"].as_str().unwrap_or("INT").to_string()),
                _ => {
                    let (s_, t_) = *cfg.pick(&[("W", "INT"), ("D", "DINT"), ("W", "WORD"), ("B", "BYTE"), ("W", "UINT")]);
                    (s_.to_string(), t_.to_string())
                }
            };
            let len = cfg.range(2, 4);
            let w = width(&size);
            if next_byte + w * len as usize > OUT_LEN {
                continue;
            }
            let base = next_byte;
            next_byte += w * len as usize;
            bit_byte = None;
            let same_ty_in = in_arrays.first().is_some_and(|a| a["ty"].as_str() == Some(ty.as_str()));
            let in_len = in_arrays.first().and_then(|a| a["len"].as_u64()).unwrap_or(0);
            let maxc: u64 = if w == 1 { 0x7f } else { 0x7fff };
            let elems: Vec<Json> = (0..len)
                .map(|_| if same_ty_in && cfg.chance(1, 3) { json!({"from": cfg.below(in_len.max(1))}) } else { json!({"c": 1 + cfg.below(maxc)}) })
                .collect();
            out_arrays.push(json!({"size": size, "ty": ty, "byte": base, "lo": cfg.range(-2, 3), "len": len, "elems": elems}));
        }
        let prefill: Vec<u64> = (0..OUT_LEN).map(|_| cfg.below(256)).collect();
        let mut extra = rng.fork("extra");
        let event = extra.chance(1, 2) && next_byte <= OUT_LEN - 2;
        let same_names = extra.chance(1, 4);
        let enc = extra.chance(1, 3) && next_byte <= OUT_LEN - 4;
        let mut sr = rng.fork("sched");
        let sched = *sr.pick(&[0u64, 0, 0, 1, 2, 2]);
        let nested = sr.chance(1, 3) && next_byte <= OUT_LEN - 5;
        let enc = enc && sched == 0;
        let n_ops = match tier {
            Tier::Quick => o.usize(3, 25),
            Tier::Thorough => o.usize(5, 60),
        };
        let n_drivers = cfg.usize(1, 3);
        let with_force = o.chance(1, 3);
        let mut ops = vec![];
        for _ in 0..n_ops {
            match o.below(12) {
                0 if with_force => ops.push(json!({"k": "force_in", "i": o.below(n_in as u64), "bits": boundary(&mut o)})),
                1 if with_force => ops.push(json!({"k": "release_in", "i": o.below(n_in as u64)})),
                2 if with_force => ops.push(json!({"k": "force_out", "i": o.below(n_in as u64), "bits": boundary(&mut o)})),
                3 if with_force => ops.push(json!({"k": "release_out", "i": o.below(n_in as u64)})),
                4 => ops.push(json!({"k": "io_write", "i": o.below(n_in as u64), "bits": boundary(&mut o)})),
                5 => {
                    // explicit boundary bytes for the whole input image
                    let bytes: Vec<u64> = (0..IN_LEN).map(|_| *o.pick(&[0u64, 0xff, 0x80, 0x7f, 0x01, 0xfe])).collect();
                    ops.push(json!({"k": "cycle", "in": bytes}));
                }
                _ => ops.push(json!({"k": "cycle"})),
            }
        }
        let mut after = rng.fork("after");
        // a program fault needs its program to run in that very cycle: with slow tasks only driver faults are injected
        let final_fault = match (o.below(8), sched) {
            (0, 1 | 2) => 1,
            (f, _) => f,
        };
        if enc && (final_fault >= 3 || after.bool()) && after.bool() {
            // two cycles with g_div = 20: the first is an ordinary cycle, the second cannot encode its outputs
            ops.push(json!({"k": "cycle", "set_div": 20}));
            ops.push(json!({"k": "cycle", "fault": "enc"}));
        } else {
        match final_fault {
            0 => ops.push(json!({"k": "cycle", "fault": "div", "site": o.below(3)})),
            1 => ops.push(json!({"k": "cycle", "fault": "read_err", "driver": o.below(n_drivers as u64)})),
            2 => ops.push(json!({"k": "cycle", "fault": "write_err", "driver": o.below(n_drivers as u64)})),
            _ => {}
        }
        }
        // what happens after the faulted cycle: restart, then cycles that must look like those of a fresh runtime
        let after_restart = if after.chance(2, 3) {
            let cycles: Vec<Json> = (0..after.usize(1, 3)).map(|_| Json::from((0..IN_LEN).map(|_| *after.pick(&[0u64, 0xff, 0x80, 0x7f, 0x01, 0x40, 0xc0])).collect::<Vec<u64>>())).collect();
            json!({"mode": if after.bool() { "warm" } else { "cold" }, "cycles": cycles})
        } else {
            Json::Null
        };
        json!({
            "enc": enc,
            "sched": sched,
            "nested": nested,
            "after_restart": after_restart,
            "n_drivers": n_drivers,
            "same_names": same_names,
            "event": event,
            "inputs": inputs,
            "mems": cfg.below(4),
            "bitwords": bitwords,
            "in_arrays": in_arrays,
            "out_arrays": out_arrays,
            "prefill": prefill,
            "policy": if cfg.bool() { "halt" } else { "safe_halt" },
            "ops": ops,
        })
    }

    fn run(&self, case: &Json, stats: &mut Stats) -> Result<(), Violation> {
        for p in ["probe.overlapping_inputs", "probe.bit_adjacent_outputs", "probe.forced_input_seen", "probe.forced_output_published", "probe.io_write_latched", "probe.faulted_cycle_checked", "probe.input_changed_between_reads", "probe.bit_cleared_above_set_lower_bits", "probe.array_with_nonzero_lower_bound_bound_to_io", "probe.drivers_share_a_name", "probe.event_task_fired_on_latched_input", "probe.event_trigger_pulse_of_one_cycle", "probe.cycle_after_fault_and_restart_checked", "probe.cycle_without_any_program_code", "probe.nested_fb_instance_io_checked"] {
            stats.add(p, 0);
        }
        let src = source_for(case);
        let mut rt = match guard("compile", || world::compile(&src))? {
            Ok(rt) => rt,
            Err(e) => return Err(Violation::new("harness/compile-rejected", format!("{e}\n{src}"))),
        };
        let inputs = parse_inputs(case);
        let n_mem = case["mems"].as_u64().unwrap_or(0) as usize;
        let n_drivers = case["n_drivers"].as_u64().unwrap_or(1).clamp(1, 3) as usize;
        rt.io_mut().resize(IN_LEN, OUT_LEN, MEM_LEN);
        let prefill: Vec<u8> = (0..OUT_LEN).map(|i| case["prefill"][i].as_u64().unwrap_or(0) as u8).collect();
        rt.io_mut().outputs_mut().copy_from_slice(&prefill);
        let same_names = case["same_names"].as_bool().unwrap_or(false);
        if same_names && n_drivers > 1 {
            stats.inc("probe.drivers_share_a_name");
        }
        let drivers = world::attach_drivers_named(&mut rt, n_drivers, same_names);
        let event = case["event"].as_bool().unwrap_or(false);
        let (mut prev_trig, mut ecnt) = (false, 0u64);
        let sched = case["sched"].as_u64().unwrap_or(0);
        let nested = case["nested"].as_bool().unwrap_or(false);
        // the model's copy of every output-bound variable (published every cycle, changed only when its program runs)
        let mut o_vals: Vec<Vec<u64>> = inputs.iter().map(|v| vec![0; v.outs.len()]).collect();
        let mut pos_vals: Vec<bool> = vec![false; inputs.len()];
        let mut aq_vals: Vec<Vec<u64>> = case["out_arrays"].as_array().cloned().unwrap_or_default().iter().map(|a| vec![0; a["elems"].as_array().map_or(0, Vec::len)]).collect();
        let (mut nq_val, mut gq_val) = (false, false);
        let mut ovf_val = 0u64;
        let debug = rt.enable_debug();
        {
            let mut d = drivers.lock().unwrap();
            d.debug = Some(debug.clone());
            d.churn = true;
        }
        rt.set_fault_policy(if case["policy"] == "safe_halt" { FaultPolicy::SafeHalt } else { FaultPolicy::Halt });

        // map shape / coverage
        let mut shape = Fnv::new();
        let mut sizes = std::collections::BTreeSet::new();
        let mut overlap = false;
        for (i, v) in inputs.iter().enumerate() {
            shape.str(&v.ty).u64(v.byte as u64).u64(u64::from(v.bit)).u64(v.outs.len() as u64);
            sizes.insert(v.size.clone());
            for w in inputs.iter().skip(i + 1) {
                let a = (v.byte, v.byte + width(&v.size).max(1));
                let b = (w.byte, w.byte + width(&w.size).max(1));
                if a.0 < b.1 && b.0 < a.1 || a.1 == b.0 || b.1 == a.0 {
                    overlap = true;
                }
            }
        }
        if overlap {
            stats.inc("probe.overlapping_inputs");
        }
        let out_bits: Vec<usize> = inputs
            .iter()
            .flat_map(|v| {
                let mut x: Vec<usize> = if v.size == "X" { v.outs.iter().map(|o| o.1).collect() } else { vec![] };
                x.extend(v.pos.iter().map(|p| p.0));
                x
            })
            .collect();
        if out_bits.iter().enumerate().any(|(i, b)| out_bits[..i].contains(b)) {
            stats.inc("probe.bit_adjacent_outputs");
        }
        if sizes.len() >= 2 && overlap {
            stats.nontrivial(shape.finish());
        }
        stats.sample(json!({"source": src, "ops": case["ops"].as_array().map(|o| o.iter().take(5).cloned().collect::<Vec<_>>())}));

        // ---- model state
        let mut out_model = prefill.clone();
        let mut mem_model = vec![0u8; MEM_LEN];
        let mut bitword_vals: Vec<u64> = case["bitwords"].as_array().cloned().unwrap_or_default().iter().map(|b| b["init"].as_u64().unwrap_or(0)).collect();
        let mut forced_in: Vec<Option<u64>> = vec![None; inputs.len()];
        let mut forced_out: Vec<Option<u64>> = vec![None; inputs.len()];
        let mut pending_io: Vec<(usize, u64)> = vec![];
        let mut now: i64 = 0;
        let mut last_delivered: Option<Vec<u8>> = None;
        let addr_of = |area: char, size: &str, byte: usize, bit: u32| IoAddress::parse(&addr_text(area, size, byte, bit));

        for (opi, op) in case["ops"].as_array().cloned().unwrap_or_default().iter().enumerate() {
            let i = (op["i"].as_u64().unwrap_or(0) as usize).min(inputs.len().saturating_sub(1));
            let bits = op["bits"].as_u64().unwrap_or(0);
            match op["k"].as_str().unwrap_or("cycle") {
                "force_in" => {
                    let v = &inputs[i];
                    let mask = if v.size == "X" { 1 } else if width(&v.size) == 8 { u64::MAX } else { (1u64 << (8 * width(&v.size))) - 1 };
                    // one forced input at a time (the winner among overlapping forced spans is not
                    // specified): release whatever is forced first, then force
                    for (j, f) in forced_in.iter_mut().enumerate() {
                        if f.is_some() {
                            if let Ok(aj) = addr_of('I', &inputs[j].size, inputs[j].byte, inputs[j].bit) {
                                debug.release_io(&aj);
                            }
                            *f = None;
                        }
                    }
                    if let Ok(a) = addr_of('I', &v.size, v.byte, v.bit) {
                        debug.force_io(a, raw_value(&v.size, bits & mask));
                        forced_in[i] = Some(bits & mask);
                    }
                }
                "release_in" => {
                    let v = &inputs[i];
                    if let Ok(a) = addr_of('I', &v.size, v.byte, v.bit) {
                        debug.release_io(&a);
                        // forces are keyed by address: every model entry on the same address goes
                        for (j, f) in forced_in.iter_mut().enumerate() {
                            if inputs[j].size == v.size && inputs[j].byte == v.byte && (v.size != "X" || inputs[j].bit == v.bit) {
                                *f = None;
                            }
                        }
                    }
                }
                "force_out" => {
                    let v = &inputs[i];
                    if let Some(o) = v.outs.first() {
                        let mask = if v.size == "X" { 1 } else if width(&v.size) == 8 { u64::MAX } else { (1u64 << (8 * width(&v.size))) - 1 };
                        if let Ok(a) = addr_of('Q', &v.size, o.1, o.2) {
                            debug.force_io(a, raw_value(&v.size, bits & mask));
                            forced_out[i] = Some(bits & mask);
                        }
                    }
                }
                "release_out" => {
                    let v = &inputs[i];
                    if let Some(o) = v.outs.first() {
                        if let Ok(a) = addr_of('Q', &v.size, o.1, o.2) {
                            debug.release_io(&a);
                            forced_out[i] = None;
                        }
                    }
                }
                "io_write" => {
                    let v = &inputs[i];
                    let mask = if v.size == "X" { 1 } else if width(&v.size) == 8 { u64::MAX } else { (1u64 << (8 * width(&v.size))) - 1 };
                    if let Ok(a) = addr_of('I', &v.size, v.byte, v.bit) {
                        debug.enqueue_io_write(a, raw_value(&v.size, bits & mask));
                        pending_io.push((i, bits & mask));
                    }
                }
                _ => {
                    now += 10_000_000;
                    stats.sim_time_ns += 10_000_000;
                    rt.set_current_time(Duration::from_nanos(now));
                    let fault = op["fault"].as_str();
                    let fdrv = (op["driver"].as_u64().unwrap_or(0) as usize).min(n_drivers - 1);
                    {
                        let mut d = drivers.lock().unwrap();
                        d.drain_events();
                        d.log.clear();
                        if let Some(bytes) = op["in"].as_array() {
                            // explicit bytes: delivered by driver 0, no churn in this cycle
                            d.churn = false;
                            d.next_input[0] = Some((0, bytes.iter().map(|b| b.as_u64().unwrap_or(0) as u8).collect()));
                        } else {
                            d.churn = true;
                            d.next_input[0] = None;
                        }
                        match fault {
                            Some("read_err") => d.fail_read[fdrv] = true,
                            Some("write_err") => d.fail_write_n[fdrv] = 1,
                            _ => {}
                        }
                    }
                    if fault == Some("div") {
                        let site = op["site"].as_u64().unwrap_or(0).min(2) as i32;
                        rt.storage_mut().set_global("g_div", Value::DInt(site + 10));
                    }
                    if let Some(v) = op["set_div"].as_i64() {
                        rt.storage_mut().set_global("g_div", Value::DInt(v as i32));
                    }
                    let enc_active = case["enc"].as_bool().unwrap_or(false) && matches!(rt.storage().get_global("g_div"), Some(Value::DInt(20)));
                    let res = guard("execute_cycle", || rt.execute_cycle())?;
                    let log: Vec<DriverEvent> = {
                        let mut d = drivers.lock().unwrap();
                        d.drain_events();
                        d.log.clone()
                    };
                    stats.inc("cycles");
                    stats.log(&format!("op{opi}:{}:{:?}", render_log(&log), res.as_ref().err().map(variant_name)));

                    // ---- phase structure
                    let mut reads = vec![0u32; n_drivers];
                    let mut writes = vec![0u32; n_drivers];
                    let mut seen_program = false;
                    let mut seen_write = false;
                    let mut delivered: Option<Vec<u8>> = None;
                    for ev in &log {
                        match ev {
                            DriverEvent::Read { driver, delivered: d, .. } => {
                                reads[*driver] += 1;
                                if seen_program || seen_write {
                                    return Err(Violation::new("phase/read-after-program-start", format!("op {opi}: {}", render_log(&log))));
                                }
                                if let (Some(prev), true) = (&last_delivered, delivered.is_none()) {
                                    if prev != d {
                                        stats.inc("probe.input_changed_between_reads");
                                    }
                                }
                                delivered = Some(d.clone());
                            }
                            DriverEvent::ReadErr { driver } => {
                                reads[*driver] += 1;
                                if seen_program || seen_write {
                                    return Err(Violation::new("phase/read-after-program-start", format!("op {opi}: {}", render_log(&log))));
                                }
                            }
                            DriverEvent::Write { driver, .. } | DriverEvent::WriteErr { driver } => {
                                writes[*driver] += 1;
                                seen_write = true;
                            }
                            DriverEvent::Rt(s) => {
                                if s.starts_with("TaskStart") || s.starts_with("TaskEnd") {
                                    seen_program = true;
                                    if seen_write {
                                        return Err(Violation::new("phase/program-after-write", format!("op {opi}: {}", render_log(&log))));
                                    }
                                }
                            }
                        }
                    }
                    match &res {
                        Ok(()) => {
                            if fault.is_some() {
                                return Err(Violation::new("harness/fault-did-not-fire", format!("op {opi}: {fault:?}")));
                            }
                            if reads.iter().any(|r| *r != 1) || writes.iter().any(|w| *w != 1) {
                                return Err(Violation::new(
                                    "phase/driver-not-called-exactly-once",
                                    format!("op {opi}: reads {reads:?} writes {writes:?}: {}", render_log(&log)),
                                ));
                            }
                        }
                        Err(e) => {
                            let expected = match fault {
                                Some("div") => "DivisionByZero",
                                Some("enc") => "Overflow",
                                Some(_) => "IoDriver",
                                None => "",
                            };
                            if variant_name(e) != expected {
                                return Err(Violation::new(format!("cycle/unexpected-error/{}", variant_name(e)), format!("op {opi}: {e:?}\n{src}")));
                            }
                        }
                    }
                    // ---- latched values
                    let mut in_model = delivered.clone().unwrap_or_else(|| rt.io().inputs().to_vec());
                    // a debugger I/O write still queued when the read failed stays queued (and is applied later)
                    let write_left_queued = fault == Some("read_err") && !pending_io.is_empty();
                    if fault == Some("read_err") {
                        // aborted before latching; nothing else to compare on the input side
                        pending_io.clear();
                    }
                    for (pi, pbits) in pending_io.drain(..) {
                        let v = &inputs[pi];
                        encode(&mut in_model, &v.size, v.byte, v.bit, pbits);
                        stats.inc("probe.io_write_latched");
                    }
                    for (fi, f) in forced_in.iter().enumerate() {
                        if let Some(b) = f {
                            let v = &inputs[fi];
                            encode(&mut in_model, &v.size, v.byte, v.bit, *b);
                            stats.inc("probe.forced_input_seen");
                        }
                    }
                    last_delivered = delivered;
                    if res.is_ok() || fault == Some("write_err") {
                        // which programs ran in this cycle (C06 judges the schedule; here it is an observation)
                        let ran_task = |t: &str| log.iter().any(|e| matches!(e, DriverEvent::Rt(s) if s == &format!("TaskStart:{t}")));
                        let ran = [ran_task("T0"), ran_task("T1"), if sched == 2 { ran_task("T1") } else { true }];
                        if !ran.iter().any(|r| *r) {
                            stats.inc("probe.cycle_without_any_program_code");
                        }
                        // every program copy of every input equals the value decoded from the latched bytes
                        let mut expected_out = out_model.clone();
                        for (ii, v) in inputs.iter().enumerate() {
                            let want = decode(&in_model, &v.size, v.byte, v.bit);
                            let name = if v.global { format!("gin{ii}") } else { format!("in{ii}") };
                            for (oi, o) in v.outs.iter().enumerate() {
                                if !ran[o.0] {
                                    // the program did not run: its variable keeps its value and is published again
                                    encode(&mut expected_out, &v.size, o.1, o.2, o_vals[ii][oi]);
                                    continue;
                                }
                                o_vals[ii][oi] = want;
                                // the variable the program read
                                let got_in = if v.global {
                                    rt.storage().get_global(&name).cloned()
                                } else {
                                    world::instance_var(&rt, PROGS[o.0], &name)
                                };
                                let got_bits = got_in.as_ref().and_then(value_bits);
                                if got_bits != Some(want) {
                                    return Err(Violation::new(
                                        format!("latch/input-variable-differs/{}", v.ty),
                                        format!("op {opi}: {}.{name} = {got_in:?}, latched bytes {in_model:?} decode to {:?} at {}", PROGS[o.0], typed_value(&v.ty, want), addr_text('I', &v.size, v.byte, v.bit)),
                                    ));
                                }
                                let got_out = world::instance_var(&rt, PROGS[o.0], &format!("o{ii}_{oi}"));
                                if got_out.as_ref().and_then(value_bits) != Some(want) {
                                    return Err(Violation::new(
                                        format!("latch/copy-differs/{}", v.ty),
                                        format!("op {opi}: {}.o{ii}_{oi} = {got_out:?}, expected copy of {:?} (input seen by an earlier/later program differs => not latched once)", PROGS[o.0], typed_value(&v.ty, want)),
                                    ));
                                }
                                encode(&mut expected_out, &v.size, o.1, o.2, want);
                            }
                            if let Some((b, bit)) = v.pos {
                                if ran[0] {
                                    pos_vals[ii] = positive(&v.ty, &v.size, want);
                                }
                                encode(&mut expected_out, "X", b, bit, u64::from(pos_vals[ii]));
                            }
                        }
                        if nested {
                            if ran[0] {
                                nq_val = decode(&in_model, "X", 6, 1) == 1;
                                stats.inc("probe.nested_fb_instance_io_checked");
                            }
                            encode(&mut expected_out, "X", OUT_LEN - 5, 2, u64::from(nq_val));
                            if ran[0] {
                                gq_val = decode(&in_model, "X", 6, 2) == 1;
                            }
                            encode(&mut expected_out, "X", OUT_LEN - 5, 4, u64::from(gq_val));
                        }
                        for (fi, f) in forced_out.iter().enumerate() {
                            if let (Some(b), Some(o)) = (f, inputs[fi].outs.first()) {
                                encode(&mut expected_out, &inputs[fi].size, o.1, o.2, *b);
                                stats.inc("probe.forced_output_published");
                            }
                        }
                        for j in 0..n_mem {
                            let cur = decode(&mem_model, "W", 2 * j, 0);
                            encode(&mut mem_model, "W", 2 * j, 0, (cur + u64::from(ran[1])) & 0xffff);
                        }
                        // partial (bit) writes into bit-string outputs: only the addressed bit of the variable changes
                        let pbit = decode(&in_model, "X", 7, 7);
                        for (k, bw) in case["bitwords"].as_array().cloned().unwrap_or_default().iter().enumerate() {
                            let bit = bw["bit"].as_u64().unwrap_or(0);
                            if k < bitword_vals.len() {
                                if !ran[1] {
                                    // unchanged, published again
                                } else if pbit == 1 {
                                    bitword_vals[k] |= 1u64 << bit;
                                } else {
                                    bitword_vals[k] &= !(1u64 << bit);
                                    if (bw["init"].as_u64().unwrap_or(0) & ((1u64 << bit) - 1)) != 0 {
                                        stats.inc("probe.bit_cleared_above_set_lower_bits");
                                    }
                                }
                                encode(&mut expected_out, bw["size"].as_str().unwrap_or("W"), bw["byte"].as_u64().unwrap_or(0) as usize, 0, bitword_vals[k]);
                            }
                        }
                        // arrays bound to a direct address: element j lives at base + j * element size, whatever the lower bound
                        let in_arrays = case["in_arrays"].as_array().cloned().unwrap_or_default();
                        for (ai, a) in case["out_arrays"].as_array().cloned().unwrap_or_default().iter().enumerate() {
                            let size = a["size"].as_str().unwrap_or("W").to_string();
                            let w = width(&size);
                            let base = a["byte"].as_u64().unwrap_or(0) as usize;
                            for (j, e) in a["elems"].as_array().cloned().unwrap_or_default().iter().enumerate() {
                                if ran[1] {
                                    aq_vals[ai][j] = match e["from"].as_u64() {
                                        Some(src_j) if !in_arrays.is_empty() => {
                                            let ib = in_arrays[0]["byte"].as_u64().unwrap_or(0) as usize;
                                            decode(&in_model, &size, ib + src_j as usize * w, 0)
                                        }
                                        _ => e["c"].as_u64().unwrap_or(0),
                                    };
                                }
                                encode(&mut expected_out, &size, base + j * w, 0, aq_vals[ai][j]);
                            }
                            if a["lo"].as_i64().unwrap_or(0) != 0 {
                                stats.inc("probe.array_with_nonzero_lower_bound_bound_to_io");
                            }
                        }
                        // event task on an input-bound SINGLE variable: fires in the cycle whose latched bytes show the rising edge
                        if event {
                            let trig = decode(&in_model, "X", 7, 6) == 1;
                            if trig && !prev_trig {
                                ecnt = (ecnt + 1) & 0xffff;
                                stats.inc("probe.event_task_fired_on_latched_input");
                            }
                            if !trig && prev_trig {
                                stats.inc("probe.event_trigger_pulse_of_one_cycle");
                            }
                            let fired = log.iter().any(|e| matches!(e, DriverEvent::Rt(s) if s == "TaskStart:TE"));
                            if fired != (trig && !prev_trig) {
                                return Err(Violation::new(
                                    "latch/event-task-not-on-latched-input",
                                    format!("op {opi}: latched trigger bit {trig} (previous cycle {prev_trig}) but the event task {} run: {}", if fired { "did" } else { "did not" }, render_log(&log)),
                                ));
                            }
                            prev_trig = trig;
                            encode(&mut expected_out, "W", OUT_LEN - 2, 0, ecnt);
                        }
                        if case["enc"].as_bool().unwrap_or(false) {
                            if enc_active && ran[2] {
                                ovf_val += 20000;
                            }
                            encode(&mut expected_out, "W", OUT_LEN - 4, 0, ovf_val & 0xffff);
                        }
                        // ---- published bytes
                        let image = rt.io().outputs().to_vec();
                        if image != expected_out {
                            return Err(Violation::new(
                                classify_image(&image, &expected_out, &out_model),
                                format!("op {opi}: output image {image:?}, model {expected_out:?} (previous {out_model:?})\n{src}"),
                            ));
                        }
                        for ev in &log {
                            if let DriverEvent::Write { driver, image } = ev {
                                if *image != expected_out {
                                    return Err(Violation::new(
                                        "publish/driver-image-differs",
                                        format!("op {opi}: driver {driver} received {image:?}, model {expected_out:?}"),
                                    ));
                                }
                            }
                        }
                        if rt.io().memory() != mem_model.as_slice() {
                            return Err(Violation::new(
                                "publish/memory-image-differs",
                                format!("op {opi}: memory image {:?}, model {mem_model:?}", rt.io().memory()),
                            ));
                        }
                        out_model = expected_out;
                        let mut sh = Fnv::new();
                        sh.bytes(&in_model);
                        stats.state(sh.finish() % 4096 ^ shape.finish());
                    }
                    if res.is_err() {
                        // ---- faulted cycle: no program-computed outputs reach any driver
                        stats.inc(&format!("fault.{}", fault.unwrap_or("none")));
                        // (an encoding fault has published part of the image by construction of write_outputs; its
                        // root is the open C03 finding, so that cycle's bytes are not judged here)
                        if fault != Some("write_err") && fault != Some("enc") {
                            for ev in &log {
                                if let DriverEvent::Write { driver, image } = ev {
                                    for (ii, v) in inputs.iter().enumerate() {
                                        if forced_out[ii].is_some() {
                                            continue;
                                        }
                                        for o in &v.outs {
                                            if decode(image, &v.size, o.1, o.2) != decode(&out_model, &v.size, o.1, o.2) {
                                                return Err(Violation::new(
                                                    "fault/program-outputs-published",
                                                    format!("op {opi}: faulted cycle delivered {image:?} to driver {driver}; previous published image {out_model:?}"),
                                                ));
                                            }
                                        }
                                    }
                                }
                            }
                            if fault == Some("div") && case["policy"] != "safe_halt" && writes.iter().any(|w| *w != 0) {
                                return Err(Violation::new("fault/driver-written-on-halt", format!("op {opi}: {}", render_log(&log))));
                            }
                        }
                        stats.inc("probe.faulted_cycle_checked");
                        // ---- after the fault: restart, then every cycle must look like that of a fresh runtime
                        let forces_active = forced_in.iter().chain(forced_out.iter()).any(Option::is_some);
                        if !case["after_restart"].is_null() && !forces_active && !write_left_queued {
                            let mode = if case["after_restart"]["mode"] == "warm" { trust_runtime::RestartMode::Warm } else { trust_runtime::RestartMode::Cold };
                            if let Err(e) = guard("restart", || rt.restart(mode))? {
                                return Err(Violation::new("restart/error", format!("{e:?}")));
                            }
                            let mut twin = match guard("compile", || world::compile(&src))? {
                                Ok(t) => t,
                                Err(e) => return Err(Violation::new("harness/compile-rejected", e)),
                            };
                            twin.io_mut().resize(IN_LEN, OUT_LEN, MEM_LEN);
                            let (img, mem) = (rt.io().outputs().to_vec(), rt.io().memory().to_vec());
                            twin.io_mut().outputs_mut().copy_from_slice(&img);
                            twin.io_mut().memory_mut().copy_from_slice(&mem);
                            let twin_drivers = world::attach_drivers_named(&mut twin, n_drivers, same_names);
                            twin.set_fault_policy(if case["policy"] == "safe_halt" { FaultPolicy::SafeHalt } else { FaultPolicy::Halt });
                            let mut t_now = 0i64;
                            for (ci, bytes) in case["after_restart"]["cycles"].as_array().cloned().unwrap_or_default().iter().enumerate() {
                                let b: Vec<u8> = bytes.as_array().into_iter().flatten().map(|x| x.as_u64().unwrap_or(0) as u8).collect();
                                t_now += 10_000_000;
                                let mut results = vec![];
                                for (side, drv) in [(&mut rt, &drivers), (&mut twin, &twin_drivers)] {
                                    {
                                        let mut d = drv.lock().unwrap();
                                        d.churn = false;
                                        d.log.clear();
                                        for i in 0..n_drivers {
                                            d.next_input[i] = None;
                                            d.fail_read[i] = false;
                                            d.fail_write_n[i] = 0;
                                        }
                                        d.next_input[0] = Some((0, b.clone()));
                                    }
                                    side.set_current_time(Duration::from_nanos(t_now));
                                    let r = guard("execute_cycle after restart", || side.execute_cycle())?;
                                    results.push(format!("{:?}", r.err().map(|e| variant_name(&e))));
                                }
                                let writes = |d: &std::sync::Arc<std::sync::Mutex<world::DriverShared>>| -> Vec<(usize, Vec<u8>)> {
                                    d.lock().unwrap().log.iter().filter_map(|e| if let DriverEvent::Write { driver, image } = e.clone() { Some((driver, image)) } else { None }).collect()
                                };
                                let what = if results[0] != results[1] {
                                    Some(format!("cycle result {} vs fresh {}", results[0], results[1]))
                                } else if rt.io().outputs() != twin.io().outputs() {
                                    Some(format!("output image {:?} vs fresh {:?}", rt.io().outputs(), twin.io().outputs()))
                                } else if rt.io().memory() != twin.io().memory() {
                                    Some("memory image differs".to_string())
                                } else if writes(&drivers) != writes(&twin_drivers) {
                                    Some(format!("bytes given to the drivers {:?} vs fresh {:?}", writes(&drivers), writes(&twin_drivers)))
                                } else if world::dump_storage(&rt) != world::dump_storage(&twin) {
                                    Some("variables differ".to_string())
                                } else {
                                    None
                                };
                                if let Some(w) = what {
                                    return Err(Violation::new(
                                        format!("restart/io-differs-from-fresh-runtime/{}", fault.unwrap_or("none")),
                                        format!("cycle {ci} after the {} fault and a {mode:?} restart: {w}\n{src}", fault.unwrap_or("?")),
                                    ));
                                }
                                stats.inc("probe.cycle_after_fault_and_restart_checked");
                            }
                        }
                        return Ok(());
                    }
                }
            }
        }
        Ok(())
    }
}

fn boundary(o: &mut Rng) -> u64 {
    match o.below(6) {
        0 => 0,
        1 => u64::MAX,
        2 => 0x8080_8080_8080_8080,
        3 => 0x7f7f_7f7f_7f7f_7f7f,
        4 => 1,
        _ => o.next_u64(),
    }
}

/// mechanism-level classification of an image mismatch
fn classify_image(real: &[u8], model: &[u8], prev: &[u8]) -> String {
    if real.len() != model.len() {
        return "publish/image-length-differs".to_string();
    }
    // bytes the model leaves untouched but the runtime changed
    for i in 0..real.len() {
        if real[i] != model[i] && model[i] == prev[i] {
            return "publish/byte-outside-span-changed".to_string();
        }
    }
    "publish/encoded-value-differs".to_string()
}
