//! C03 - a variable always holds a value of its declared type (partial).
//!
//! Invariant oracle: after every simulated operation every storage slot with a
//! declared type (program / FB variables through `Runtime::programs()` /
//! `function_blocks()` VarDefs resolved in `Runtime::registry()`; globals by
//! construction of the workload) holds a value whose tag is the declared
//! elementary type and whose magnitude is inside the (sub)range.
//!
//! Two case families: the *typed-assignment matrix* (finite, enumerated: every
//! ordered pair of elementary types x write mechanism) and seeded *histories*
//! (ProgGen programs under cycles, boundary I/O latching, restarts, retain
//! save + power cycle).
use serde_json::{json, Value as Json};

use trust_hir::{Type, TypeId};
use trust_runtime::memory::InstanceId;
use trust_runtime::value::{Duration, Value};
use trust_runtime::Runtime;

use crate::framework::{guard, Check, Stats, Tier, Violation};
use crate::proggen::{self, Knobs};
use crate::rng::{Fnv, Rng};
use crate::world;

pub struct C03Check;
pub static C03: C03Check = C03Check;

const MTYPES: &[&str] = &["SINT", "INT", "DINT", "LINT", "USINT", "UINT", "UDINT", "ULINT", "REAL", "LREAL", "BYTE", "WORD", "DWORD", "LWORD", "TIME", "LTIME"];
const DEBUG_TYPES: &[&str] = &["BOOL", "SINT", "INT", "DINT", "LINT", "USINT", "UINT", "UDINT", "ULINT", "BYTE", "WORD", "DWORD", "LWORD", "REAL", "LREAL", "TIME", "STRING", "DATE"];
/// values sent through the control endpoint: in range, top bit set, just out of range, negative, another kind
const DEBUG_VALUES: &[&str] = &[
    "5", "-1", "127", "128", "-128", "-129", "255", "256", "32767", "32768", "-32769", "65535", "65536", "2147483647", "2147483648", "4294967295", "4294967296", "9223372036854775807", "TRUE",
];

/// does the decimal `v` fit the integer / bit-string type `ty`?
fn fits(ty: &str, v: i128) -> bool {
    let (lo, hi): (i128, i128) = match ty {
        "SINT" => (-128, 127),
        "INT" => (-32768, 32767),
        "DINT" => (-2147483648, 2147483647),
        "LINT" => (i64::MIN as i128, i64::MAX as i128),
        "USINT" | "BYTE" => (0, 255),
        "UINT" | "WORD" => (0, 65535),
        "UDINT" | "DWORD" => (0, 4294967295),
        "ULINT" | "LWORD" => (0, u64::MAX as i128),
        _ => return false,
    };
    (lo..=hi).contains(&v)
}
const MECHS: &[&str] = &[
    "assign", "init", "fb-input", "fb-inout", "func-return", "struct-field", "array-elem", "subrange-assign", "arith-literal", "for-control", "fb-output-read", "for-control-empty", "for-control-exit",
    "subrange-default", "fb-positional-eno", "func-positional-eno", "access-partial", "access-array-struct", "limit-clamp", "func-unbound-output", "char-init",
];

fn lit(ty: &str, v: i64) -> String {
    match ty {
        "REAL" | "LREAL" => format!("{ty}#{v}.0"),
        "BYTE" | "WORD" | "DWORD" | "LWORD" => format!("{ty}#16#{v:X}"),
        "TIME" => format!("T#{v}ms"),
        "LTIME" => format!("LTIME#{v}ms"),
        _ => format!("{ty}#{v}"),
    }
}

/// source of one matrix cell
pub fn matrix_source(mech: &str, dst: &str, src: &str) -> String {
    let s = lit(src, 5);
    let mut out = String::from("TYPE Rng100 : INT (0..100); END_TYPE\n");
    match mech {
        "assign" => out.push_str(&format!("PROGRAM Main\nVAR\n  d : {dst};\n  s : {src} := {s};\nEND_VAR\nd := s;\nEND_PROGRAM\n")),
        "init" => out.push_str(&format!("PROGRAM Main\nVAR\n  d : {dst} := {s};\nEND_VAR\nEND_PROGRAM\n")),
        "fb-input" => out.push_str(&format!(
            "FUNCTION_BLOCK Fb\nVAR_INPUT\n  x : {dst};\nEND_VAR\nEND_FUNCTION_BLOCK\nPROGRAM Main\nVAR\n  fb : Fb;\n  s : {src} := {s};\nEND_VAR\nfb(x := s);\nEND_PROGRAM\n"
        )),
        "fb-inout" => out.push_str(&format!(
            "FUNCTION_BLOCK Fb\nVAR_IN_OUT\n  x : {dst};\nEND_VAR\nVAR\n  s : {src} := {s};\nEND_VAR\nx := s;\nEND_FUNCTION_BLOCK\nPROGRAM Main\nVAR\n  fb : Fb;\n  d : {dst};\nEND_VAR\nfb(x := d);\nEND_PROGRAM\n"
        )),
        "func-return" => out.push_str(&format!(
            "FUNCTION F : {dst}\nVAR_INPUT\n  p : {src};\nEND_VAR\nF := p;\nEND_FUNCTION\nPROGRAM Main\nVAR\n  d : {dst};\n  s : {src} := {s};\nEND_VAR\nd := F(s);\nEND_PROGRAM\n"
        )),
        "struct-field" => out.push_str(&format!(
            "TYPE St : STRUCT f : {dst}; END_STRUCT END_TYPE\nPROGRAM Main\nVAR\n  st : St;\n  s : {src} := {s};\nEND_VAR\nst.f := s;\nEND_PROGRAM\n"
        )),
        "array-elem" => out.push_str(&format!("PROGRAM Main\nVAR\n  a : ARRAY[0..2] OF {dst};\n  s : {src} := {s};\nEND_VAR\na[1] := s;\nEND_PROGRAM\n")),
        "subrange-assign" => out.push_str(&format!("PROGRAM Main\nVAR\n  d : Rng100;\n  s : {src} := {s};\nEND_VAR\nd := s;\nEND_PROGRAM\n")),
        // the remaining mechanisms depend on dst only
        "arith-literal" => out.push_str(&format!("PROGRAM Main\nVAR\n  d : {dst};\nEND_VAR\nd := d + 1;\nEND_PROGRAM\n")),
        "for-control" => out.push_str(&format!("PROGRAM Main\nVAR\n  d : {dst};\n  n : DINT;\nEND_VAR\nFOR d := 0 TO 2 DO\nn := n + 1;\nEND_FOR;\nEND_PROGRAM\n")),
        // loops that end before completing one iteration: only the initial store of the control variable happens
        "for-control-empty" => out.push_str(&format!("PROGRAM Main\nVAR\n  d : {dst};\n  n : DINT;\nEND_VAR\nFOR d := 1 TO 0 DO\nn := n + 1;\nEND_FOR;\nEND_PROGRAM\n")),
        "for-control-exit" => out.push_str(&format!("PROGRAM Main\nVAR\n  d : {dst};\n  n : DINT;\nEND_VAR\nFOR d := 2 TO 5 DO\nEXIT;\nEND_FOR;\nEND_PROGRAM\n")),
        // implicit initial value of subranges that exclude 0 (variable, struct field, array element), also after restarts
        "subrange-default" => {
            let (lo, hi): (i64, i64) = match dst {
                "SINT" => (-8, -2),
                "INT" => (5, 10),
                "DINT" => (-300000, -100000),
                "LINT" => (5_000_000_000, 6_000_000_000),
                "USINT" => (3, 9),
                "UINT" => (100, 200),
                "UDINT" => (70000, 80000),
                _ => (7, 9),
            };
            out.push_str(&format!(
                "TYPE Sub : {dst} ({lo}..{hi}); END_TYPE\nTYPE St : STRUCT f : Sub; g : DINT; END_STRUCT END_TYPE\nPROGRAM Main\nVAR\n  d : Sub;\n  st : St;\n  a : ARRAY[0..2] OF Sub;\n  n : DINT;\nEND_VAR\nn := n + 1;\nEND_PROGRAM\n"
            ));
        }
        // positional calls of POUs that declare EN/ENO themselves: the output after ENO goes to the caller's variable
        "fb-positional-eno" => out.push_str(&format!(
            "FUNCTION_BLOCK Fb\nVAR_INPUT\n  EN : BOOL;\n  a : {src};\nEND_VAR\nVAR_OUTPUT\n  ENO : BOOL;\n  q : {dst};\nEND_VAR\nq := a;\nEND_FUNCTION_BLOCK\nPROGRAM Main\nVAR\n  fb : Fb;\n  s : {src} := {s};\n  d : {dst};\nEND_VAR\nfb(s, d);\nEND_PROGRAM\n"
        )),
        "func-positional-eno" => out.push_str(&format!(
            "FUNCTION F : {src}\nVAR_INPUT\n  EN : BOOL;\n  a : {src};\nEND_VAR\nVAR_OUTPUT\n  ENO : BOOL;\n  q : {dst};\nEND_VAR\nq := {};\nF := a;\nEND_FUNCTION\nPROGRAM Main\nVAR\n  s : {src} := {s};\n  z : {src};\n  d : {dst};\nEND_VAR\nz := F(s, d);\nEND_PROGRAM\n",
            lit(dst, 7)
        )),
        // a program writes through access paths that select a bit / byte / word / dword of a bit-string variable
        "access-partial" => {
            let mut acc = String::from("  Bit3 : P1.d.%X3 : BOOL READ_WRITE;\n");
            let mut body = String::from("Bit3 := TRUE;\n");
            if dst != "BYTE" {
                acc.push_str("  Byte1 : P1.d.%B1 : BYTE READ_WRITE;\n");
                body.push_str("Byte1 := BYTE#16#AB;\n");
            }
            if dst == "DWORD" || dst == "LWORD" {
                acc.push_str("  Word1 : P1.d.%W1 : WORD READ_WRITE;\n");
                body.push_str("Word1 := WORD#16#BEEF;\n");
            }
            if dst == "LWORD" {
                acc.push_str("  Dword1 : P1.d.%D1 : DWORD READ_WRITE;\n");
                body.push_str("Dword1 := DWORD#16#CAFE0001;\n");
            }
            out.push_str(&format!(
                "PROGRAM Main\nVAR\n  d : {dst} := {s};\n  n : INT;\nEND_VAR\nn := n + INT#1;\nIF n = INT#2 THEN\n{body}END_IF;\nEND_PROGRAM\nCONFIGURATION C\nPROGRAM P1 : Main;\nVAR_ACCESS\n{acc}END_VAR\nEND_CONFIGURATION\n"
            ));
        }
        // LIMIT whose bounds have the (narrower) source type and whose input leaves the range: the result has the common type
        "limit-clamp" => out.push_str(&format!(
            "PROGRAM Main\nVAR\n  d : {dst};\n  x : {dst} := {};\n  lo : {src} := {};\n  hi : {src} := {s};\nEND_VAR\nd := LIMIT(lo, x, hi);\nx := {};\nEND_PROGRAM\n",
            lit(dst, 100), lit(src, 1), lit(dst, 0)
        )),
        // a function output the caller does not bind, while the caller owns a variable of the same name and another type
        "func-unbound-output" => out.push_str(&format!(
            "FUNCTION F : DINT\nVAR_OUTPUT\n  rem : {src};\nEND_VAR\nrem := {s};\nF := 1;\nEND_FUNCTION\nPROGRAM Main\nVAR\n  rem : {dst};\n  n : DINT;\nEND_VAR\nn := F();\nEND_PROGRAM\n"
        )),
        // character variables initialised from either quote style (dst picks the combination)
        "char-init" => {
            let (ty, q) = match dst {
                "SINT" => ("CHAR", '\''),
                "INT" => ("CHAR", '"'),
                "DINT" => ("WCHAR", '\''),
                _ => ("WCHAR", '"'),
            };
            out.push_str(&format!(
                "TYPE St : STRUCT f : {ty} := {q}B{q}; END_STRUCT END_TYPE\nPROGRAM Main\nVAR\n  c : {ty} := {q}B{q};\n  st : St;\n  n : DINT;\nEND_VAR\nn := n + 1;\nEND_PROGRAM\n"
            ));
        }
        // access paths that lead through an array element into a struct field (and into an array of arrays)
        "access-array-struct" => out.push_str(&format!(
            "TYPE St : STRUCT f : {dst}; g : DINT; END_STRUCT END_TYPE\nPROGRAM Main\nVAR\n  arr : ARRAY[0..2] OF St;\n  grid : ARRAY[0..1] OF ARRAY[0..1] OF {dst};\n  n : INT;\nEND_VAR\nn := n + INT#1;\nIF n = INT#2 THEN\nAf := {s};\nAg := {s};\nEND_IF;\nEND_PROGRAM\nCONFIGURATION C\nPROGRAM P1 : Main;\nVAR_ACCESS\n  Af : P1.arr[1].f : {dst} READ_WRITE;\n  Ag : P1.grid[1][0] : {dst} READ_WRITE;\nEND_VAR\nEND_CONFIGURATION\n"
        )),
        _ => out.push_str(&format!(
            "FUNCTION_BLOCK Fb\nVAR_OUTPUT\n  y : {src} := {s};\nEND_VAR\nEND_FUNCTION_BLOCK\nPROGRAM Main\nVAR\n  fb : Fb;\n  d : {dst};\nEND_VAR\nfb();\nd := fb.y;\nEND_PROGRAM\n"
        )),
    }
    out
}

fn elementary_tag(ty: &Type) -> Option<&'static str> {
    Some(match ty {
        Type::Bool => "BOOL",
        Type::SInt => "SINT",
        Type::Int => "INT",
        Type::DInt => "DINT",
        Type::LInt => "LINT",
        Type::USInt => "USINT",
        Type::UInt => "UINT",
        Type::UDInt => "UDINT",
        Type::ULInt => "ULINT",
        Type::Real => "REAL",
        Type::LReal => "LREAL",
        Type::Byte => "BYTE",
        Type::Word => "WORD",
        Type::DWord => "DWORD",
        Type::LWord => "LWORD",
        Type::Time => "TIME",
        Type::LTime => "LTIME",
        Type::Date => "DATE",
        Type::LDate => "LDATE",
        Type::Tod => "TOD",
        Type::LTod => "LTOD",
        Type::Dt => "DT",
        Type::Ldt => "LDT",
        Type::String { .. } => "STRING",
        Type::WString { .. } => "WSTRING",
        Type::Char => "CHAR",
        Type::WChar => "WCHAR",
        _ => return None,
    })
}

/// one mismatch: (path, declared, found, kind) with kind in {"tag", "range", "shape"}
type Mismatch = (String, String, String, &'static str);

fn check_slot(rt: &Runtime, path: &str, value: &Value, type_id: TypeId, out: &mut Vec<Mismatch>, depth: usize) {
    if depth > 10 {
        return;
    }
    let reg = rt.registry();
    let Some(ty) = reg.get(type_id) else { return };
    match ty {
        Type::Alias { target, .. } => check_slot(rt, path, value, *target, out, depth + 1),
        Type::Subrange { base, lower, upper } => {
            check_slot(rt, path, value, *base, out, depth + 1);
            if let Some(v) = world::as_i128(value) {
                if v < i128::from(*lower) || v > i128::from(*upper) {
                    out.push((path.to_string(), format!("{lower}..{upper}"), format!("{v}"), "range"));
                }
            }
        }
        Type::Enum { name, values, .. } => match value {
            Value::Enum(e) => {
                if !e.type_name.eq_ignore_ascii_case(name) {
                    out.push((path.to_string(), format!("enum {name}"), format!("enum {}", e.type_name), "tag"));
                } else if !values.iter().any(|(_, n)| *n == e.numeric_value) {
                    out.push((path.to_string(), format!("enum {name}"), format!("{}", e.numeric_value), "range"));
                }
            }
            other => out.push((path.to_string(), format!("enum {name}"), world::tag_name(other).to_string(), "tag")),
        },
        Type::Array { element, dimensions } => match value {
            Value::Array(a) => {
                let want: i64 = dimensions.iter().map(|(lo, hi)| (hi - lo + 1).max(0)).product();
                if a.elements.len() as i64 != want {
                    out.push((path.to_string(), format!("{want} elements"), format!("{} elements", a.elements.len()), "shape"));
                }
                for (i, e) in a.elements.iter().enumerate() {
                    check_slot(rt, &format!("{path}[{i}]"), e, *element, out, depth + 1);
                }
            }
            other => out.push((path.to_string(), "ARRAY".into(), world::tag_name(other).to_string(), "tag")),
        },
        Type::Struct { fields, .. } => match value {
            Value::Struct(s) => {
                for f in fields {
                    match s.fields.get(f.name.as_str()) {
                        Some(v) => check_slot(rt, &format!("{path}.{}", f.name), v, f.type_id, out, depth + 1),
                        None => out.push((format!("{path}.{}", f.name), "field".into(), "missing".into(), "shape")),
                    }
                }
            }
            other => out.push((path.to_string(), "STRUCT".into(), world::tag_name(other).to_string(), "tag")),
        },
        Type::FunctionBlock { name } => match value {
            Value::Instance(id) => check_fb_instance(rt, path, *id, name, out, depth + 1),
            other => out.push((path.to_string(), format!("FB {name}"), world::tag_name(other).to_string(), "tag")),
        },
        other => {
            if let Some(want) = elementary_tag(other) {
                let got = world::tag_name(value);
                if got != want {
                    out.push((path.to_string(), want.to_string(), got.to_string(), "tag"));
                }
            }
        }
    }
}

fn check_fb_instance(rt: &Runtime, path: &str, id: InstanceId, fb_name: &str, out: &mut Vec<Mismatch>, depth: usize) {
    let key = fb_name.to_ascii_uppercase();
    let Some(def) = rt.function_blocks().get(key.as_str()) else { return };
    // standard FBs keep hidden state; only their declared parameters are judged
    let Some(inst) = rt.storage().get_instance(id) else { return };
    for p in &def.params {
        if let Some(v) = inst.variables.get(p.name.as_str()) {
            check_slot(rt, &format!("{path}.{}", p.name), v, p.type_id, out, depth + 1);
        }
    }
    for v in &def.vars {
        if v.external {
            continue;
        }
        if let Some(val) = inst.variables.get(v.name.as_str()) {
            check_slot(rt, &format!("{path}.{}", v.name), val, v.type_id, out, depth + 1);
        }
    }
}

/// walk every program instance against its declarations
pub fn declared_walk(rt: &Runtime) -> Vec<Mismatch> {
    let mut out = vec![];
    for (name, def) in rt.programs() {
        let Some(Value::Instance(id)) = rt.storage().get_global(name.as_str()) else { continue };
        let Some(inst) = rt.storage().get_instance(*id) else { continue };
        for v in &def.vars {
            if v.external {
                continue;
            }
            if let Some(val) = inst.variables.get(v.name.as_str()) {
                check_slot(rt, &format!("{name}.{}", v.name), val, v.type_id, &mut out, 0);
            }
        }
    }
    out
}

fn variant_name(e: &trust_runtime::error::RuntimeError) -> String {
    let t = format!("{e:?}");
    t.split(|c: char| !c.is_alphanumeric()).next().unwrap_or("").to_string()
}

/// class of a slot in a ProgGen program, by naming convention of the generator
fn slot_class(path: &str) -> &'static str {
    let leaf = path.rsplit('.').next().unwrap_or(path);
    let leaf = leaf.split('[').next().unwrap_or(leaf);
    if path.contains(".st0") {
        return "assign";
    }
    if leaf.starts_with("in_") {
        "io-latch"
    } else if leaf.len() == 2 && leaf.starts_with('k') {
        "for-control"
    } else if leaf == "x" || leaf == "go" {
        "fb-input"
    } else {
        "assign"
    }
}

/// a minimal real control endpoint around a runtime's DebugControl (no auth, debug enabled, stub resource)
fn control_state(rt: &mut Runtime) -> (std::sync::Arc<trust_runtime::control::ControlState>, trust_runtime::debug::DebugControl) {
    use indexmap::IndexMap;
    use smol_str::SmolStr;
    use std::sync::atomic::AtomicBool;
    use std::sync::{Arc, Mutex};
    use trust_runtime::control::{ControlState, HmiRuntimeDescriptor, SourceFile, SourceRegistry};
    use trust_runtime::scheduler::{ResourceControl, StdClock};
    use trust_runtime::settings::{BaseSettings, DiscoverySettings, MeshSettings, RuntimeSettings, SimulationSettings, WebSettings};
    let debug = rt.enable_debug();
    let metadata = rt.metadata_snapshot();
    let (resource, _cmd_rx) = ResourceControl::stub(StdClock::new());
    let sources = SourceRegistry::new(vec![SourceFile { id: 1, path: std::path::PathBuf::from("main.st"), text: String::new() }]);
    let hmi_descriptor = Arc::new(Mutex::new(HmiRuntimeDescriptor::from_sources(None, &sources)));
    let settings = RuntimeSettings::new(
        BaseSettings {
            log_level: SmolStr::new("info"),
            watchdog: trust_runtime::watchdog::WatchdogPolicy::default(),
            fault_policy: trust_runtime::watchdog::FaultPolicy::Halt,
            retain_mode: trust_runtime::watchdog::RetainMode::None,
            retain_save_interval: None,
        },
        WebSettings { enabled: false, listen: SmolStr::new("127.0.0.1:0"), auth: SmolStr::new("local"), tls: false },
        DiscoverySettings { enabled: false, service_name: SmolStr::new("truST"), advertise: false, interfaces: Vec::new() },
        MeshSettings { enabled: false, listen: SmolStr::new("127.0.0.1:0"), tls: false, auth_token: None, publish: Vec::new(), subscribe: IndexMap::new() },
        SimulationSettings { enabled: false, time_scale: 1, mode_label: SmolStr::new("production"), warning: SmolStr::new("") },
    );
    let state = ControlState {
        debug: debug.clone(),
        resource,
        metadata: Arc::new(Mutex::new(metadata)),
        sources,
        io_snapshot: Arc::new(Mutex::new(None)),
        pending_restart: Arc::new(Mutex::new(None)),
        auth_token: Arc::new(Mutex::new(None)),
        control_requires_auth: false,
        control_mode: Arc::new(Mutex::new(trust_runtime::config::ControlMode::Debug)),
        audit_tx: None,
        metrics: Arc::new(Mutex::new(trust_runtime::metrics::RuntimeMetrics::default())),
        events: Arc::new(Mutex::new(std::collections::VecDeque::new())),
        settings: Arc::new(Mutex::new(settings)),
        project_root: None,
        resource_name: SmolStr::new("RES"),
        io_health: Arc::new(Mutex::new(Vec::new())),
        debug_enabled: Arc::new(AtomicBool::new(true)),
        debug_variables: Arc::new(Mutex::new(trust_runtime::debug::DebugVariableHandles::new())),
        hmi_live: Arc::new(Mutex::new(trust_runtime::hmi::HmiLiveState::default())),
        hmi_descriptor,
        historian: None,
        pairing: None,
    };
    (Arc::new(state), debug)
}

impl C03Check {
    /// debugger writes through the real control endpoint (hook H7): `set` (one-shot) and `var.force`
    fn run_debugger(&self, case: &Json, stats: &mut Stats) -> Result<(), Violation> {
        let ty = case["ty"].as_str().unwrap_or("INT");
        let request = case["request"].as_str().unwrap_or("var.force");
        let init = match ty {
            "BOOL" => "FALSE".to_string(),
            "STRING" => "'a'".to_string(),
            "DATE" => "D#2020-01-02".to_string(),
            _ => lit(ty, 1),
        };
        let source = format!("CONFIGURATION C\nVAR_GLOBAL\n  g : {ty} := {init};\n  n : DINT;\nEND_VAR\nPROGRAM P0 : Main;\nEND_CONFIGURATION\nPROGRAM Main\nVAR_EXTERNAL\n  n : DINT;\nEND_VAR\nn := n + 1;\nEND_PROGRAM\n");
        let mut rt = match guard("compile", || world::compile(&source))? {
            Ok(rt) => rt,
            Err(e) => return Err(Violation::new("harness/compile-rejected", format!("{e}\n{source}"))),
        };
        let global_tags = world::tag_walk(&rt).into_iter().filter(|(p, _)| !p.contains('.')).collect::<Vec<_>>();
        let (state, _debug) = control_state(&mut rt);
        let value = case["value"].as_str().unwrap_or(if ty == "BOOL" { "TRUE" } else { "5" });
        let line = json!({"id": 1, "type": request, "params": {"target": "global:g", "value": value}}).to_string();
        let reply = guard("control request", || trust_runtime::control::verif_handle_request_line(&line, &state, Some("sim")))?;
        let reply_json: Json = reply.as_deref().and_then(|r| serde_json::from_str(r).ok()).unwrap_or(Json::Null);
        stats.log(&format!("{request}:{ty}:{}", reply_json["ok"]));
        if reply_json["ok"] != true {
            // a refusal changes nothing and is fine
            stats.inc("debugger.request_refused");
            return Ok(());
        }
        stats.inc("debugger.request_accepted");
        let mut h = Fnv::new();
        h.str(request).str(ty).str(value);
        stats.nontrivial(h.finish());
        let in_range = value.parse::<i128>().is_ok_and(|v| fits(ty, v));
        stats.inc(if in_range { "debugger.value_in_range" } else { "fault.debugger_value_not_representable" });
        for cycle in 0..2 {
            rt.set_current_time(Duration::from_nanos((cycle + 1) * 10_000_000));
            if guard("execute_cycle", || rt.execute_cycle())?.is_err() {
                return Ok(());
            }
            if let Some((path, want, got)) = world::tag_drift(&rt, &global_tags).first() {
                let kind = if request == "set" { "debugger-write" } else { "debugger-force" };
                return Err(Violation::new(
                    format!("tag/{kind}/{}", if !in_range && case["value"].is_string() { "not-representable" } else if *want == "LINT" { "same-type" } else { "mixed-type" }),
                    format!("{request} global:g := {value} through the control endpoint: {path} declared {want} holds {got} after cycle {cycle}"),
                ));
            }
        }
        Ok(())
    }

    fn matrix_cells() -> Vec<(usize, usize, usize)> {
        let mut cells = vec![];
        for (mi, mech) in MECHS.iter().enumerate() {
            for di in 0..MTYPES.len() {
                if *mech == "subrange-default" {
                    // integer rows only
                    if di < 8 {
                        cells.push((mi, di, di));
                    }
                    continue;
                }
                if matches!(*mech, "arith-literal" | "for-control" | "for-control-empty" | "for-control-exit" | "fb-positional-eno" | "func-positional-eno" | "access-array-struct") {
                    cells.push((mi, di, di));
                    continue;
                }
                if *mech == "char-init" {
                    // four combinations of (CHAR | WCHAR) x (single | double quotes), carried by the first four rows
                    if di < 4 {
                        cells.push((mi, di, di));
                    }
                    continue;
                }
                if *mech == "access-partial" {
                    // bit-string rows only
                    if (10..14).contains(&di) {
                        cells.push((mi, di, di));
                    }
                    continue;
                }
                for si in 0..MTYPES.len() {
                    // the subrange type is a subrange of INT: one row, labelled INT
                    if *mech == "subrange-assign" && di != 1 {
                        continue;
                    }
                    cells.push((mi, di, si));
                }
            }
        }
        cells
    }

    fn run_matrix(&self, case: &Json, stats: &mut Stats) -> Result<(), Violation> {
        let mech = case["mech"].as_str().unwrap_or("assign");
        let dst = case["dst"].as_str().unwrap_or("INT");
        let src = case["src"].as_str().unwrap_or("INT");
        let source = matrix_source(mech, dst, src);
        let mut rt = match guard("compile", || world::compile(&source))? {
            Ok(rt) => rt,
            Err(_) => {
                stats.inc("matrix.rejected_by_checker");
                return Ok(());
            }
        };
        stats.inc("matrix.accepted");
        stats.inc(&format!("matrix.accepted.{mech}"));
        let mut h = Fnv::new();
        h.str(mech).str(dst).str(src);
        stats.nontrivial(h.finish());
        if stats.samples.is_empty() {
            stats.sample(json!({"matrix_cell": case, "source": source}));
        }
        let class = if matches!(mech, "arith-literal" | "for-control" | "for-control-empty" | "for-control-exit" | "subrange-default" | "char-init") {
            "literal"
        } else if dst == src {
            "same-type"
        } else {
            "mixed-type"
        };
        for cycle in 0..2 {
            let bad = declared_walk(&rt);
            if let Some((path, want, got, kind)) = bad.first() {
                let when = if cycle == 0 { "after build".to_string() } else { format!("after cycle {cycle}") };
                let m = if cycle == 0 { "init" } else { mech };
                return Err(Violation::new(
                    format!("{kind}/{m}/{class}"),
                    format!("{mech} {dst}<-{src} {when}: {path} declared {want} holds {got}\n{source}"),
                ));
            }
            rt.set_current_time(Duration::from_nanos((cycle + 1) * 10_000_000));
            let r = guard("execute_cycle", || rt.execute_cycle())?;
            stats.log(&format!("{mech}:{dst}:{src}:{:?}", r.as_ref().err().map(variant_name)));
            if r.is_err() {
                // value-dependent faults (e.g. Overflow when narrowing) are C01's subject
                return Ok(());
            }
        }
        let bad = declared_walk(&rt);
        if let Some((path, want, got, kind)) = bad.first() {
            return Err(Violation::new(
                format!("{kind}/{mech}/{class}"),
                format!("{mech} {dst}<-{src} after 2 cycles: {path} declared {want} holds {got}\n{source}"),
            ));
        }
        if mech == "access-partial" {
            // the same selectors written from outside (Runtime::write_access)
            for (name, v) in [("Bit3", Value::Bool(false)), ("Byte1", Value::Byte(0x5A)), ("Word1", Value::Word(0x1234)), ("Dword1", Value::DWord(0x89AB_CDEF))] {
                if guard("write_access", || rt.write_access(name, v.clone()))?.is_ok() {
                    stats.inc("matrix.partial_access_written_from_outside");
                }
                if let Some((path, want, got, kind)) = declared_walk(&rt).first() {
                    return Err(Violation::new(format!("{kind}/access-partial-external/{class}"), format!("write_access({name}) on {dst}: {path} declared {want} holds {got}\n{source}")));
                }
            }
        }
        if mech == "access-array-struct" {
            // the same paths written from outside (Runtime::write_access) with a value read back through them
            for name in ["Af", "Ag"] {
                if let Some(v) = guard("read_access", || rt.read_access(name))? {
                    if guard("write_access", || rt.write_access(name, v.clone()))?.is_ok() {
                        stats.inc("matrix.array_struct_access_written_from_outside");
                    }
                }
                if let Some((path, want, got, kind)) = declared_walk(&rt).first() {
                    return Err(Violation::new(format!("{kind}/access-array-struct-external/{class}"), format!("write_access({name}) on {dst}: {path} declared {want} holds {got}\n{source}")));
                }
            }
        }
        if mech == "subrange-default" {
            for mode in [trust_runtime::RestartMode::Cold, trust_runtime::RestartMode::Warm] {
                if guard("restart", || rt.restart(mode))?.is_err() {
                    return Ok(());
                }
                if let Some((path, want, got, kind)) = declared_walk(&rt).first() {
                    return Err(Violation::new(
                        format!("{kind}/restart/{class}"),
                        format!("{mech} {dst} after a {mode:?} restart: {path} declared {want} holds {got}\n{source}"),
                    ));
                }
            }
        }
        Ok(())
    }

    fn run_history(&self, case: &Json, stats: &mut Stats) -> Result<(), Violation> {
        let src = proggen::render(&case["project"]);
        let mut rt = match guard("compile", || world::compile(&src))? {
            Ok(rt) => rt,
            Err(_) => {
                stats.inc("history.rejected_by_compiler");
                return Ok(());
            }
        };
        stats.inc("history.accepted");
        rt.io_mut().resize(proggen::INPUT_LEN, 8, 0);
        let store = world::SimRetainStore::new();
        {
            // the durable copy goes through the real codec and a real file (FileRetainStore)
            let dir = crate::framework::scratch_dir().join(format!("c03-{}", std::process::id()));
            let _ = std::fs::create_dir_all(&dir);
            let path = dir.join("retain.bin");
            let _ = std::fs::remove_file(&path);
            store.0.lock().unwrap().via_file = Some(path);
        }
        rt.set_retain_store(Some(Box::new(store.clone())), None);
        let global_tags = world::tag_walk(&rt).into_iter().filter(|(p, _)| !p.contains('.')).collect::<Vec<_>>();
        let mut ph = Fnv::new();
        ph.str(&src);
        let mut now = 0i64;
        // slots already reported as drifted are tainted until a later walk finds them healthy again
        let mut tainted: std::collections::BTreeSet<String> = Default::default();
        let mut first: Option<Violation> = None;
        let ops = case["ops"].as_array().cloned().unwrap_or_default();
        for (opi, op) in ops.iter().enumerate() {
            let kind = op["k"].as_str().unwrap_or("cycle");
            match kind {
                "restart" => {
                    let mode = if op["mode"] == "warm" { trust_runtime::RestartMode::Warm } else { trust_runtime::RestartMode::Cold };
                    if guard("restart", || rt.restart(mode))?.is_err() {
                        return Ok(());
                    }
                    now = 0;
                    stats.inc("fault.restart");
                }
                "power_cycle" => {
                    if guard("save", || rt.save_retain_store())?.is_err() {
                        return Ok(());
                    }
                    let mut fresh = match world::compile(&src) {
                        Ok(f) => f,
                        Err(_) => return Ok(()),
                    };
                    fresh.io_mut().resize(proggen::INPUT_LEN, 8, 0);
                    fresh.set_retain_store(Some(Box::new(store.clone())), None);
                    if guard("load", || fresh.load_retain_store())?.is_err() {
                        return Ok(());
                    }
                    rt = fresh;
                    now = 0;
                    stats.inc("fault.power_cycle");
                }
                _ => {
                    now += op["dt"].as_i64().unwrap_or(10_000_000).max(0);
                    stats.sim_time_ns += op["dt"].as_i64().unwrap_or(0).max(0) as u128;
                    if let Some(bytes) = op["in"].as_array() {
                        if bytes.len() == proggen::INPUT_LEN {
                            let b: Vec<u8> = bytes.iter().map(|x| x.as_u64().unwrap_or(0) as u8).collect();
                            rt.io_mut().inputs_mut().copy_from_slice(&b);
                        }
                    }
                    rt.set_current_time(Duration::from_nanos(now));
                    let r = guard("execute_cycle", || rt.execute_cycle())?;
                    if r.is_err() {
                        rt.clear_fault();
                        stats.inc("fault.value_fault_then_continue");
                    }
                    stats.inc("cycles");
                }
            }
            // ---- invariant
            let mut bad = declared_walk(&rt);
            for (p, want, got) in world::tag_drift(&rt, &global_tags) {
                bad.push((p, want.to_string(), got.to_string(), "tag"));
            }
            let now_bad: std::collections::BTreeSet<String> = bad.iter().map(|b| b.0.clone()).collect();
            tainted.retain(|p| now_bad.contains(p));
            stats.log(&format!("op{opi}:{kind}:{}", bad.len()));
            for (path, want, got, k) in bad {
                if tainted.contains(&path) {
                    continue;
                }
                tainted.insert(path.clone());
                let mechanism = match kind {
                    "restart" | "power_cycle" => kind.replace('_', "-"),
                    _ => slot_class(&path).to_string(),
                };
                stats.inc(&format!("drift.{mechanism}"));
                if first.is_none() || (mechanism != "assign" && first.as_ref().is_some_and(|v| v.signature.contains("/assign/"))) {
                    // prefer reporting a mechanism other than the pervasive plain-assignment drift
                    first = Some(Violation::new(
                        format!("{k}/{mechanism}/history"),
                        format!("op {opi} ({kind}): {path} declared {want} holds {got}"),
                    ));
                }
            }
            let mut sh = Fnv::new();
            sh.u64(ph.finish()).u64(now_bad.len() as u64).str(kind);
            stats.state(sh.finish());
        }
        match first {
            Some(v) => Err(v),
            None => Ok(()),
        }
    }
}

impl Check for C03Check {
    fn id(&self) -> &'static str {
        "C03"
    }
    fn cases(&self, tier: Tier) -> u64 {
        let m = Self::matrix_cells().len() as u64 + (DEBUG_TYPES.len() * DEBUG_VALUES.len()) as u64 * 2;
        match tier {
            Tier::Quick => m + 1_500,
            Tier::Thorough => m + 30_000,
        }
    }
    fn rule(&self) -> &'static str {
        "cases 0..N-1 enumerate the typed-assignment matrix completely: 21 write mechanisms (assign, initialiser, FB input, FB in-out, function return, struct field, array element, subrange, arithmetic with an untyped literal, FOR control incl. loops that end before an iteration completes, FB output read, implicit initial values of subranges excluding 0 incl. restarts, positional calls of FBs and functions that declare EN/ENO themselves, program writes and external write_access through partial %X/%B/%W/%D access paths and through array elements into struct fields, LIMIT with narrower bounds, unbound function outputs next to a same-named caller variable, CHAR / WCHAR initialisers in both quote styles) x every ordered pair of 16 elementary numeric/bit/duration types (cells the checker rejects are counted and skipped); then debugger writes through the real control endpoint: `set` and `var.force` x 18 variable types x 19 values (in range, top bit set, just out of range, negative, TRUE); the remaining cases are seeded histories of ProgGen programs under cycles with boundary %I images, value faults + continue, warm/cold restarts and save + power cycle; after EVERY operation every program / FB / struct / array slot is compared with its declaration (VarDef.type_id resolved in the type registry, subranges and enums range-checked) and every global with its build-time tag; distinct non-trivial = distinct accepted matrix cells + distinct (program hash) histories"
    }
    fn assumptions(&self) -> Vec<&'static str> {
        vec![
            "globals have no declared-type accessor: their build-time tag (initialisers are coerced at compile time) is the reference",
            "hidden state of standard FBs is not judged, only declared parameters and variables",
            "debugger writes go through the real control endpoint (`set` and `var.force` requests on a global of 18 elementary types with 19 boundary values each, hook H7); the DAP adapter's own setVariable path is not run",
            "drift is attributed to the operation and, by ProgGen's naming scheme, to the slot class that was written (in_* = I/O latch, k* = FOR control, x/go = FB input, else assignment)",
        ]
    }
    fn components(&self) -> (Vec<&'static str>, Vec<&'static str>) {
        (
            vec!["type checker (acceptance of each matrix cell)", "initialiser coercion", "interpreter write paths (assign, lvalue, parameter binding, FOR control)", "I/O latching coerce_from_io", "restart", "retain snapshot save/load"],
            vec!["clock", "%I image", "retain store (in-memory)"],
        )
    }

    fn generate(&self, rng: &mut Rng, tier: Tier, index: u64) -> Json {
        let cells = Self::matrix_cells();
        if (index as usize) < cells.len() {
            let (mi, di, si) = cells[index as usize];
            return json!({"kind": "matrix", "mech": MECHS[mi], "dst": MTYPES[di], "src": MTYPES[si]});
        }
        let dbg = index as usize - cells.len();
        if dbg < DEBUG_TYPES.len() * DEBUG_VALUES.len() * 2 {
            let (t, v) = ((dbg / 2) / DEBUG_VALUES.len(), (dbg / 2) % DEBUG_VALUES.len());
            return json!({"kind": "debugger", "ty": DEBUG_TYPES[t], "value": DEBUG_VALUES[v], "request": if dbg % 2 == 0 { "set" } else { "var.force" }});
        }
        let mut kr = rng.fork("knobs");
        let mut pr = rng.fork("project");
        let mut or = rng.fork("ops");
        let mut knobs = Knobs::swarm(&mut kr);
        // steer away from the pervasive open finding (plain widening assignment) in 80 % of the runs
        knobs.widening = kr.chance(1, 5);
        let size = (pr.usize(0, 2), pr.usize(0, 2), pr.usize(1, 2));
        let project = proggen::gen_project(&mut pr, knobs, size);
        let n_ops = match tier {
            Tier::Quick => or.usize(3, 10),
            Tier::Thorough => or.usize(5, 25),
        };
        let mut ops = vec![];
        for _ in 0..n_ops {
            match or.below(10) {
                0 => ops.push(json!({"k": "restart", "mode": if or.bool() { "warm" } else { "cold" }})),
                1 => ops.push(json!({"k": "power_cycle"})),
                _ => ops.push(json!({"k": "cycle", "dt": 10_000_000, "in": crate::checks::c01::gen_inputs(&mut or)})),
            }
        }
        json!({"kind": "history", "project": project, "ops": ops})
    }

    fn shrink(&self, case: &Json) -> Vec<Json> {
        if case["kind"] == "matrix" || case["kind"] == "debugger" {
            return vec![];
        }
        let mut out = crate::framework::shrink_generic(case);
        for p in proggen::shrink_project(&case["project"]) {
            let mut c = case.clone();
            c["project"] = p;
            out.push(c);
        }
        out
    }

    fn run(&self, case: &Json, stats: &mut Stats) -> Result<(), Violation> {
        if case["kind"] == "matrix" {
            self.run_matrix(case, stats)
        } else if case["kind"] == "debugger" {
            self.run_debugger(case, stats)
        } else {
            self.run_history(case, stats)
        }
    }
}
