//! C19B - the lost-update half of C19 under thread interleavings (engine B).
//!
//! k editor sessions run as simulated threads over ONE real `WebIdeState`
//! (its state lock is a scheduler-owned mutex through hook H6a) on a real
//! temporary project: each repeatedly opens the same file and writes unique
//! content based on the version it saw, retrying after a conflict.  The
//! scheduler decides every interleaving at the lock operations inside the API
//! calls.  Oracle over the recorded acknowledgements: the successful writes
//! form a chain (each was based on the version the previous one produced), and
//! the file on disk equals the content of the last successful write.
use std::sync::{Arc, Mutex};

use serde_json::{json, Value as Json};

use trust_runtime::web::ide::{IdeRole, WebIdeState};

use crate::engine_b::{self, guard_in_task, Outcome, SchedSpec, SharedObs};
use crate::framework::{scratch_dir, Check, Stats, Tier, Violation};
use crate::rng::{Fnv, Rng};

pub struct C19BCheck;
pub static C19B: C19BCheck = C19BCheck;

const MAX_STEPS: usize = 400_000;

#[derive(Debug, Clone)]
struct Ack {
    session: usize,
    expected: u64,
    version: u64,
    content: String,
    /// the content the session had last been shown (by its latest open, or its own previous acknowledged write)
    basis: String,
}

fn next_dir() -> std::path::PathBuf {
    static N: std::sync::atomic::AtomicU64 = std::sync::atomic::AtomicU64::new(0);
    let n = N.fetch_add(1, std::sync::atomic::Ordering::SeqCst);
    scratch_dir().join(format!("c19b-{}-{n}", std::process::id()))
}

impl Check for C19BCheck {
    fn id(&self) -> &'static str {
        "C19B"
    }
    fn property(&self) -> &'static str {
        "C19"
    }
    fn cases(&self, tier: Tier) -> u64 {
        match tier {
            Tier::Quick => 6_000,
            Tier::Thorough => 150_000,
        }
    }
    fn hang_limit_s(&self) -> u64 {
        60
    }
    fn rule(&self) -> &'static str {
        "case = 2-4 editor sessions as simulated threads over one real WebIdeState and one real project file, each doing 1-4 rounds of open -> apply_source(expected = version seen, unique content) with re-open + retry after a refusal (a refusal is also injected by a session deliberately using a stale version), under a seeded random or PCT-like schedule that decides every interleaving at the state-lock operations inside the API calls; distinct non-trivial = distinct observable interleavings (hash of the ordered acknowledgement/refusal events) with >= 2 sessions acknowledged or >= 1 conflict"
    }
    fn assumptions(&self) -> Vec<&'static str> {
        vec![
            "no external modification and no delete/rename in this scenario; versions are monotone, so ordering the acknowledged writes by the version they produced is their linearisation order; each must have been made by a session that had last been shown the content of the write before it (version numbers themselves may jump through disk re-syncs)",
            "file-system calls are real and not scheduling points; the interleaving points are the lock operations of WebIdeState (hook H6a)",
        ]
    }
    fn components(&self) -> (Vec<&'static str>, Vec<&'static str>) {
        (
            vec!["WebIdeState::create_session/open_source/apply_source", "IdeStateInner documents/versions under the state lock", "real files in a scratch project"],
            vec!["OS threads (scheduler-owned coroutines)", "session clock", "HTTP layer"],
        )
    }

    fn generate(&self, rng: &mut Rng, _tier: Tier, _index: u64) -> Json {
        let mut c = rng.fork("cfg");
        let mut sch = rng.fork("sched");
        let k = c.usize(2, 4);
        let sessions: Vec<Json> = (0..k)
            .map(|_| json!({"rounds": c.usize(1, 4), "retries": c.usize(0, 3), "stale_first": c.chance(1, 5), "reopen_between": c.bool()}))
            .collect();
        json!({"sessions": sessions, "sched": SchedSpec::generate(&mut sch).to_json()})
    }

    fn shrink(&self, case: &Json) -> Vec<Json> {
        let mut out = vec![];
        let spec = SchedSpec::from_json(&case["sched"]);
        for cand in crate::framework::shrink_generic(case) {
            if cand["sessions"].as_array().map_or(0, Vec::len) < 2 {
                continue;
            }
            out.push(cand.clone());
            for k in 1..=2 {
                let mut alt = cand.clone();
                alt["sched"] = spec.reseeded(k).to_json();
                out.push(alt);
            }
        }
        out
    }

    fn run(&self, case: &Json, stats: &mut Stats) -> Result<(), Violation> {
        for p in ["probe.conflict_refused", "probe.two_sessions_acknowledged", "probe.retry_acknowledged_after_conflict"] {
            stats.add(p, 0);
        }
        let spec = SchedSpec::from_json(&case["sched"]);
        let sessions = case["sessions"].as_array().cloned().unwrap_or_default();
        if sessions.len() < 2 {
            return Ok(());
        }
        let root = next_dir();
        let _ = std::fs::remove_dir_all(&root);
        std::fs::create_dir_all(&root).map_err(|e| Violation::new("harness/io", e.to_string()))?;
        let file = root.join("main.st");
        std::fs::write(&file, "PROGRAM Main\nEND_PROGRAM\n(* v0 *)\n").map_err(|e| Violation::new("harness/io", e.to_string()))?;

        let acks: Arc<Mutex<Vec<Ack>>> = Arc::new(Mutex::new(vec![]));
        let refusals: Arc<Mutex<u64>> = Arc::new(Mutex::new(0));
        let obs = SharedObs::new();
        let (acks2, refusals2, obs2, root2, sessions2) = (acks.clone(), refusals.clone(), obs.clone(), root.clone(), sessions.clone());
        let report = engine_b::run_execution(&spec, MAX_STEPS, move || {
            let obs = obs2;
            // the state (and its scheduler-owned lock) lives inside the execution
            let ide = Arc::new(WebIdeState::verif_with_clock(Some(root2), Arc::new(|| 1_000u64)));
            let mut tokens = vec![];
            for _ in 0..sessions2.len() {
                match guard_in_task("create_session", || ide.create_session(IdeRole::Editor)) {
                    Ok(Ok(s)) => tokens.push(s.token),
                    Ok(Err(e)) => {
                        obs.violate(Violation::new("harness/create-session", format!("{e:?}")));
                        return;
                    }
                    Err(v) => {
                        obs.violate(v);
                        return;
                    }
                }
            }
            let mut handles = vec![];
            for (i, spec) in sessions2.iter().enumerate() {
                let (ide, token, acks, refusals, obs) = (ide.clone(), tokens[i].clone(), acks2.clone(), refusals2.clone(), obs.clone());
                let rounds = spec["rounds"].as_u64().unwrap_or(1);
                let retries = spec["retries"].as_u64().unwrap_or(0);
                let stale_first = spec["stale_first"].as_bool().unwrap_or(false);
                let reopen_between = spec["reopen_between"].as_bool().unwrap_or(true);
                handles.push(verif_hooks::sync_std::thread::spawn(move || {
                    let mut seen: Option<u64> = None;
                    let mut basis = String::new();
                    for round in 0..rounds {
                        let mut attempt = 0;
                        loop {
                            if seen.is_none() || reopen_between || attempt > 0 {
                                match ide.open_source(&token, "main.st") {
                                    Ok(snap) => {
                                        seen = Some(snap.version);
                                        basis = snap.content;
                                    }
                                    Err(e) => {
                                        obs.violate(Violation::new("harness/open-failed", format!("{e:?}")));
                                        return;
                                    }
                                }
                            }
                            let mut expected = seen.unwrap_or(0);
                            if stale_first && round == 0 && attempt == 0 && expected > 0 {
                                expected -= 1; // deliberately stale: must be refused
                            }
                            let content = format!("PROGRAM Main\nEND_PROGRAM\n(* s{i} r{round} a{attempt} *)\n");
                            match ide.apply_source(&token, "main.st", expected, content.clone(), true) {
                                Ok(res) => {
                                    acks.lock().unwrap_or_else(|e| e.into_inner()).push(Ack { session: i, expected, version: res.version, content: content.clone(), basis: basis.clone() });
                                    basis = content;
                                    obs.ev(format!("ack s{i} {expected}->{}", res.version));
                                    seen = Some(res.version);
                                    break;
                                }
                                Err(_) => {
                                    *refusals.lock().unwrap_or_else(|e| e.into_inner()) += 1;
                                    obs.ev(format!("refused s{i} {expected}"));
                                    attempt += 1;
                                    if attempt > retries {
                                        break;
                                    }
                                }
                            }
                        }
                    }
                }));
            }
            for h in handles {
                let _ = h.join();
            }
        });
        engine_b::feed_stats(stats, &obs, &report);
        stats.inc(&format!("scheduler.{}", spec.kind));
        let result = (|| {
            if let Some(v) = obs.0.lock().unwrap_or_else(|e| e.into_inner()).violation.clone() {
                return Err(v);
            }
            match &report.outcome {
                Outcome::Completed => {}
                Outcome::Deadlock(m) => return Err(Violation::new("wedged/deadlock", m.chars().take(200).collect::<String>())),
                Outcome::StepBound => return Err(Violation::new("wedged/step-bound", "the sessions did not finish within the step bound".to_string())),
                Outcome::Panic { location, message } => {
                    if engine_b::is_harness_location(location) {
                        return Err(Violation::new("harness/panic", format!("{location}: {message}")));
                    }
                    return Err(Violation::new(engine_b::panic_signature(location, message), format!("panic at {location}: {message}")));
                }
            }
            let mut acks = acks.lock().unwrap_or_else(|e| e.into_inner()).clone();
            let refused = *refusals.lock().unwrap_or_else(|e| e.into_inner());
            acks.sort_by_key(|a| a.version);
            // chain: the acknowledged writes, in the order of the versions they produced, must each have been made by a
            // session that had been shown the content of the write before it (version numbers themselves may jump: the
            // implementation bumps them whenever it re-syncs a document with the disk)
            let initial = "PROGRAM Main\nEND_PROGRAM\n(* v0 *)\n".to_string();
            let mut latest = &initial;
            let mut latest_by: Option<&Ack> = None;
            for (i, a) in acks.iter().enumerate() {
                if i > 0 && acks[i - 1].version == a.version {
                    return Err(Violation::new(
                        "lost-update/two-acks-same-version",
                        format!("sessions {} and {} were both acknowledged with version {}", acks[i - 1].session, a.session, a.version),
                    ));
                }
                if &a.basis != latest {
                    return Err(Violation::new(
                        "lost-update/ack-not-based-on-latest",
                        format!(
                            "session {} was acknowledged ({} -> {}) on the basis of {:?}, but the latest successful write at that point was {:?}{}: that write was silently overwritten",
                            a.session,
                            a.expected,
                            a.version,
                            a.basis.lines().last().unwrap_or(""),
                            latest.lines().last().unwrap_or(""),
                            latest_by.map(|p| format!(" (session {}, version {})", p.session, p.version)).unwrap_or_default()
                        ),
                    ));
                }
                latest = &a.content;
                latest_by = Some(a);
            }
            for a in &acks {
                if a.version <= a.expected {
                    return Err(Violation::new("version-chain/ack-did-not-advance", format!("session {}: {} -> {}", a.session, a.expected, a.version)));
                }
            }
            let disk = std::fs::read_to_string(&file).unwrap_or_default();
            if let Some(last) = acks.last() {
                if disk != last.content {
                    return Err(Violation::new(
                        "lost-update/disk-differs-from-last-ack",
                        format!("the file holds {:?}, the last acknowledged write (session {}, version {}) wrote {:?}", disk.lines().last(), last.session, last.version, last.content.lines().last()),
                    ));
                }
            }
            let distinct: std::collections::BTreeSet<usize> = acks.iter().map(|a| a.session).collect();
            if distinct.len() >= 2 {
                stats.inc("probe.two_sessions_acknowledged");
            }
            if refused > 0 {
                stats.inc("probe.conflict_refused");
            }
            if acks.iter().any(|a| a.content.contains(" a1 ") || a.content.contains(" a2 ") || a.content.contains(" a3 ")) {
                stats.inc("probe.retry_acknowledged_after_conflict");
            }
            stats.add("acks", acks.len() as u64);
            stats.add("refusals", refused);
            let events = obs.0.lock().unwrap_or_else(|e| e.into_inner()).events.clone();
            let mut h = Fnv::new();
            for e in &events {
                h.str(e);
            }
            stats.log(&format!("{}", h.finish()));
            stats.state(h.finish());
            if distinct.len() >= 2 || refused > 0 {
                stats.nontrivial(h.finish());
            }
            if stats.samples.is_empty() {
                stats.sample(json!({"case": case, "events": events}));
            }
            Ok(())
        })();
        let _ = std::fs::remove_dir_all(&root);
        result
    }
}
