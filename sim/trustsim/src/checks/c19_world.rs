//! C19 world: a real temp directory tree (sentinel tree with the project
//! nested inside), full snapshots that never follow symlinks, marker strings.
use std::collections::{BTreeMap, BTreeSet};
use std::path::{Path, PathBuf};

use serde_json::{json, Value as Json};

use crate::framework::scratch_dir;
use crate::rng::Fnv;

/// project directory relative to the sentinel root
pub const PROJ_REL: &str = "ws/proj";

/// Fixed part of the sentinel tree OUTSIDE the project (relative to the
/// sentinel root).  Every file carries a unique content marker `mkqNNz`; files
/// that a directory listing must not reveal carry a name marker `nmqNNz`.
pub const OUTSIDE: &[(&str, &str)] = &[
    ("parent.txt", "parent note mkq01z\n"),
    ("secret.st", "PROGRAM Mkq02z\nVAR\n  r : INT;\nEND_VAR\nr := SharedFn(1);\nEND_PROGRAM\n"),
    ("sibling/nmq03z_other.st", "PROGRAM Mkq03z\nVAR\n  q : INT;\nEND_VAR\nq := SharedFn(2);\nEND_PROGRAM\n"),
    ("sibling/notes.txt", "sibling notes mkq04z\n"),
    ("sibling/deep/nmq05z_inner.st", "FUNCTION Mkq05z : INT\nMkq05z := 5;\nEND_FUNCTION\n"),
    ("sibling/.sibhidden", "mkq06z\n"),
    ("ws/peer.st", "PROGRAM Mkq07z\nEND_PROGRAM\n"),
    // a sibling whose NAME starts with the project directory's name: a string-prefix test on paths is fooled by it
    ("ws/proj-secrets/nmq08z_vault.st", "PROGRAM Mkq08z\nVAR\n  v : INT;\nEND_VAR\nv := SharedFn(3);\nEND_PROGRAM\n"),
    ("ws/proj-secrets/keys.txt", "vault keys mkq09z\n"),
];

/// Default project content (the generator picks from it; the case lists the
/// chosen entries explicitly under `files`).
pub fn default_project_files() -> Vec<Json> {
    let f = |p: &str, c: &str| json!({"p": p, "t": "f", "c": c});
    let d = |p: &str| json!({"p": p, "t": "d"});
    let l = |p: &str, to: &str| json!({"p": p, "t": "l", "to": to});
    vec![
        f("main.st", "PROGRAM Main\nVAR\n  counter : INT;\nEND_VAR\ncounter := SharedFn(counter);\nEND_PROGRAM\n(* mkq10z *)\n"),
        f("lib.st", "FUNCTION SharedFn : INT\nVAR_INPUT\n  x : INT;\nEND_VAR\nSharedFn := x + 1;\nEND_FUNCTION\n(* mkq11z *)\n"),
        f("src/util.st", "FUNCTION Util : INT\nUtil := 7;\nEND_FUNCTION\n(* mkq12z *)\n"),
        f("src/deep/leaf.st", "FUNCTION Leaf : INT\nLeaf := Util();\nEND_FUNCTION\n(* mkq13z *)\n"),
        f("docs/readme.txt", "readme mkq14z\n"),
        d("empty"),
        f(".git/config", "[core] mkq20z\n"),
        f(".secret", "mkq21z top secret\n"),
        f(".hidden/nmq22z_x.st", "PROGRAM Mkq22z\nEND_PROGRAM\n"),
        f("src/.nmq23z_inner.st", "PROGRAM Mkq23z\nEND_PROGRAM\n"),
        l("outdir", "../../sibling"),
        l("vault", "../proj-secrets"),
        l("vaultfile.st", "../proj-secrets/nmq08z_vault.st"),
        l("link.st", "../../secret.st"),
        l("abslink.st", "${S}/secret.st"),
        l("alias.st", ".secret"),
        l("hid", ".hidden"),
        l("dangle.st", "../../sibling/nmq30z_new.st"),
        l("dangledir", "../../sibling/nmq31z_newdir"),
        l("inlink.st", "src/util.st"),
        l("indir", "src"),
        l("loop.st", "loop.st"),
    ]
}

#[derive(Clone, PartialEq, Eq, Debug)]
pub enum Ent {
    Dir,
    File(Vec<u8>),
    Link(String),
    Other,
}

pub type Snap = BTreeMap<String, Ent>;

pub struct World {
    /// unique scratch directory (removed on drop)
    base: PathBuf,
    /// canonical sentinel root
    pub s: PathBuf,
}

fn next_counter() -> u64 {
    static C: std::sync::atomic::AtomicU64 = std::sync::atomic::AtomicU64::new(0);
    C.fetch_add(1, std::sync::atomic::Ordering::SeqCst)
}

impl World {
    pub fn build(files: &[Json]) -> Result<World, String> {
        let base = scratch_dir().join(format!("c19-{}-{}", std::process::id(), next_counter()));
        let _ = std::fs::remove_dir_all(&base);
        std::fs::create_dir_all(base.join("S")).map_err(|e| format!("mkdir: {e}"))?;
        let s = base.join("S").canonicalize().map_err(|e| format!("canonicalize: {e}"))?;
        let w = World { base, s };
        for (rel, content) in OUTSIDE {
            w.put_file(&w.s.join(rel), content.as_bytes())?;
        }
        let proj = w.proj();
        std::fs::create_dir_all(&proj).map_err(|e| format!("mkdir proj: {e}"))?;
        for f in files {
            let Some(p) = f["p"].as_str() else { continue };
            if p.is_empty() || p.starts_with('/') || p.split('/').any(|c| c == ".." || c.is_empty()) {
                return Err(format!("fixture path {p:?} not project-relative"));
            }
            let path = proj.join(p);
            match f["t"].as_str().unwrap_or("f") {
                "d" => std::fs::create_dir_all(&path).map_err(|e| format!("mkdir {p}: {e}"))?,
                "l" => {
                    if let Some(parent) = path.parent() {
                        std::fs::create_dir_all(parent).map_err(|e| format!("mkdir: {e}"))?;
                    }
                    let to = w.subst(f["to"].as_str().unwrap_or(""));
                    std::os::unix::fs::symlink(&to, &path).map_err(|e| format!("symlink {p}: {e}"))?;
                }
                _ => w.put_file(&path, f["c"].as_str().unwrap_or("").as_bytes())?,
            }
        }
        Ok(w)
    }

    fn put_file(&self, path: &Path, content: &[u8]) -> Result<(), String> {
        if let Some(parent) = path.parent() {
            std::fs::create_dir_all(parent).map_err(|e| format!("mkdir: {e}"))?;
        }
        std::fs::write(path, content).map_err(|e| format!("write fixture: {e}"))
    }

    pub fn proj(&self) -> PathBuf {
        self.s.join(PROJ_REL)
    }

    /// replace the placeholders `${S}` / `${P}` by the real absolute paths
    pub fn subst(&self, text: &str) -> String {
        text.replace("${S}", &self.s.to_string_lossy()).replace("${P}", &self.proj().to_string_lossy())
    }

    /// inverse of `subst` (never let a temp path reach a log)
    pub fn unsubst(&self, text: &str) -> String {
        let base = self.base.to_string_lossy().to_string();
        text.replace(&*self.proj().to_string_lossy(), "${P}").replace(&*self.s.to_string_lossy(), "${S}").replace(&base, "${BASE}")
    }

    /// path relative to the sentinel root, if under it
    pub fn rel(&self, abs: &Path) -> Option<String> {
        abs.strip_prefix(&self.s).ok().map(|p| p.to_string_lossy().to_string())
    }

    pub fn snapshot(&self) -> Snap {
        let mut out = Snap::new();
        self.walk(&self.s, "", &mut out);
        out
    }

    fn walk(&self, dir: &Path, rel: &str, out: &mut Snap) {
        let Ok(rd) = std::fs::read_dir(dir) else { return };
        for entry in rd.flatten() {
            let name = entry.file_name().to_string_lossy().to_string();
            let child_rel = if rel.is_empty() { name.clone() } else { format!("{rel}/{name}") };
            let path = entry.path();
            let Ok(meta) = std::fs::symlink_metadata(&path) else { continue };
            let ft = meta.file_type();
            if ft.is_symlink() {
                let to = std::fs::read_link(&path).map(|t| t.to_string_lossy().to_string()).unwrap_or_default();
                out.insert(child_rel, Ent::Link(self.unsubst(&to)));
            } else if ft.is_dir() {
                out.insert(child_rel.clone(), Ent::Dir);
                self.walk(&path, &child_rel, out);
            } else if ft.is_file() {
                out.insert(child_rel, Ent::File(std::fs::read(&path).unwrap_or_default()));
            } else {
                out.insert(child_rel, Ent::Other);
            }
        }
    }
}

impl Drop for World {
    fn drop(&mut self) {
        let _ = std::fs::remove_dir_all(&self.base);
    }
}

pub fn snap_hash(s: &Snap) -> u64 {
    let mut h = Fnv::new();
    for (p, e) in s {
        h.str(p);
        match e {
            Ent::Dir => h.str("d"),
            Ent::File(c) => h.str("f").bytes(c).bytes(&[0xfe]),
            Ent::Link(t) => h.str("l").str(t),
            Ent::Other => h.str("o"),
        };
    }
    h.finish()
}

pub fn bytes_hash(b: &[u8]) -> u64 {
    Fnv::new().bytes(b).finish()
}

/// (path, "created" | "removed" | "modified")
pub fn diff(pre: &Snap, post: &Snap) -> Vec<(String, &'static str)> {
    let mut out = vec![];
    for (p, e) in pre {
        match post.get(p) {
            None => out.push((p.clone(), "removed")),
            Some(e2) if e2 != e => out.push((p.clone(), "modified")),
            _ => {}
        }
    }
    for p in post.keys() {
        if !pre.contains_key(p) {
            out.push((p.clone(), "created"));
        }
    }
    out.sort();
    out
}

/// `Some(rest)` if `path` (sentinel-relative) lies strictly under `root_rel`
pub fn under<'a>(path: &'a str, root_rel: &str) -> Option<&'a str> {
    if root_rel.is_empty() {
        return Some(path);
    }
    path.strip_prefix(root_rel).and_then(|r| r.strip_prefix('/'))
}

pub fn has_hidden_component(rest: &str) -> bool {
    rest.split('/').any(|c| c.starts_with('.'))
}

/// all markers `<prefix>NNz` (lower-cased scan)
pub fn find_markers(text: &str, prefix: &str, out: &mut BTreeSet<String>) {
    let lower = text.to_ascii_lowercase();
    let b = lower.as_bytes();
    let p = prefix.as_bytes();
    let mut i = 0;
    while i + p.len() + 3 <= b.len() {
        if &b[i..i + p.len()] == p
            && b[i + p.len()].is_ascii_digit()
            && b[i + p.len() + 1].is_ascii_digit()
            && b[i + p.len() + 2] == b'z'
        {
            out.insert(lower[i..i + p.len() + 3].to_string());
            i += p.len() + 3;
        } else {
            i += 1;
        }
    }
}

/// Markers that must not appear in any reply while `root_rel` is the active
/// project: content markers (`mkq`) and name markers (`nmq`) of entries outside
/// the project or hidden inside it, minus markers that (also) occur in a visible
/// regular entry inside the project.
/// Result: marker -> ("outside" | "hidden", "content" | "name").
pub fn forbidden_markers(snap: &Snap, root_rel: &str) -> BTreeMap<String, (&'static str, &'static str)> {
    let mut ok = BTreeSet::new();
    let mut bad: BTreeMap<String, (&'static str, &'static str)> = BTreeMap::new();
    for (p, e) in snap {
        let inside = under(p, root_rel);
        let visible_inside = matches!(inside, Some(rest) if !has_hidden_component(rest));
        let class = if inside.is_some() { "hidden" } else { "outside" };
        let mut found = BTreeSet::new();
        let name = p.rsplit('/').next().unwrap_or(p);
        find_markers(name, "nmq", &mut found);
        let n_names = found.len();
        if let Ent::File(c) = e {
            find_markers(&String::from_utf8_lossy(c), "mkq", &mut found);
        }
        let _ = n_names;
        for m in found {
            if visible_inside {
                ok.insert(m);
            } else {
                let what = if m.starts_with("nmq") { "name" } else { "content" };
                bad.entry(m).or_insert((class, what));
            }
        }
    }
    bad.retain(|m, _| !ok.contains(m));
    bad
}

/// Harness-side mirror of the product's path normalisation, used only to key
/// events and to steer expectations for replies that carry no path.
pub fn norm_key(raw: &str) -> String {
    raw.trim().split('/').filter(|c| !c.is_empty() && *c != ".").collect::<Vec<_>>().join("/")
}
