#!/usr/bin/env python3
"""./check selftest determinism [ID ...] [--cases N]
Runs every (or the named) check twice - 16 and 5 worker processes - on the same seed and case count and
compares the batch digest (hash of every case's event-log digest).  Exit 0 = identical, 2 = divergence.
Evidence files are restored afterwards (a self-test run is not evidence)."""
import json, os, subprocess, sys
ROOT = os.path.dirname(os.path.abspath(__file__))
args = sys.argv[1:]
if args and args[0] == 'determinism':
    args = args[1:]
cases = None
if '--cases' in args:
    i = args.index('--cases'); cases = args[i + 1]; del args[i:i + 2]
manifest = json.load(open(os.path.join(ROOT, 'MANIFEST.json')))
ids = args or ([c['property_id'] for c in manifest['checks']] + ['C19B'])
ENGINE_B = {'C17', 'C19B', 'C20'}
bad = 0
for cid in ids:
    exe = os.path.join(ROOT, 'target', 'b' if cid in ENGINE_B else 'a', 'debug', 'trustsim')
    digests = []
    for shards in ('16', '5'):
        cmd = [exe, 'check', cid, 'quick', '--shards', shards] + (['--cases', cases] if cases else [])
        r = subprocess.run(cmd, capture_output=True, text=True, env=dict(os.environ, VERIF_ROOT=ROOT))
        # a second check of a property (C19B) records itself inside the property's file when that file is from the
        # same tier and seed, otherwise in a file of its own
        own = os.path.join(ROOT, 'evidence', f'{cid}.json')
        if os.path.exists(own):
            cov = json.load(open(own))['coverage']
        else:
            cov = json.load(open(os.path.join(ROOT, 'evidence', f'{cid[:3]}.json')))['coverage']['further_checks'][cid]
        digests.append((cov['batch_digest'], cov['evaluations'], r.returncode))
    same = digests[0][:2] == digests[1][:2]
    print(f"{cid}: {'deterministic' if same else 'DIVERGED'} {digests}")
    bad += 0 if same else 1
subprocess.run(['git', '-C', ROOT, 'checkout', '--', 'evidence'], capture_output=True)
sys.exit(2 if bad else 0)
