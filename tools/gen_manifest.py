#!/usr/bin/env python3
"""Generate /verif/MANIFEST.json from the table below (single source of truth)."""
import json, os, subprocess
ROOT = os.path.dirname(os.path.dirname(os.path.abspath(__file__)))

CHECKS = {
 "C04": ("exploration",
         "deterministic simulation: seeded FB banks x (inputs, dt) traces incl. dt=0 / exact-PT / jumps / restarts, lock-step IEC reference models compared after every call",
         "Seeded search over call traces against independent IEC reference models of TON/TOF/TP, CTU/CTD/CTUD (all typed variants), R_TRIG/F_TRIG, SR/RS; Q/ET/CV compared after every single call through per-call-site output copies, plus the independence invariant for uncalled instances. Sampling, not proof.",
         "Trusts the reference models (DESIGN Appendix B) and the documented relaxations: ET after expiry may be 0 or PT; exact comparison suspended after PT changes while timing. Clock is written directly (stub).",
         "DESIGN.md section 3 C04"),
 # id: (category, technique, level text, level_note, design_ref)
 "C01": ("exploration",
         "deterministic simulation: ProgGen workloads x boundary-biased input streams x clock stalls/jumps to i64::MAX x statement-budget faults at sampled and at ALL points of a cycle x fault clearing/restarts; per-cycle invariants (outcome class, no panic/abort, no frame left, bounded statement count)",
         "Partial claim (fault/time/input clauses): seeded search over generated typed programs (all integer widths, reals, bit strings, TIME, STRING, enums, arrays, structs, functions, stateful FBs, std FBs, every loop/branch form) driven through histories of cycles with boundary inputs, extreme clocks and budget faults landing inside any nesting of calls and loops; after every cycle the outcome must be Ok or a value-dependent fault, nothing may panic or abort, no call frame may remain and the statement count must stay bounded. Agreement of checker and interpreter over the whole grammar is exercised as a by-product only. Sampling, not proof.",
         "Trusts ProgGen's loop bounds (termination cap), the H2 budget hook, and the value-dependent fault set taken from the property text. Static-class errors raised on slots that already hold a drifted type tag are attributed to the open C03 finding (signature .../with-tag-drift).",
         "DESIGN.md section 3 C01"),
 "C03": ("exploration",
         "deterministic simulation: storage-wide declared-type invariant after every simulated operation; exhaustively enumerated typed-assignment matrix (11 write mechanisms x 16x16 elementary type pairs) + seeded ProgGen histories of cycles, boundary I/O latching, value faults, restarts, save + power cycle",
         "Partial claim (history clauses + the enumerated matrix): after every operation every program/FB/struct/array slot is compared with its declaration (VarDef.type_id resolved through the runtime's type registry, subranges and enums range-checked) and every global with its build-time tag; each mismatch is attributed to the operation and slot class that wrote it. The matrix is finite and enumerated completely; histories are sampled. Not claimed: all (declared, expression) pairs beyond the matrix shapes; debugger writes.",
         "Trusts Runtime::programs()/function_blocks()/registry() as the declaration source and ProgGen's naming scheme for attribution. The pervasive defect (write paths store the source tag) is recorded as open findings per mechanism; other mechanisms (I/O latch, FOR control, restart, retain load, initialisers, same-type writes, ranges) still alarm.",
         "DESIGN.md section 3 C03"),
 "C05": ("exploration",
         "deterministic simulation across OS processes: the same seeded project + input/clock/fault trace observed in the parent and N fresh child processes perturbed in hash seeds, ASLR, heap padding, stack size and environment; container bytes and per-cycle trace digests compared",
         "For each seeded case (ProgGen project plus 6-30 bulk units - enum, struct, alias, interface, class, function, FB with method and reference - so that every compiler and encoder table holds many keys; trace of cycles with boundary inputs, budget faults, restarts) the STBC container is compiled twice per process and the trace is executed in the parent and in 5 (quick) / 11 (thorough) fresh child processes that differ only in what must not matter; all container byte strings and all per-cycle digests (cycle result, every variable value and tag, output image, runtime events) must be identical. Sampling, not proof; an order dependence between two keys escapes N+1 processes with probability 2^-N.",
         "Trusts that process-level perturbation (fresh RandomState keys, ASLR, heap padding, stack size, environment) covers the nondeterminism sources the property names; the working directory is deliberately not varied.",
         "DESIGN.md section 3 C05"),
 "C07": ("exploration",
         "deterministic simulation: seeded address maps x churning/fault-injecting logging drivers x debugger I/O writes and forces x faulted cycles, lock-step byte-level image model and call-phase oracle",
         "Seeded search over address maps (all 15 elementary types, X/B/W/D/L, overlapping/adjacent spans) and cycle histories with drivers that change their bytes on every read call; per cycle the merged driver/runtime event log must be reads-once -> program code -> writes-once, every program copy of every input must equal the independent decode of the bytes latched in that cycle, the published image must equal previous image + independent encodes (nothing outside addressed spans changes) and a faulted cycle must not deliver program-computed outputs. Sampling, not proof.",
         "Trusts the little-endian/bit model (DESIGN Appendix B) and the documented assumptions (non-overlapping output spans, %M variables latched and published, order among drivers free). Drivers and clock are stubs.",
         "DESIGN.md section 3 C07"),
 "C08": ("fault_enumeration",
         "deterministic simulation with fault enumeration: every budget point (statement entry / loop iteration at any call depth) of the fault cycle, every driver call, value fault per site, scripted fault, watchdog trip, retain-save failure x fault policy x watchdog action x safe-state map x failing-driver set; latch/refusal/safe-image oracles",
         "For a multi-task plant with nested function->FB->function calls and loops: every budget point of the fault cycle is enumerated (H2) in the k=all cases and sampled otherwise, crossed with all fault kinds, policies, watchdog actions, seeded safe-state maps and driver failure sets. After each fault: latched, every later cycle refused with zero statements / zero driver calls / no variable or image change until restart, and under safe_halt (or watchdog halt|safe_halt) every configured address holds its value in the image and in every healthy driver's last delivery, delivered before the Fault event. Enumeration is complete per case over the statement boundaries of the chosen cycle; the cross product is sampled.",
         "Trusts the H2 budget hook placement (check_execution_budget is reached at every statement entry and loop iteration), the plant corpus being representative for nesting, and the safe-image bit model. Runner loop (watchdog timer, restart-on-fault) is a stub.",
         "DESIGN.md section 3 C08"),
 "C10": ("fault_enumeration",
         "deterministic simulation with crash-point enumeration: real FileRetainStore over a logging fs shim; every prefix of the recorded system-call log of store() and byte cuts of each write materialised as post-crash disk; short-write/EINTR/ENOSPC injection; stored-byte corruption under a counting allocator",
         "Per seeded snapshot pair (all 31 retainable value shapes, boundary bit patterns, nested containers): clean round trip; then for EVERY prefix of the file-system call sequence of store(s_new) and sampled byte cuts of each write, the disk a dying process leaves is materialised and load() must return exactly s_old or s_new (never Err, empty or mixed); short writes and EINTR must be absorbed; every truncation and seeded bit flips / length blow-ups / splices / garbage / 200k-deep nesting of the stored bytes must load as Ok or Err with no panic, abort or single allocation beyond 64x file size. Crash points are enumerated completely per pair; pairs and corruptions are sampled.",
         "Trusts the fs shim (H3) logging every mutation FileRetainStore performs and the process-death disk model (completed system calls visible, last write possibly torn). Power-loss reordering is not judged.",
         "DESIGN.md section 3 C10"),
 "C13": ("exploration",
         "deterministic simulation: op-by-op refinement of the incremental analysis database against a fresh database; seeded add/edit/remove/re-add/query histories with cancellation faults; eager and lazy twin databases",
         "Seeded search over edit histories (1-5 files of a cross-referencing project family with duplicates, dangling references, syntax errors, empty files; structural edits, break/repair, swaps, moves, whitespace-only edits, removes, re-adds, queries in any order, salsa cancellation between operations) against the real trust_hir::Database and Project: after every operation every query answer (diagnostics, analyze, file_symbols, type_of at every expression, expr_id_at_offset at every token, source text, name resolution, file ids) of every live file must equal the answer of a brand-new database loaded with the current texts under the same FileIds, repeated queries must repeat, removed files must answer like unknown ones, nothing may panic. An eager twin sweeps all queries after every op, a lazy twin only answers the history's own queries (so the history decides what was memoised before which edit). Sampling, not proof.",
         "Trusts a fresh Database (same code, cold path) as the reference for 'from-scratch analysis' and ascending-FileId load order. Concurrent readers are not explored (salsa's internals are outside the simulator).",
         "DESIGN.md section 5 C13"),
 "C17": ("exploration",
         "deterministic simulation of threads: the real DebugControl hook (Mutex+Condvar) with a cycle thread and a controller thread under a shuttle-backed scheduler the simulator owns (seeded random and PCT-like schedules, replayable from the case); command scripts racing with execution; undebugged twin trace as oracle",
         "Seeded search over schedules x command scripts (breakpoints incl. conditional/hit-count/logpoints, pause, pause(thread), continue, step in/over/out, racing or awaited) x a corpus of six program templates (call ladders, nested loops, FB-in-FB and methods, three tasks + background): the debugged statement trace (H5b probe) must stay a prefix of the command-free twin's trace and end equal to it, with equal cycle results and final state; every time the cycle thread is parked exactly one stop notification with the parked location exists (no silent stop, no double stop); every resume from a parked state executes a statement, the final clear+continue lets the thread finish (shuttle deadlock or step bound = wedged); step-in stops at the next statement of the task, step-over/out never stop deeper than their origin. Sampling, not proof.",
         "Trusts the sync shim (std Mutex/Condvar/mpsc/thread semantics modelled over shuttle incl. timed waits as release-yield-reacquire) and the statement-trace probe. The DAP adapter's StopCoordinator and real OS threads are not run.",
         "DESIGN.md section 4 C17"),
 "C20": ("exploration",
         "deterministic simulation of threads: real ResourceRunner threads, ManualClock, StartGate, SharedGlobals and command channels under a shuttle-backed scheduler the simulator owns; seeded schedules x controller scripts (advance, pause/resume, stop, gates, faults)",
         "Seeded search over schedules x controller scripts for 2-4 resources spawned with the real spawn_with_shared over shared configuration globals: at quiescence shared = a = sum of per-resource counters and the in-program torn-pair detector stayed 0 (no lost update, no half-updated set); once Paused is established no cycle starts until Resume; stop-while-paused / -gated / racing a command always lets join() return with state Stopped (shuttle deadlock or step bound = wedged) and stores the final retained values exactly once; after a fault in one resource the others still cycle and answer commands. Sampling, not proof.",
         "Trusts the sync shim (see C17) and that faults placed at cycle start are the right place to judge shared-set consistency (a mid-cycle fault publishes a partial cycle by design of sync_from). StdClock/ScaledClock (real sleeps) are not run.",
         "DESIGN.md section 4 C20"),
 "C18": ("exploration",
         "deterministic simulation: nine simulated clients with every credential kind against the real control dispatcher (in-process, hook H7); seeded request histories with clock jumps, token rotation/expiry/revocation, garbled lines; independent required-role table + before/after effect probe",
         "Seeded search over request histories (all 53 dispatcher request types with valid and invalid params, unknown/case-variant/garbled/truncated/duplicated/oversized lines, pair.start/claim/revoke, auth-token rotation and removal, debug and mode flips, simulated-clock jumps around token expiry) from nine clients (none, wrong token, admin token, pairing tokens at each role, expired, revoked, previous admin token) against one real ControlState: an observed effect (11-component state probe + resource command log) requires role(credential) >= required(type) by a table written from the property; with a token configured an invalid credential causes no effect and gets an error-only reply without runtime data; every type that ever shows an effect must require more than viewer; debug-class requests are refused and effect-free while debug is off; every line gets exactly one well-formed reply; no panic, no hang. Sampling, not proof.",
         "Trusts the role table written from the property (DESIGN Appendix B), the effect probe's completeness, and the request-type list self-test (source scan of the handler tables). Socket transport, historian, descriptor watcher are stubs; the resource thread is a canned responder fenced after every request.",
         "DESIGN.md section 5 C18"),
 "C19": ("exploration",
         "deterministic simulation: sessions of every kind over the real WebIdeState on a real sentinel directory tree with a simulated session clock; seeded operation histories with hostile path strings, symlinks, external modifications; full-tree snapshot diff + marker scan + version-chain refinement oracle (operation granularity) + the same lost-update scenario with sessions as threads under a seeded scheduler (C19B)",
         "Seeded search over histories of every path- or session-taking public operation of WebIdeState (list/tree/open/create/write/rename/delete/search/format/set_active_project/browse/analysis requests/rename_symbol) issued by editor, viewer, expired (clock seam H6b), bogus-token and write-disabled sessions with 16 hostile path classes against a project nested in a sentinel tree with hidden entries, outward/hidden/dangling/looping symlinks: after every operation a no-follow snapshot of the whole tree must show no change outside the active project or in hidden entries, no change at all for non-editor/expired/bogus/write-disabled requests, and no reply may contain a marker planted in outside or hidden files; for writes by several sessions the recorded history must refine the version chain (no acknowledged write on a superseded basis, acknowledged versions advance, refused writes change nothing, disk equals the last acknowledged write or a later external change). Sampling, not proof.",
         "Trusts the snapshot/marker oracles and the version-chain model (DESIGN Appendix B). The command runs two checks: C19 (operation granularity, cfg A; evidence/C19.json) and C19B (editor sessions as scheduler-owned threads over the real state lock through hook H6a, engine B; its record is merged into evidence/C19.json under coverage.further_checks.C19B). The HTTP layer is not run.",
         "DESIGN.md section 4 C19"),
 "C14": ("exploration",
         "deterministic simulation: simulated editor (UTF-16 reference buffer) vs the real language server over an in-process transport; seeded change-notification histories; lock-step text equality, position round trips, twin-server and ASCII-projection-server answer comparison",
         "Seeded search over change histories (insert/delete/replace, multi-change batches, full-text changes, positions at/after line end and EOF, close/re-open, several documents; texts with Latin-1, CJK, astral, ZWJ, combining marks, CRLF/lone CR/mixed terminators) against the real StLanguageServer behind tower_lsp::LspService driven in-process: after every notification the server's document text must equal the editor's buffer byte for byte; offset<->position conversion must be the identity on every denotable boundary; at query points documentSymbol / semanticTokens (full, delta, range) / diagnostics / formatting / rangeFormatting / documentHighlight must equal those of a twin server that only saw the final text, and positions must equal those of an ASCII/LF projection of the text. Sampling, not proof.",
         "Trusts the editor model (LSP 3.17 position rules), the H8 accessors, and that tower-lsp's in-process Service::call path equals the stdio path. stdio transport and background indexer are not run. Two open findings (rangeFormatting on lone-CR documents, semanticTokens/range origin) are pinned.",
         "DESIGN.md section 5 C14"),
 "C11": ("fault_enumeration",
         "deterministic simulation with storage-fault enumeration: compiler-emitted STBC containers under every truncation, 1-3 bit flips (CRC flag hit), 4-byte field blow-ups, zeroed ranges and torn mixes of two containers; decode/validate/metadata under a counting allocator; hot reload of validated containers into a running world at an arbitrary cycle",
         "Partial claim: for containers emitted by the real compiler from ProgGen projects - validate holds, decode(encode(m)) = m and encode(decode(b)) = b exactly; EVERY truncation (complete for containers <= 6000 bytes) and seeded k-bit flips (k <= 3, half with the header CRC flag flipped so the section decoders are reached), 0xFF / inflated 4-byte fields with the CRC flag cleared, zeroed ranges and torn old/new mixes must go through decode, validate and metadata without panic, abort or a single allocation above 256 x size + 1 MiB; every damaged container that still validates, the clean container and a sibling project's container are hot reloaded into a running world after k cycles, which must neither panic nor stop cycling. Not claimed: arbitrary adversarial byte strings with recomputed checksums.",
         "Trusts the counting allocator's single-request high-water mark as the memory observable and the corruption kinds as representative for storage faults. Atomicity of a rejected reload is not judged (the property states only 'without panicking'); image sizes requested by a validated container are reported as a probe.",
         "DESIGN.md section 3 C11"),
 "C09": ("exploration",
         "deterministic simulation: seeded retain-qualified programs x histories of cycles / restarts / saves / power cycles / value faults, differential twin (fresh runtime + model's retained set) driven in lock-step",
         "Seeded search over programs (13 retainable shapes x 4 qualifiers x global/program level, SINGLE variable with seeded init and qualifier, event + cyclic + background programs, task-bound FB instance, %I/%Q bindings, VAR_ACCESS paths) and histories; after every warm/cold restart and power cycle a newly built runtime plus the model's retained set is driven with the same operations and compared after every one: all variables, output image, time, cycle counter, fault latch, executed tasks, access-path reads. Sampling, not proof.",
         "Trusts the retained-set model (DESIGN Appendix B) and that the twin (same compiler, fresh build) is a valid reference for 'newly built runtime'. Process boundary of the power cycle, store and clock are stubs.",
         "DESIGN.md section 3 C09"),
 "C06": ("exploration",
         "deterministic simulation: seeded task sets x clock timelines (stalls, jumps) x SINGLE edges x restarts, lock-step reference scheduler",
         "Seeded search over configurations and timelines against an executable reference scheduler written from the property and docs/specs 4.3; every cycle's executed task/program sequence and overrun counters are compared. Sampling, not proof; the space (intervals x priorities x SINGLE sharing x clock traces) is far beyond the example tests and is covered by tens of thousands of distinct due-set/tie shapes per run.",
         "Trusts the reference scheduler (Appendix B of DESIGN.md), the compiler's CONFIGURATION lowering being the one users get, and that program-side counters (seq/mark/runs) observe execution order. Runner loop is a stub (clock written directly).",
         "DESIGN.md section 3 C06"),
}

# properties served by more than one check (run in sequence; each prints its own VIOLATION lines for the property)
EXTRA_CHECKS = {"C19": ["C19", "C19B"]}

NOT_APPLICABLE = {
 "C02": "pure function of (program, input trace): no schedule, clock source, fault or interleaving to simulate; needs differential testing against a reference evaluator, a different technique",
 "C12": "pure function of the input text (lexing/parsing): no time, fault, history or schedule",
 "C15": "pure function of (text, formatting configuration, range/position): no time, fault, history or schedule",
 "C16": "pure function of (project, occurrence, new name); its behavioural clause is C02-shaped: no time, fault, history or schedule",
}

PENDING_REASON = "check not built yet in this revision (planned, see DESIGN.md section 0); not claimed until it exists"
ALL = ["C%02d" % i for i in range(1, 21)]

def main():
    checks = []
    for cid, (cat, tech, text, note, ref) in sorted(CHECKS.items()):
        checks.append({
            "property_id": cid,
            "quick_cmd": " && ".join(f"./check {x} quick" for x in EXTRA_CHECKS.get(cid, [cid])),
            "thorough_cmd": " && ".join(f"./check {x} thorough" for x in EXTRA_CHECKS.get(cid, [cid])),
            "evidence_file": f"/verif/evidence/{cid}.json",
            "replay_cmd_template": "./check replay {path}",
            "engine": "trustsim",
            "level_claimed": {"category": cat, "text": text, "design_ref": ref},
            "level_note": note,
            "technique": tech,
        })
    na = []
    for cid in ALL:
        if cid in CHECKS:
            continue
        na.append({"property_id": cid, "reason": NOT_APPLICABLE.get(cid, PENDING_REASON)})
    hooks_commits = []
    try:
        out = subprocess.run(["git", "-C", "/repo", "log", "--format=%H %s"], capture_output=True, text=True).stdout
        for line in out.splitlines():
            h, _, s = line.partition(" ")
            if s.startswith("verif hooks"):
                hooks_commits.append(h)
    except Exception:
        pass
    manifest = {
        "version": 1,
        "setup_cmd": "./check build",
        "hooks": {
            "guard": "--cfg trust_verif (and --cfg trust_verif_shuttle for the thread-scheduling shim)",
            "enable": "checks build /repo's crates through shadow manifests in /verif/sim with RUSTFLAGS=--cfg trust_verif (sim/.cargo/config.toml); /repo/Cargo.toml and Cargo.lock are untouched",
            "baseline_off_cmd": "cd /repo && cargo nextest run --workspace --no-fail-fast --test-threads 8 --offline || cargo test --workspace --no-fail-fast --offline",
            "source_commits": hooks_commits,
            "add_only": True,
        },
        "engines": [
            {"name": "trustsim", "path": "/verif/sim", "serves_properties": sorted(CHECKS.keys()),
             "kind_free_text": "deterministic simulator: seeded PRNG decides workload, clock, faults and schedules; real compiler/runtime/services under test; sharded worker processes; minimisation and replay files"},
        ],
        "checks": checks,
        "not_applicable": na,
        "notes": "See DESIGN.md. Exit codes: 0 held, 1 VIOLATION line printed, 2 harness error. known_findings.json lists open findings (KNOWN-FINDING lines) and fixed records.",
    }
    with open(os.path.join(ROOT, "MANIFEST.json"), "w") as fh:
        json.dump(manifest, fh, indent=1)
        fh.write("\n")

if __name__ == "__main__":
    main()
