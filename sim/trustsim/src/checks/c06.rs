//! C06 - task scheduling follows the IEC task model on every timeline.
//!
//! World: generated CONFIGURATION (1..6 tasks, 1..7 programs, SINGLE
//! variables) compiled by the real compiler; the simulator owns the clock and
//! the SINGLE variables between cycles; programs may write SINGLE variables
//! mid-cycle. Oracle: executable reference scheduler (DESIGN Appendix B).
use serde_json::{json, Value as Json};

use trust_runtime::debug::RuntimeEvent;
use trust_runtime::value::{Duration, Value};
use trust_runtime::RestartMode;

use crate::framework::{guard, Check, Stats, Tier, Violation};
use crate::rng::{Fnv, Rng};
use crate::world;

pub struct C06Check;
pub static C06: C06Check = C06Check;

const INTERVALS_NS: &[i64] = &[0, 1, 2, 1_000, 1_000_000, 5_000_000, 10_000_000, 10_000_000, 20_000_000, 100_000_000, 1_000_000_000];

fn time_literal(ns: i64) -> String {
    if ns % 1_000_000 == 0 {
        format!("T#{}ms", ns / 1_000_000)
    } else if ns % 1_000 == 0 {
        format!("T#{}us", ns / 1_000)
    } else {
        format!("T#{ns}ns")
    }
}

pub fn source_for(case: &Json) -> String {
    let singles = case["singles"].as_array().cloned().unwrap_or_default();
    let tasks = case["tasks"].as_array().cloned().unwrap_or_default();
    let programs = case["programs"].as_array().cloned().unwrap_or_default();
    let mut s = String::new();
    s.push_str("CONFIGURATION C\nVAR_GLOBAL\n  seq : DINT := 0;\n");
    for (i, sg) in singles.iter().enumerate() {
        let init = if sg["init"].as_bool().unwrap_or(false) { "TRUE" } else { "FALSE" };
        let q = if sg["retain"].as_bool().unwrap_or(false) { " RETAIN" } else { "" };
        let _ = q;
        s.push_str(&format!("  s{i} : BOOL := {init};\n"));
    }
    for (i, p) in programs.iter().enumerate() {
        s.push_str(&format!("  mark{i} : DINT := 0;\n  runs{i} : DINT := 0;\n"));
        if p["fb_task"].as_u64().is_some_and(|t| (t as usize) < tasks.len()) {
            s.push_str(&format!("  fmark{i} : DINT := 0;\n  fruns{i} : DINT := 0;\n"));
        }
    }
    s.push_str("END_VAR\n");
    // keywords are case-insensitive: 0 = upper, 1 = lower, 2 = capitalised spelling of the task initialisation keys
    let kw = |word: &str| -> String {
        match case["kw_case"].as_u64().unwrap_or(0) {
            1 => word.to_ascii_lowercase(),
            2 => format!("{}{}", &word[..1], word[1..].to_ascii_lowercase()),
            _ => word.to_string(),
        }
    };
    for (i, t) in tasks.iter().enumerate() {
        let mut parts = vec![];
        if let Some(sg) = t["single"].as_u64() {
            parts.push(format!("{} := s{sg}", kw("SINGLE")));
        }
        if !t["interval_omitted"].as_bool().unwrap_or(false) {
            parts.push(format!("{} := {}", kw("INTERVAL"), time_literal(t["interval_ns"].as_i64().unwrap_or(0))));
        }
        parts.push(format!("{} := {}", kw("PRIORITY"), t["priority"].as_u64().unwrap_or(0)));
        s.push_str(&format!("TASK T{i} ({});\n", parts.join(", ")));
    }
    for (i, p) in programs.iter().enumerate() {
        // task-associated FB instance: `(fx WITH Tn)` runs in Tn's turn, after Tn's programs
        let fb = match p["fb_task"].as_u64() {
            Some(t) if (t as usize) < tasks.len() => format!(" (fx WITH T{t})"),
            _ => String::new(),
        };
        match p["task"].as_u64() {
            Some(t) => s.push_str(&format!("PROGRAM P{i} WITH T{t} : Prog{i}{fb};\n")),
            None => s.push_str(&format!("PROGRAM P{i} : Prog{i}{fb};\n")),
        }
    }
    s.push_str("END_CONFIGURATION\n\n");
    for (i, p) in programs.iter().enumerate() {
        let has_fb = p["fb_task"].as_u64().is_some_and(|t| (t as usize) < tasks.len());
        if has_fb {
            s.push_str(&format!(
                "FUNCTION_BLOCK Fbx{i}\nVAR_EXTERNAL\n  seq : DINT;\n  fmark{i} : DINT;\n  fruns{i} : DINT;\nEND_VAR\nseq := seq + 1;\nfmark{i} := seq;\nfruns{i} := fruns{i} + 1;\nEND_FUNCTION_BLOCK\n\n"
            ));
        }
        s.push_str(&format!("PROGRAM Prog{i}\nVAR_EXTERNAL\n  seq : DINT;\n  mark{i} : DINT;\n  runs{i} : DINT;\n"));
        let tog = &p["toggles"];
        if let Some(sg) = tog["single"].as_u64() {
            s.push_str(&format!("  s{sg} : BOOL;\n"));
        }
        s.push_str("END_VAR\n");
        if has_fb {
            s.push_str(&format!("VAR\n  fx : Fbx{i};\nEND_VAR\n"));
        }
        s.push_str(&format!("seq := seq + 1;\nmark{i} := seq;\nruns{i} := runs{i} + 1;\n"));
        if let Some(sg) = tog["single"].as_u64() {
            match tog["mode"].as_str().unwrap_or("toggle") {
                "set" => s.push_str(&format!("s{sg} := TRUE;\n")),
                "clear" => s.push_str(&format!("s{sg} := FALSE;\n")),
                _ => s.push_str(&format!("s{sg} := NOT s{sg};\n")),
            }
        }
        s.push_str("END_PROGRAM\n\n");
    }
    s
}

#[derive(Clone, Debug)]
struct MTask {
    interval: i64,
    single: Option<usize>,
    priority: u64,
    programs: Vec<usize>,
    /// program indices whose FB instance `fx` is associated with this task (declaration order)
    fbs: Vec<usize>,
    last_single: bool,
    last_run: i64,
    overruns: u64,
}

impl Check for C06Check {
    fn id(&self) -> &'static str {
        "C06"
    }
    fn cases(&self, tier: Tier) -> u64 {
        match tier {
            Tier::Quick => 12_000,
            Tier::Thorough => 100_000,
        }
    }
    fn rule(&self) -> &'static str {
        "case = seeded CONFIGURATION (1-6 tasks, intervals from {0,1ns..1s}, equal/distinct priorities, shared/distinct/absent SINGLE variables incl. initial TRUE, 1-7 programs some without task, programs that set/clear/toggle SINGLE variables mid-cycle) x timeline of cycles (dt from {0, 1ns, interval-1, interval, interval+1, k*interval, random}) with simulator SINGLE writes and warm/cold restarts; task initialisation keys spelled in upper / lower / capitalised case; distinct non-trivial = distinct hash of (task-set shape, due set, tie class) over cycles with >=2 tasks due or an overrun"
    }
    fn assumptions(&self) -> Vec<&'static str> {
        vec![
            "only periodic activations move last_run (docs/specs/10-runtime.md 4.3 formula); an event activation does not restart the period",
            "restart resets scheduling state as at registration (edge memory seeded from the SINGLE variable's current value)",
            "values compared modulo numeric type tag",
        ]
    }
    fn components(&self) -> (Vec<&'static str>, Vec<&'static str>) {
        (
            vec!["compiler front end + lowering", "Runtime::execute_cycle", "collect_ready_tasks/sort/execute_task/background", "Runtime::restart", "DebugControl runtime events"],
            vec!["clock (set_current_time)", "resource runner loop"],
        )
    }

    fn generate(&self, rng: &mut Rng, tier: Tier, _index: u64) -> Json {
        let mut cfg = rng.fork("config");
        let mut ops_rng = rng.fork("ops");
        let n_tasks = cfg.usize(1, 6);
        let n_singles = cfg.usize(0, 3);
        let n_programs = cfg.usize(1, 7);
        let equal_prio = cfg.chance(1, 3);
        let base_interval = *cfg.pick(INTERVALS_NS);
        let singles: Vec<Json> =
            (0..n_singles).map(|_| json!({"init": cfg.chance(1, 4)})).collect();
        let mut tasks = vec![];
        for _ in 0..n_tasks {
            let interval = if cfg.chance(1, 3) { base_interval } else { *cfg.pick(INTERVALS_NS) };
            let single = if n_singles > 0 && cfg.chance(2, 5) { Some(cfg.usize(0, n_singles - 1)) } else { None };
            let priority = if equal_prio { 1 } else { cfg.below(4) };
            tasks.push(json!({"interval_ns": interval, "single": single, "priority": priority}));
        }
        let mut programs = vec![];
        for _ in 0..n_programs {
            let task = if cfg.chance(3, 4) { Some(cfg.usize(0, n_tasks - 1)) } else { None };
            let toggles = if n_singles > 0 && cfg.chance(1, 4) {
                json!({"single": cfg.usize(0, n_singles - 1), "mode": *cfg.pick(&["set", "clear", "toggle"])})
            } else {
                Json::Null
            };
            let fb_task = if cfg.chance(1, 4) { Some(cfg.usize(0, n_tasks - 1)) } else { None };
            programs.push(json!({"task": task, "toggles": toggles, "fb_task": fb_task}));
        }
        let n_ops = match tier {
            Tier::Quick => ops_rng.usize(10, 50),
            Tier::Thorough => ops_rng.usize(20, 100),
        };
        let stall_heavy = ops_rng.chance(1, 5);
        let restarts = ops_rng.chance(1, 3);
        let reloads = ops_rng.chance(1, 4);
        let intervals: Vec<i64> = tasks.iter().map(|t| t["interval_ns"].as_i64().unwrap()).filter(|i| *i > 0).collect();
        let mut ops = vec![];
        for _ in 0..n_ops {
            if restarts && ops_rng.chance(1, 25) {
                ops.push(json!({"k": "restart", "mode": if ops_rng.bool() { "warm" } else { "cold" }}));
                continue;
            }
            if reloads && ops_rng.chance(1, 25) {
                ops.push(json!({"k": "reload"}));
                continue;
            }
            let dt: i64 = if stall_heavy && ops_rng.chance(1, 2) {
                0
            } else if !intervals.is_empty() && ops_rng.chance(3, 5) {
                let iv = *ops_rng.pick(&intervals);
                match ops_rng.below(7) {
                    0 => iv - 1,
                    1 => iv,
                    2 => iv + 1,
                    3 => iv.saturating_mul(ops_rng.range(2, 5)),
                    4 => iv.saturating_mul(ops_rng.range(2, 5)) + ops_rng.range(-1, 1),
                    5 => iv / 2,
                    _ => ops_rng.range(0, iv.saturating_mul(3).max(1)),
                }
            } else {
                match ops_rng.below(5) {
                    0 => 0,
                    1 => 1,
                    2 => ops_rng.range(0, 1_000_000),
                    3 => ops_rng.range(0, 50_000_000),
                    _ => ops_rng.range(0, 3_000_000_000),
                }
            }
            .max(0);
            let mut set = vec![];
            for sidx in 0..n_singles {
                if ops_rng.chance(1, 3) {
                    set.push(json!([sidx, ops_rng.bool()]));
                }
            }
            ops.push(json!({"k": "cycle", "dt": dt, "set": set}));
        }
        let kw_case = *rng.fork("spelling").pick(&[0u64, 0, 1, 2]);
        json!({"singles": singles, "tasks": tasks, "programs": programs, "kw_case": kw_case, "ops": ops})
    }

    fn run(&self, case: &Json, stats: &mut Stats) -> Result<(), Violation> {
        let src = source_for(case);
        let mut rt = match guard("compile", || world::compile(&src))? {
            Ok(rt) => rt,
            Err(e) => {
                // the generator only emits configurations the compiler must accept
                return Err(Violation::new("harness/compile-rejected", format!("{e}\n{src}")));
            }
        };
        let debug = rt.enable_debug();
        let n_singles = case["singles"].as_array().map_or(0, Vec::len);
        let programs = case["programs"].as_array().cloned().unwrap_or_default();
        let n_programs = programs.len();
        let mut tasks: Vec<MTask> = case["tasks"]
            .as_array()
            .cloned()
            .unwrap_or_default()
            .iter()
            .enumerate()
            .map(|(ti, t)| MTask {
                interval: t["interval_ns"].as_i64().unwrap_or(0),
                single: t["single"].as_u64().map(|v| v as usize),
                priority: t["priority"].as_u64().unwrap_or(0),
                programs: programs
                    .iter()
                    .enumerate()
                    .filter(|(_, p)| p["task"].as_u64() == Some(ti as u64))
                    .map(|(pi, _)| pi)
                    .collect(),
                fbs: programs
                    .iter()
                    .enumerate()
                    .filter(|(_, p)| p["fb_task"].as_u64() == Some(ti as u64))
                    .map(|(pi, _)| pi)
                    .collect(),
                last_single: false,
                last_run: 0,
                overruns: 0,
            })
            .collect();
        let n_tasks = tasks.len();
        let has_fb: Vec<bool> = programs.iter().map(|p| p["fb_task"].as_u64().is_some_and(|t| (t as usize) < n_tasks)).collect();
        let mut prev_fruns = vec![0i128; n_programs];
        // container of the same sources for hot reloads (re-registration of the tasks)
        let reload_bytes = if case["ops"].as_array().is_some_and(|o| o.iter().any(|op| op["k"] == "reload")) {
            trust_runtime::harness::bytecode_bytes_from_source(&src).ok()
        } else {
            None
        };
        let background: Vec<usize> =
            programs.iter().enumerate().filter(|(_, p)| p["task"].is_null()).map(|(pi, _)| pi).collect();
        let single_val = |rt: &trust_runtime::Runtime, i: usize| world::global_bool(rt, &format!("s{i}")).unwrap_or(false);
        // registration: edge memory seeded from the variable
        for t in tasks.iter_mut() {
            t.last_single = t.single.map(|i| single_val(&rt, i)).unwrap_or(false);
        }
        let mut now: i64 = 0;
        let mut prev_runs = vec![0i128; n_programs];
        let _ = debug.drain_runtime_events();
        let shape = {
            let mut h = Fnv::new();
            for t in &tasks {
                h.u64(t.interval as u64).u64(t.priority).u64(t.single.map_or(99, |s| s as u64)).u64(t.programs.len() as u64);
            }
            h.u64(background.len() as u64);
            h.finish()
        };
        stats.sample(json!({"source": src, "ops": case["ops"].as_array().map(|o| o.iter().take(6).cloned().collect::<Vec<_>>())}));

        for (opi, op) in case["ops"].as_array().cloned().unwrap_or_default().iter().enumerate() {
            match op["k"].as_str().unwrap_or("") {
                "restart" => {
                    let mode = if op["mode"] == "warm" { RestartMode::Warm } else { RestartMode::Cold };
                    let r = guard("restart", || rt.restart(mode))?;
                    if let Err(e) = r {
                        return Err(Violation::new("restart/error", format!("restart failed: {e:?}")));
                    }
                    stats.inc("fault.restart");
                    now = 0;
                    for t in tasks.iter_mut() {
                        t.last_run = 0;
                        t.overruns = 0;
                        t.last_single = t.single.map(|i| single_val(&rt, i)).unwrap_or(false);
                    }
                    for (pi, r) in prev_runs.iter_mut().enumerate() {
                        *r = world::global_i(&rt, &format!("runs{pi}")).unwrap_or(0);
                    }
                    for (pi, r) in prev_fruns.iter_mut().enumerate() {
                        *r = world::global_i(&rt, &format!("fruns{pi}")).unwrap_or(0);
                    }
                    let _ = debug.drain_runtime_events();
                    stats.log("restart");
                }
                "reload" => {
                    // hot reload of the same program: the tasks are registered again at the current time
                    let Some(bytes) = &reload_bytes else { continue };
                    let r = guard("apply_bytecode_bytes", || rt.apply_bytecode_bytes(bytes, None))?;
                    if r.is_err() {
                        // a refused reload is C11's subject; the schedule after it is not judged
                        stats.inc("reload_refused");
                        return Ok(());
                    }
                    stats.inc("fault.hot_reload");
                    for t in tasks.iter_mut() {
                        t.last_run = now;
                        t.overruns = 0;
                        t.last_single = t.single.map(|i| single_val(&rt, i)).unwrap_or(false);
                    }
                    let _ = debug.drain_runtime_events();
                    stats.log("reload");
                }
                _ => {
                    let dt = op["dt"].as_i64().unwrap_or(0).max(0);
                    now = now.saturating_add(dt);
                    stats.sim_time_ns += dt as u128;
                    if dt == 0 {
                        stats.inc("fault.clock_stall");
                    }
                    for pair in op["set"].as_array().cloned().unwrap_or_default() {
                        let idx = pair[0].as_u64().unwrap_or(0) as usize;
                        if idx < n_singles {
                            rt.storage_mut().set_global(format!("s{idx}"), Value::Bool(pair[1].as_bool().unwrap_or(false)));
                        }
                    }
                    rt.set_current_time(Duration::from_nanos(now));
                    // ---- model: what must run in this cycle
                    let mut due: Vec<(u64, i64, usize)> = vec![];
                    let mut any_overrun = false;
                    let mut both_kinds = (false, false);
                    for (ti, t) in tasks.iter_mut().enumerate() {
                        let s = t.single.map(|i| single_val(&rt, i)).unwrap_or(false);
                        let event = !t.last_single && s;
                        let el = now - t.last_run;
                        let per = t.interval > 0 && !s && el >= t.interval;
                        let mut due_at = None;
                        if event {
                            due_at = Some(now);
                            both_kinds.0 = true;
                        }
                        if per {
                            let n = el / t.interval;
                            if n > 1 {
                                t.overruns += (n - 1) as u64;
                                any_overrun = true;
                            }
                            let dp = t.last_run.saturating_add(t.interval);
                            due_at = Some(due_at.map_or(dp, |d: i64| d.min(dp)));
                            t.last_run = now;
                            both_kinds.1 = true;
                        }
                        t.last_single = s;
                        if let Some(d) = due_at {
                            due.push((t.priority, d, ti));
                        }
                    }
                    due.sort();
                    let expected_tasks: Vec<usize> = due.iter().map(|d| d.2).collect();
                    let mut expected_programs: Vec<usize> = vec![];
                    for ti in &expected_tasks {
                        expected_programs.extend(tasks[*ti].programs.iter().copied());
                        // task-associated FB instances run after the task's programs (ids 100 + program index)
                        expected_programs.extend(tasks[*ti].fbs.iter().map(|pi| 100 + *pi));
                        if !tasks[*ti].fbs.is_empty() {
                            stats.inc("probe.task_bound_fb_instance_due");
                        }
                    }
                    expected_programs.extend(background.iter().copied());
                    // ---- real
                    let res = guard("execute_cycle", || rt.execute_cycle())?;
                    if let Err(e) = res {
                        return Err(Violation::new(
                            format!("cycle/error/{}", variant_name(&e)),
                            format!("op {opi}: execute_cycle failed: {e:?}"),
                        ));
                    }
                    let events = debug.drain_runtime_events();
                    let mut real_tasks: Vec<usize> = vec![];
                    let mut open: Option<String> = None;
                    for ev in &events {
                        match ev {
                            RuntimeEvent::TaskStart { name, .. } => {
                                if open.is_some() {
                                    return Err(Violation::new("events/nested-task-start", format!("op {opi}: {events:?}")));
                                }
                                open = Some(name.to_string());
                                let idx: usize = name.trim_start_matches('T').parse().unwrap_or(usize::MAX);
                                real_tasks.push(idx);
                            }
                            RuntimeEvent::TaskEnd { name, .. } => {
                                if open.as_deref() != Some(name.as_str()) {
                                    return Err(Violation::new("events/unmatched-task-end", format!("op {opi}: {events:?}")));
                                }
                                open = None;
                            }
                            _ => {}
                        }
                    }
                    let mut ran: Vec<(i128, usize)> = vec![];
                    for pi in 0..n_programs {
                        let runs = world::global_i(&rt, &format!("runs{pi}")).unwrap_or(-1);
                        let delta = runs - prev_runs[pi];
                        prev_runs[pi] = runs;
                        if delta == 1 {
                            ran.push((world::global_i(&rt, &format!("mark{pi}")).unwrap_or(-1), pi));
                        } else if delta != 0 {
                            return Err(Violation::new(
                                "sched/more-than-once-per-cycle",
                                format!("op {opi}: program P{pi} ran {delta} times in one cycle"),
                            ));
                        }
                    }
                    for pi in 0..n_programs {
                        if !has_fb[pi] {
                            continue;
                        }
                        let runs = world::global_i(&rt, &format!("fruns{pi}")).unwrap_or(-1);
                        let delta = runs - prev_fruns[pi];
                        prev_fruns[pi] = runs;
                        if delta == 1 {
                            ran.push((world::global_i(&rt, &format!("fmark{pi}")).unwrap_or(-1), 100 + pi));
                        } else if delta != 0 {
                            return Err(Violation::new(
                                "sched/more-than-once-per-cycle",
                                format!("op {opi}: FB instance of P{pi} ran {delta} times in one cycle"),
                            ));
                        }
                    }
                    ran.sort();
                    let real_programs: Vec<usize> = ran.iter().map(|r| r.1).collect();
                    stats.log(&format!("c{now}:{real_tasks:?}:{real_programs:?}"));
                    if real_tasks != expected_tasks {
                        let sig = classify(&real_tasks, &expected_tasks, "task");
                        return Err(Violation::new(
                            sig,
                            format!("op {opi} t={now}ns: tasks executed {real_tasks:?}, model expects {expected_tasks:?}"),
                        ));
                    }
                    if real_programs != expected_programs {
                        let sig = classify(&real_programs, &expected_programs, "program");
                        return Err(Violation::new(
                            sig,
                            format!("op {opi} t={now}ns: programs executed {real_programs:?}, model expects {expected_programs:?}"),
                        ));
                    }
                    for (ti, t) in tasks.iter().enumerate() {
                        let real = rt.task_overrun_count(&format!("T{ti}")).unwrap_or(u64::MAX);
                        if real != t.overruns {
                            return Err(Violation::new(
                                "sched/overrun-count",
                                format!("op {opi} t={now}ns: task T{ti} overrun count {real}, model {}", t.overruns),
                            ));
                        }
                    }
                    // coverage
                    stats.inc("cycles");
                    if expected_tasks.len() >= 2 {
                        stats.inc("probe.two_or_more_tasks_due");
                        let tie = due.windows(2).any(|w| w[0].0 == w[1].0);
                        let tie_due = due.windows(2).any(|w| w[0].0 == w[1].0 && w[0].1 == w[1].1);
                        if tie {
                            stats.inc("probe.equal_priority_tie");
                        }
                        if tie_due {
                            stats.inc("probe.equal_priority_and_due_tie");
                        }
                        let mut h = Fnv::new();
                        h.u64(shape);
                        for d in &due {
                            h.u64(d.2 as u64);
                        }
                        h.u64(u64::from(tie)).u64(u64::from(tie_due));
                        stats.nontrivial(h.finish());
                    }
                    if both_kinds.0 && both_kinds.1 {
                        stats.inc("probe.event_and_periodic_same_cycle");
                    }
                    if any_overrun {
                        stats.inc("probe.overrun");
                        let mut h = Fnv::new();
                        h.u64(shape).u64(0xdead);
                        for t in &tasks {
                            h.u64(t.overruns.min(3));
                        }
                        stats.nontrivial(h.finish());
                    }
                    if both_kinds.0 {
                        stats.inc("probe.event_activation");
                    }
                    let mut sh = Fnv::new();
                    sh.u64(shape);
                    for t in &tasks {
                        sh.u64(u64::from(t.last_single)).u64(((now - t.last_run).min(t.interval.max(1) * 3)) as u64);
                    }
                    stats.state(sh.finish());
                }
            }
        }
        if !rt.storage().frames().is_empty() {
            return Err(Violation::new("frames/leftover", "call frames left after the history"));
        }
        Ok(())
    }
}

fn variant_name(e: &trust_runtime::error::RuntimeError) -> String {
    let t = format!("{e:?}");
    t.split(|c: char| !c.is_alphanumeric()).next().unwrap_or("").to_string()
}

fn classify(real: &[usize], expected: &[usize], what: &str) -> String {
    let mut r = real.to_vec();
    let mut e = expected.to_vec();
    r.sort_unstable();
    e.sort_unstable();
    if r == e {
        format!("sched/{what}-order")
    } else if e.iter().all(|x| r.contains(x)) {
        format!("sched/{what}-extra-activation")
    } else if r.iter().all(|x| e.contains(x)) {
        format!("sched/{what}-missed-activation")
    } else {
        format!("sched/{what}-set-differs")
    }
}
