//! ProgGen - type-directed generator of Structured Text workloads.
//!
//! It is a *workload* generator (DESIGN 2.5): it gives the fault, clock and
//! history space something non-trivial to act on.  Programs are explicit JSON
//! (POUs with variable declarations and a list of top-level statement texts)
//! so that the delta debugger can drop statements and POUs.
use serde_json::{json, Value as Json};

use crate::rng::Rng;

#[derive(Clone, Copy, Debug, PartialEq, Eq, Hash)]
pub enum Ty {
    Bool,
    SInt,
    Int,
    DInt,
    LInt,
    USInt,
    UInt,
    UDInt,
    ULInt,
    Real,
    LReal,
    Byte,
    Word,
    DWord,
    LWord,
    Time,
    Str,
    Color,
}

pub const INTS: &[Ty] = &[Ty::SInt, Ty::Int, Ty::DInt, Ty::LInt, Ty::USInt, Ty::UInt, Ty::UDInt, Ty::ULInt];
pub const SIGNED: &[Ty] = &[Ty::SInt, Ty::Int, Ty::DInt, Ty::LInt];
pub const SCALARS: &[Ty] = &[
    Ty::Bool, Ty::SInt, Ty::Int, Ty::DInt, Ty::DInt, Ty::DInt, Ty::LInt, Ty::USInt, Ty::UInt, Ty::UDInt, Ty::ULInt, Ty::Real, Ty::LReal, Ty::Byte, Ty::Word,
    Ty::DWord, Ty::LWord, Ty::Time, Ty::Str, Ty::Color,
];

impl Ty {
    pub fn name(self) -> &'static str {
        match self {
            Ty::Bool => "BOOL",
            Ty::SInt => "SINT",
            Ty::Int => "INT",
            Ty::DInt => "DINT",
            Ty::LInt => "LINT",
            Ty::USInt => "USINT",
            Ty::UInt => "UINT",
            Ty::UDInt => "UDINT",
            Ty::ULInt => "ULINT",
            Ty::Real => "REAL",
            Ty::LReal => "LREAL",
            Ty::Byte => "BYTE",
            Ty::Word => "WORD",
            Ty::DWord => "DWORD",
            Ty::LWord => "LWORD",
            Ty::Time => "TIME",
            Ty::Str => "STRING",
            Ty::Color => "Color",
        }
    }
    pub fn from_name(s: &str) -> Ty {
        for t in SCALARS {
            if t.name() == s {
                return *t;
            }
        }
        Ty::DInt
    }
    pub fn is_int(self) -> bool {
        INTS.contains(&self)
    }
    pub fn is_signed(self) -> bool {
        SIGNED.contains(&self)
    }
    pub fn is_bits(self) -> bool {
        matches!(self, Ty::Byte | Ty::Word | Ty::DWord | Ty::LWord)
    }
    pub fn is_real(self) -> bool {
        matches!(self, Ty::Real | Ty::LReal)
    }
    pub fn width(self) -> u32 {
        match self {
            Ty::SInt | Ty::USInt | Ty::Byte => 8,
            Ty::Int | Ty::UInt | Ty::Word => 16,
            Ty::DInt | Ty::UDInt | Ty::DWord | Ty::Real => 32,
            _ => 64,
        }
    }
    /// (min, max) for integer types
    pub fn range(self) -> (i128, i128) {
        let w = self.width();
        if self.is_signed() {
            (-(1i128 << (w - 1)), (1i128 << (w - 1)) - 1)
        } else {
            (0, (1i128 << w) - 1)
        }
    }
    /// types that implicitly widen into `self` (checker-accepted)
    pub fn narrower(self) -> &'static [Ty] {
        match self {
            Ty::Int => &[Ty::SInt],
            Ty::DInt => &[Ty::SInt, Ty::Int],
            Ty::LInt => &[Ty::SInt, Ty::Int, Ty::DInt],
            Ty::UInt => &[Ty::USInt],
            Ty::UDInt => &[Ty::USInt, Ty::UInt],
            Ty::ULInt => &[Ty::USInt, Ty::UInt, Ty::UDInt],
            Ty::LReal => &[Ty::Real],
            Ty::Word => &[Ty::Byte],
            Ty::DWord => &[Ty::Byte, Ty::Word],
            Ty::LWord => &[Ty::Byte, Ty::Word, Ty::DWord],
            _ => &[],
        }
    }
}

/// The twin of a rendered source in which every generated implicit widening assignment is an explicit conversion.
pub fn explicit_widening(src: &str) -> Option<String> {
    src.contains("(*w ").then(|| src.replace("(*w ", "").replace(" w*)", ""))
}

/// knobs steering the generator (swarm configuration)
#[derive(Clone, Debug)]
pub struct Knobs {
    /// probability (x/100) of boundary literals
    pub boundary_pct: u64,
    /// allow implicit widening in assignments / arguments
    pub widening: bool,
    /// allow CASE over unsigned / enum / bit-string selectors
    pub case_exotic: bool,
    /// allow unary minus
    pub negation: bool,
    /// allow FOR bounds near the control type's limits
    pub for_extreme: bool,
    /// allow descending FOR over unsigned control variables
    pub for_unsigned_down: bool,
    pub max_depth: u32,
    pub stmts: (usize, usize),
    /// allow the power operator (exponents incl. zero and negative values)
    pub power: bool,
    /// VAR_TEMP sections whose initialisers can fault at run time
    pub temp_init: bool,
    /// loops with an empty body that wait for an input (end only by the execution budget when it stays FALSE);
    /// never set by `swarm`: only a check that arms a budget for every cycle may enable it
    pub busy_wait: bool,
    /// some program variables (same names in every program, other types) and globals are RETAIN / PERSISTENT
    pub retain_block: bool,
    /// a namespaced function library (functions calling their siblings, one named like a standard function) and USING
    pub namespaces: bool,
}

impl Knobs {
    pub fn from_json(j: &Json) -> Knobs {
        Knobs {
            boundary_pct: j["boundary_pct"].as_u64().unwrap_or(20),
            widening: j["widening"].as_bool().unwrap_or(true),
            case_exotic: j["case_exotic"].as_bool().unwrap_or(false),
            negation: j["negation"].as_bool().unwrap_or(true),
            for_extreme: j["for_extreme"].as_bool().unwrap_or(false),
            for_unsigned_down: j["for_unsigned_down"].as_bool().unwrap_or(false),
            max_depth: j["max_depth"].as_u64().unwrap_or(3) as u32,
            stmts: (j["stmts_lo"].as_u64().unwrap_or(3) as usize, j["stmts_hi"].as_u64().unwrap_or(12) as usize),
            power: j["power"].as_bool().unwrap_or(false),
            temp_init: j["temp_init"].as_bool().unwrap_or(false),
            busy_wait: j["busy_wait"].as_bool().unwrap_or(false),
            retain_block: j["retain_block"].as_bool().unwrap_or(false),
            namespaces: j["namespaces"].as_bool().unwrap_or(false),
        }
    }
    pub fn to_json(&self) -> Json {
        json!({"boundary_pct": self.boundary_pct, "widening": self.widening, "case_exotic": self.case_exotic, "negation": self.negation,
               "for_extreme": self.for_extreme, "for_unsigned_down": self.for_unsigned_down, "max_depth": self.max_depth, "stmts_lo": self.stmts.0, "stmts_hi": self.stmts.1,
               "power": self.power, "temp_init": self.temp_init, "busy_wait": self.busy_wait, "retain_block": self.retain_block, "namespaces": self.namespaces})
    }
    pub fn swarm(r: &mut Rng) -> Knobs {
        Knobs {
            boundary_pct: *r.pick(&[0u64, 10, 30, 60]),
            widening: r.chance(1, 3),
            case_exotic: r.chance(1, 3),
            negation: r.chance(3, 4),
            for_extreme: r.chance(1, 4),
            for_unsigned_down: r.chance(1, 5),
            max_depth: r.range(1, 4) as u32,
            stmts: (2, r.usize(4, 14)),
            power: r.chance(1, 3),
            temp_init: r.chance(1, 3),
            busy_wait: false,
            retain_block: r.chance(1, 2),
            namespaces: r.chance(1, 3),
        }
    }
}

#[derive(Clone, Debug)]
pub struct Var {
    pub name: String,
    pub ty: Ty,
}

#[derive(Clone, Debug, Default)]
struct Scope {
    /// assignable scalar variables
    vars: Vec<Var>,
    /// read-only scalar expressions (inputs, loop counters, struct fields of inputs...)
    ro: Vec<Var>,
    /// arrays: (name, elem type, lo, hi)
    arrays: Vec<(String, Ty, i64, i64)>,
    /// struct variables of type Pt
    structs: Vec<String>,
    /// user FB instances: (name, fb index, declares EN/ENO)
    fbs: Vec<(String, usize, bool)>,
    /// standard FB instances: (name, kind)
    std_fbs: Vec<(String, &'static str)>,
    /// callable functions (index < current function index)
    funcs: Vec<FuncSig>,
    /// loop counters available (unused ones)
    counters: Vec<String>,
    in_loop: u32,
    can_return: bool,
    /// the POU has `USING Lib;` (namespaced library functions callable without qualification)
    ns: bool,
}

#[derive(Clone, Debug)]
pub struct FuncSig {
    pub name: String,
    pub ret: Ty,
    pub params: Vec<Ty>,
}

pub struct Gen<'a> {
    pub r: &'a mut Rng,
    pub k: Knobs,
}

impl<'a> Gen<'a> {
    pub fn literal(&mut self, ty: Ty) -> String {
        let boundary = self.r.below(100) < self.k.boundary_pct;
        match ty {
            Ty::Bool => if self.r.bool() { "TRUE".into() } else { "FALSE".into() },
            t if t.is_int() => {
                let (lo, hi) = t.range();
                let v: i128 = if boundary {
                    *self.r.pick(&[lo, lo + 1, (-1i128).max(lo), 0, 1, hi - 1, hi])
                } else {
                    i128::from(self.r.range((-20i64).max(lo.max(i128::from(i64::MIN)) as i64), 20))
                };
                // the compiler rejects integer literals beyond the i64 range (and LINT's minimum)
                let v = v.clamp(lo, hi).clamp(i128::from(i64::MIN) + 1, i128::from(i64::MAX));
                if t == Ty::DInt && v >= 0 && !boundary && self.r.bool() {
                    format!("{v}")
                } else if v < 0 {
                    format!("{}#{v}", t.name())
                } else {
                    format!("{}#{v}", t.name())
                }
            }
            Ty::Real | Ty::LReal => {
                let v = if boundary {
                    *self.r.pick(&["0.0", "1.0", "-1.0", "3.4E38", "1.0E-38", "0.5"])
                } else {
                    *self.r.pick(&["0.5", "1.5", "2.0", "-3.25", "10.0", "0.0"])
                };
                format!("{}#{v}", ty.name())
            }
            t if t.is_bits() => {
                let w = t.width();
                let v: u64 = if boundary {
                    *self.r.pick(&[0u64, 1, u64::MAX, 1u64 << (w - 1)])
                } else {
                    self.r.next_u64()
                };
                let v = if w == 64 { v & (u64::MAX >> 1) } else { v & ((1u64 << w) - 1) };
                format!("{}#16#{v:X}", t.name())
            }
            Ty::Time => {
                let v = if boundary { *self.r.pick(&["T#0ms", "T#1ns", "T#24h", "T#-5ms"]) } else { *self.r.pick(&["T#1ms", "T#10ms", "T#2s", "T#500us"]) };
                v.to_string()
            }
            Ty::Str => format!("'{}'", *self.r.pick(&["", "a", "abc", "hello world", "x$'y"])),
            Ty::Color => format!("Color#{}", *self.r.pick(&["Red", "Green", "Blue"])),
            _ => "0".into(),
        }
    }

    fn pick_var(&mut self, sc: &Scope, ty: Ty) -> Option<String> {
        let c: Vec<&Var> = sc.vars.iter().chain(sc.ro.iter()).filter(|v| v.ty == ty).collect();
        if c.is_empty() {
            return None;
        }
        Some(c[self.r.below(c.len() as u64) as usize].name.clone())
    }

    fn index_expr(&mut self, sc: &Scope, lo: i64, hi: i64, depth: u32) -> String {
        // mostly in range, sometimes computed (may go out of bounds -> value-dependent fault)
        match self.r.below(5) {
            0 => match sc.vars.iter().chain(sc.ro.iter()).find(|v| v.ty == Ty::DInt) {
                Some(v) => format!("({} + {})", v.name, self.r.range(-1, 1)),
                None => format!("{}", self.r.range(lo, hi)),
            },
            1 => format!("({} MOD {}) + {}", self.expr(sc, Ty::DInt, depth + 1), hi - lo + 1, lo),
            2 if self.r.chance(1, 3) => match sc.vars.iter().chain(sc.ro.iter()).find(|v| v.ty == Ty::LInt) {
                // a LINT index straight from a variable/input: may be anywhere in the i64 range
                Some(v) => v.name.clone(),
                None => format!("{}", self.r.range(lo, hi)),
            },
            _ => format!("{}", self.r.range(lo, hi)),
        }
    }

    pub fn expr(&mut self, sc: &Scope, ty: Ty, depth: u32) -> String {
        let leaf = depth >= self.k.max_depth || self.r.chance(1, 3);
        if leaf {
            if self.r.chance(2, 3) {
                if let Some(v) = self.pick_var(sc, ty) {
                    return v;
                }
            }
            return self.literal(ty);
        }
        let d = depth + 1;
        match ty {
            Ty::Bool => match self.r.below(8) {
                0 => format!("({} AND {})", self.expr(sc, Ty::Bool, d), self.expr(sc, Ty::Bool, d)),
                1 => format!("({} OR {})", self.expr(sc, Ty::Bool, d), self.expr(sc, Ty::Bool, d)),
                2 => format!("({} XOR {})", self.expr(sc, Ty::Bool, d), self.expr(sc, Ty::Bool, d)),
                3 => format!("(NOT {})", self.expr(sc, Ty::Bool, d)),
                _ => {
                    let t = *self.r.pick(&[Ty::DInt, Ty::Int, Ty::SInt, Ty::LInt, Ty::UInt, Ty::UDInt, Ty::Real, Ty::LReal, Ty::Time, Ty::Color, Ty::USInt, Ty::ULInt]);
                    let op = if t == Ty::Color { *self.r.pick(&["=", "<>"]) } else { *self.r.pick(&["<", "<=", "=", "<>", ">", ">="]) };
                    format!("({} {op} {})", self.expr(sc, t, d), self.expr(sc, t, d))
                }
            },
            Ty::DInt if sc.ns && self.r.chance(1, 6) => match self.r.below(5) {
                0 => format!("Twice({})", self.expr(sc, Ty::DInt, d)),
                1 => format!("Lib.Twice({})", self.expr(sc, Ty::DInt, d)),
                // the library's Limit has two parameters, the standard LIMIT three
                2 => format!("Limit({}, {})", self.expr(sc, Ty::DInt, d), self.expr(sc, Ty::DInt, d)),
                3 => format!("Quad({})", self.expr(sc, Ty::DInt, d)),
                _ => format!("Lib.Inner.Deep({})", self.expr(sc, Ty::DInt, d)),
            },
            t if t.is_int() => match self.r.below(if self.k.power { 18 } else { 16 }) {
                16 | 17 => {
                    // power: exponent zero, small, a run-time value (negative for signed types now and then)
                    let e = match self.r.below(5) {
                        0 => format!("{}#0", t.name()),
                        1 => format!("{}#{}", t.name(), self.r.range(1, 3)),
                        2 => format!("({} MOD {}#4)", self.expr(sc, t, d), t.name()),
                        3 if t.is_signed() => format!("{}#-1", t.name()),
                        _ => self.pick_var(sc, t).unwrap_or_else(|| format!("{}#2", t.name())),
                    };
                    format!("({} ** {e})", self.expr(sc, t, d))
                }
                0 | 1 => format!("({} + {})", self.expr(sc, t, d), self.expr(sc, t, d)),
                2 => format!("({} - {})", self.expr(sc, t, d), self.expr(sc, t, d)),
                3 => format!("({} * {})", self.expr(sc, t, d), self.expr(sc, t, d)),
                4 => format!("({} / {})", self.expr(sc, t, d), self.expr(sc, t, d)),
                5 => format!("({} MOD {})", self.expr(sc, t, d), self.expr(sc, t, d)),
                6 if t.is_signed() && self.k.negation => format!("(-{})", self.expr(sc, t, d)),
                7 if t.is_signed() => format!("ABS({})", self.expr(sc, t, d)),
                8 => format!("{}({}, {})", *self.r.pick(&["MAX", "MIN"]), self.expr(sc, t, d), self.expr(sc, t, d)),
                // (where the library's two-parameter Limit is in scope the standard LIMIT is shadowed: the checker rejects it)
                9 if !sc.ns => format!("LIMIT({}, {}, {})", self.literal(t), self.expr(sc, t, d), self.literal(t)),
                10 => format!("SEL({}, {}, {})", self.expr(sc, Ty::Bool, d), self.expr(sc, t, d), self.expr(sc, t, d)),
                11 => {
                    let from = *self.r.pick(INTS);
                    if from == t {
                        self.expr(sc, t, d)
                    } else {
                        format!("{}_TO_{}({})", from.name(), t.name(), self.expr(sc, from, d))
                    }
                }
                12 => {
                    let arrs: Vec<&(String, Ty, i64, i64)> = sc.arrays.iter().filter(|a| a.1 == t).collect();
                    if arrs.is_empty() {
                        self.literal(t)
                    } else {
                        let a = arrs[self.r.below(arrs.len() as u64) as usize].clone();
                        format!("{}[{}]", a.0, self.index_expr(sc, a.2, a.3, d))
                    }
                }
                13 if t == Ty::DInt && !sc.structs.is_empty() => format!("{}.x", self.r.pick(&sc.structs).clone()),
                14 => self.call(sc, t, d).unwrap_or_else(|| self.literal(t)),
                15 if t == Ty::Int => format!("LEN({})", self.expr(sc, Ty::Str, d)),
                // selector from -4..4: below, inside, exactly at and above the number of inputs
                15 if t.is_signed() => format!("MUX(({} MOD {}#5), {}, {}, {})", self.expr(sc, t, d), t.name(), self.expr(sc, t, d), self.expr(sc, t, d), self.literal(t)),
                _ => format!("({} + {})", self.expr(sc, t, d), self.literal(t)),
            },
            t if t.is_real() => match self.r.below(if self.k.power { 10 } else { 8 }) {
                8 => format!("({} ** {})", self.expr(sc, t, d), self.expr(sc, t, d)),
                9 => format!("({} ** {}#{}.0)", self.expr(sc, t, d), t.name(), self.r.range(-2, 3)),
                0 => format!("({} + {})", self.expr(sc, t, d), self.expr(sc, t, d)),
                1 => format!("({} - {})", self.expr(sc, t, d), self.expr(sc, t, d)),
                2 => format!("({} * {})", self.expr(sc, t, d), self.expr(sc, t, d)),
                3 => format!("({} / {})", self.expr(sc, t, d), self.expr(sc, t, d)),
                4 if self.k.negation => format!("(-{})", self.expr(sc, t, d)),
                5 => {
                    let from = *self.r.pick(&[Ty::DInt, Ty::Int, Ty::UDInt, Ty::LInt]);
                    format!("{}_TO_{}({})", from.name(), t.name(), self.expr(sc, from, d))
                }
                6 => self.call(sc, t, d).unwrap_or_else(|| self.literal(t)),
                _ => format!("SQRT(ABS({}))", self.expr(sc, t, d)),
            },
            t if t.is_bits() => match self.r.below(3) {
                0 => format!("{}({}, {})", *self.r.pick(&["SHL", "SHR", "ROL", "ROR"]), self.expr(sc, t, d), self.r.below(u64::from(t.width()) + 2)),
                _ => self.pick_var(sc, t).unwrap_or_else(|| self.literal(t)),
            },
            Ty::Time => match self.r.below(3) {
                0 => format!("ADD_TIME({}, {})", self.expr(sc, Ty::Time, d), self.expr(sc, Ty::Time, d)),
                1 => format!("SUB_TIME({}, {})", self.expr(sc, Ty::Time, d), self.expr(sc, Ty::Time, d)),
                _ => self.pick_var(sc, Ty::Time).unwrap_or_else(|| self.literal(Ty::Time)),
            },
            Ty::Str => match self.r.below(3) {
                0 => format!("CONCAT({}, {})", self.expr(sc, Ty::Str, d), self.literal(Ty::Str)),
                _ => self.pick_var(sc, Ty::Str).unwrap_or_else(|| self.literal(Ty::Str)),
            },
            Ty::Color => self.pick_var(sc, Ty::Color).unwrap_or_else(|| self.literal(Ty::Color)),
            _ => self.literal(ty),
        }
    }

    fn call(&mut self, sc: &Scope, ret: Ty, depth: u32) -> Option<String> {
        let fs: Vec<FuncSig> = sc.funcs.iter().filter(|f| f.ret == ret).cloned().collect();
        if fs.is_empty() {
            return None;
        }
        let f = fs[self.r.below(fs.len() as u64) as usize].clone();
        let args: Vec<String> = f.params.iter().map(|p| self.expr(sc, *p, depth + 1)).collect();
        // positional only: formal (named) arguments nested inside another call are rejected by the checker
        Some(format!("{}({})", f.name, args.join(", ")))
    }

    fn block(&mut self, sc: &mut Scope, n: usize, depth: u32) -> String {
        let mut out = String::new();
        for _ in 0..n.max(1) {
            out.push_str(&self.stmt(sc, depth));
            out.push('\n');
        }
        out
    }

    /// one statement (possibly compound), as text
    pub fn stmt(&mut self, sc: &mut Scope, depth: u32) -> String {
        let compound_ok = depth < 2;
        if self.k.busy_wait && depth == 0 && sc.ro.iter().any(|v| v.name == "in_b") && self.r.chance(1, 12) {
            return if self.r.bool() { "(*busy*) REPEAT\n;\nUNTIL in_b END_REPEAT;".into() } else { "(*busy*) WHILE NOT in_b DO\n;\nEND_WHILE;".into() };
        }
        let choice = self.r.below(if compound_ok { 20 } else { 9 });
        match choice {
            0..=4 => {
                if sc.vars.is_empty() {
                    return ";".into();
                }
                let v = sc.vars[self.r.below(sc.vars.len() as u64) as usize].clone();
                if self.k.widening && self.r.chance(1, 5) {
                    // implicit widening: a bare narrower variable on the right-hand side
                    let narrower = v.ty.narrower();
                    let c: Vec<(String, Ty)> = sc.vars.iter().chain(sc.ro.iter()).filter(|x| narrower.contains(&x.ty)).map(|x| (x.name.clone(), x.ty)).collect();
                    if !c.is_empty() {
                        // the comment markers carry the explicit conversion: `explicit_widening` strips them to get
                        // the twin in which the same assignment is written `v := A_TO_B(n);`
                        let (n, nty) = c[self.r.below(c.len() as u64) as usize].clone();
                        return format!("{} := (*w {}_TO_{}( w*){}(*w ) w*);", v.name, nty.name(), v.ty.name(), n);
                    }
                }
                if v.ty.is_int() && self.r.chance(1, 12) {
                    // formal call of an extensible standard function with its inputs named out of order
                    let f = *self.r.pick(&["MAX", "MIN"]);
                    let mut idx: Vec<usize> = if self.r.bool() { vec![1, 2] } else { vec![1, 2, 3] };
                    self.r.shuffle(&mut idx);
                    let args: Vec<String> = idx.iter().map(|i| format!("IN{i} := {}", self.expr(sc, v.ty, 1))).collect();
                    return format!("{} := {f}({});", v.name, args.join(", "));
                }
                format!("{} := {};", v.name, self.expr(sc, v.ty, 0))
            }
            5 => {
                if sc.arrays.is_empty() {
                    return ";".into();
                }
                let a = sc.arrays[self.r.below(sc.arrays.len() as u64) as usize].clone();
                format!("{}[{}] := {};", a.0, self.index_expr(sc, a.2, a.3, 1), self.expr(sc, a.1, 1))
            }
            6 => {
                if sc.structs.is_empty() {
                    return ";".into();
                }
                let s = self.r.pick(&sc.structs).clone();
                match self.r.below(3) {
                    0 => format!("{s}.x := {};", self.expr(sc, Ty::DInt, 1)),
                    1 => format!("{s}.y := {};", self.expr(sc, Ty::Real, 1)),
                    _ => format!("{s}.b := {};", self.expr(sc, Ty::Bool, 1)),
                }
            }
            7 => {
                // user FB call + read back
                if sc.fbs.is_empty() {
                    return ";".into();
                }
                let (name, _, has_en) = sc.fbs[self.r.below(sc.fbs.len() as u64) as usize].clone();
                let bvar = sc.vars.iter().find(|v| v.ty == Ty::Bool).map(|v| v.name.clone());
                let dvar = sc.vars.iter().find(|v| v.ty == Ty::DInt).map(|v| v.name.clone());
                let call = match self.r.below(8) {
                    0 => format!("{name}();"),
                    1 => format!("{name}(x := {});", self.expr(sc, Ty::DInt, 1)),
                    2 | 3 if has_en => {
                        // EN may be FALSE at run time: the body is skipped, ENO driven FALSE, outputs still bound
                        let mut args = format!("EN := {}, x := {}, go := {}", self.expr(sc, Ty::Bool, 1), self.expr(sc, Ty::DInt, 1), self.expr(sc, Ty::Bool, 1));
                        if let Some(b) = &bvar {
                            args.push_str(&format!(", ENO => {b}"));
                        }
                        if let (Some(d), true) = (&dvar, self.r.bool()) {
                            args.push_str(&format!(", y => {d}"));
                        }
                        format!("{name}({args});")
                    }
                    4 if dvar.is_some() => format!("{name}(x := {}, go := {}, y => {});", self.expr(sc, Ty::DInt, 1), self.expr(sc, Ty::Bool, 1), dvar.clone().unwrap_or_default()),
                    5 => {
                        // two outputs bound to one variable: the later parameter (declaration order) wins
                        let last = sc.vars.iter().rev().find(|v| v.ty == Ty::DInt).map(|v| v.name.clone());
                        match last {
                            Some(d) => format!("{name}(x := {}, go := {}, y => {d}, z => {d});", self.expr(sc, Ty::DInt, 1), self.expr(sc, Ty::Bool, 1)),
                            None => format!("{name}();"),
                        }
                    }
                    _ => format!("{name}(x := {}, go := {});", self.expr(sc, Ty::DInt, 1), self.expr(sc, Ty::Bool, 1)),
                };
                match sc.vars.iter().find(|v| v.ty == Ty::DInt) {
                    Some(v) => format!("{call} {} := {name}.y;", v.name),
                    None => call,
                }
            }
            8 => {
                if sc.std_fbs.is_empty() {
                    return ";".into();
                }
                let (name, kind) = sc.std_fbs[self.r.below(sc.std_fbs.len() as u64) as usize].clone();
                let bvar = sc.vars.iter().find(|v| v.ty == Ty::Bool).map(|v| v.name.clone());
                let call = match kind {
                    "TON" | "TOF" | "TP" => format!("{name}(IN := {}, PT := {});", self.expr(sc, Ty::Bool, 1), self.expr(sc, Ty::Time, 1)),
                    "CTU" => format!("{name}(CU := {}, R := {}, PV := {});", self.expr(sc, Ty::Bool, 1), self.expr(sc, Ty::Bool, 1), self.literal(Ty::Int)),
                    "R_TRIG" | "F_TRIG" => format!("{name}(CLK := {});", self.expr(sc, Ty::Bool, 1)),
                    _ => format!("{name}(S1 := {}, R := {});", self.expr(sc, Ty::Bool, 1), self.expr(sc, Ty::Bool, 1)),
                };
                let q = if kind == "SR" { "Q1" } else { "Q" };
                match bvar {
                    Some(b) => format!("{call} {b} := {name}.{q};"),
                    None => call,
                }
            }
            9..=11 => {
                let cond = self.expr(sc, Ty::Bool, 0);
                let then = { let n_ = self.r.usize(1, 3); self.block(sc, n_, depth + 1) };
                let mut s = format!("IF {cond} THEN\n{then}");
                if self.r.chance(1, 3) {
                    let c2 = self.expr(sc, Ty::Bool, 1);
                    let b2 = { let n_ = self.r.usize(1, 2); self.block(sc, n_, depth + 1) };
                    s.push_str(&format!("ELSIF {c2} THEN\n{b2}"));
                }
                if self.r.bool() {
                    let b3 = { let n_ = self.r.usize(1, 2); self.block(sc, n_, depth + 1) };
                    s.push_str(&format!("ELSE\n{b3}"));
                }
                s.push_str("END_IF;");
                s
            }
            12 | 13 => {
                let sel_ty = if self.k.case_exotic && self.r.chance(1, 2) { *self.r.pick(&[Ty::USInt, Ty::UInt, Ty::UDInt, Ty::ULInt, Ty::Color]) } else { *self.r.pick(SIGNED) };
                let sel = self.expr(sc, sel_ty, 1);
                let mut s = format!("CASE {sel} OF\n");
                if sel_ty == Ty::Color {
                    let b = self.block(sc, 1, depth + 1);
                    s.push_str(&format!("Color#Red:\n{b}"));
                    let b = self.block(sc, 1, depth + 1);
                    s.push_str(&format!("Color#Green, Color#Blue:\n{b}"));
                } else {
                    let base = self.r.range(0, 5);
                    let b = self.block(sc, 1, depth + 1);
                    s.push_str(&format!("{base}:\n{b}"));
                    let b = self.block(sc, 1, depth + 1);
                    s.push_str(&format!("{}, {}:\n{b}", base + 1, base + 2));
                    let b = self.block(sc, 1, depth + 1);
                    s.push_str(&format!("{}..{}:\n{b}", base + 3, base + 9));
                }
                let b = self.block(sc, 1, depth + 1);
                s.push_str(&format!("ELSE\n{b}END_CASE;"));
                s
            }
            14 | 15 => {
                // FOR over a dedicated counter
                let Some(c) = sc.counters.pop() else { return ";".into() };
                let (cname, cty) = {
                    let mut it = c.split(':');
                    (it.next().unwrap_or("k0").to_string(), Ty::from_name(it.next().unwrap_or("DINT")))
                };
                let (lo, hi) = cty.range();
                let (a, b, by) = if self.k.for_extreme && self.r.chance(1, 2) {
                    // near the control type's limits
                    if self.r.bool() {
                        (hi - 2, hi, 1)
                    } else if cty.is_signed() {
                        (lo + 2, lo, -1)
                    } else {
                        (hi - 3, hi - 1, 1)
                    }
                } else if !cty.is_signed() && self.k.for_unsigned_down && self.r.chance(1, 2) {
                    (5, 1, -1)
                } else if self.r.chance(1, 4) && cty.is_signed() {
                    (i128::from(self.r.range(2, 6)), i128::from(self.r.range(-3, 1)), -i128::from(self.r.range(1, 2)))
                } else {
                    (i128::from(self.r.range(0, 3)), i128::from(self.r.range(2, 7)), i128::from(self.r.range(1, 3)))
                };
                let lit = |v: i128| if cty == Ty::DInt { format!("{v}") } else { format!("{}#{v}", cty.name()) };
                let by_txt = if by < 0 && !cty.is_signed() {
                    // a negative step for an unsigned control variable can only be written untyped
                    format!("{by}")
                } else if self.r.chance(1, 8) {
                    self.expr(sc, cty, 2)
                } else {
                    lit(by)
                };
                sc.in_loop += 1;
                sc.ro.push(Var { name: cname.clone(), ty: cty });
                let mut body = { let n_ = self.r.usize(1, 3); self.block(sc, n_, depth + 1) };
                if self.r.chance(1, 3) {
                    let cond = self.expr(sc, Ty::Bool, 1);
                    body.push_str(&format!("IF {cond} THEN {}; END_IF;\n", *self.r.pick(&["EXIT", "CONTINUE"])));
                }
                sc.ro.pop();
                sc.in_loop -= 1;
                let by_part = if by == 1 && self.r.bool() && by_txt == lit(1) { String::new() } else { format!(" BY {by_txt}") };
                format!("FOR {cname} := {} TO {}{by_part} DO\n{body}END_FOR;", lit(a), lit(b))
            }
            16 | 17 => {
                // WHILE / REPEAT bounded by a dedicated DINT counter
                let Some(c) = sc.counters.iter().position(|c| c.ends_with(":DINT")).map(|i| sc.counters.remove(i)) else { return ";".into() };
                let cname = c.split(':').next().unwrap_or("k0").to_string();
                let n = self.r.range(0, 6);
                sc.in_loop += 1;
                sc.ro.push(Var { name: cname.clone(), ty: Ty::DInt });
                let mut body = { let n_ = self.r.usize(1, 2); self.block(sc, n_, depth + 1) };
                if self.r.chance(1, 3) {
                    let cond = self.expr(sc, Ty::Bool, 1);
                    // CONTINUE would skip the increment below: only EXIT here
                    body.push_str(&format!("IF {cond} THEN EXIT; END_IF;\n"));
                }
                sc.ro.pop();
                sc.in_loop -= 1;
                if choice == 16 {
                    let extra = self.expr(sc, Ty::Bool, 1);
                    format!("{cname} := 0;\nWHILE ({cname} < {n}) AND ({extra} OR TRUE) DO\n{cname} := {cname} + 1;\n{body}END_WHILE;")
                } else {
                    // the exit condition may read array elements at computed indices, call functions, ... (never decides)
                    let mut n = n;
                    let extra = match sc.arrays.first().cloned() {
                        // an array element indexed by the loop counter itself (the counter stays inside the bounds)
                        Some((an, aty, lo, hi)) if aty != Ty::Bool && lo <= 1 && hi >= 1 && self.r.bool() => {
                            n = n.min(hi);
                            format!("({an}[{cname}] = {})", self.literal(aty))
                        }
                        Some((an, aty, lo, hi)) if aty != Ty::Bool && !sc.ns && self.r.bool() => format!("({an}[LIMIT({lo}, {cname}, {hi})] = {})", self.literal(aty)),
                        _ => self.expr(sc, Ty::Bool, 1),
                    };
                    if self.r.bool() {
                        // the exit condition starts with the array access
                        format!("{cname} := 0;\nREPEAT\n{cname} := {cname} + 1;\n{body}UNTIL ({extra} AND FALSE) OR ({cname} >= {n}) END_REPEAT;")
                    } else {
                        format!("{cname} := 0;\nREPEAT\n{cname} := {cname} + 1;\n{body}UNTIL ({cname} >= {n}) OR ({extra} AND FALSE) END_REPEAT;")
                    }
                }
            }
            18 if sc.can_return => {
                let cond = self.expr(sc, Ty::Bool, 1);
                format!("IF {cond} THEN RETURN; END_IF;")
            }
            _ => {
                if sc.vars.is_empty() {
                    return ";".into();
                }
                let v = sc.vars[self.r.below(sc.vars.len() as u64) as usize].clone();
                format!("{} := {};", v.name, self.expr(sc, v.ty, 1))
            }
        }
    }
}

fn decl_vars(g: &mut Gen<'_>, prefix: &str, n: usize, with_init: bool) -> (Vec<Var>, String) {
    let mut vars = vec![];
    let mut text = String::new();
    for i in 0..n {
        let ty = *g.r.pick(SCALARS);
        let name = format!("{prefix}{i}");
        if with_init && g.r.chance(2, 3) {
            text.push_str(&format!("  {name} : {} := {};\n", ty.name(), g.literal(ty)));
        } else {
            text.push_str(&format!("  {name} : {};\n", ty.name()));
        }
        vars.push(Var { name, ty });
    }
    (vars, text)
}

/// input variables bound to the %I image: (name, type, address text, byte offset, width bytes)
pub fn input_layout() -> Vec<(&'static str, Ty, &'static str, usize, usize)> {
    vec![
        ("in_d", Ty::DInt, "%ID0", 0, 4),
        ("in_i", Ty::Int, "%IW4", 4, 2),
        ("in_s", Ty::SInt, "%IB6", 6, 1),
        ("in_b", Ty::Bool, "%IX7.0", 7, 1),
        ("in_l", Ty::LInt, "%IL8", 8, 8),
        ("in_u", Ty::UInt, "%IW16", 16, 2),
        ("in_r", Ty::Real, "%ID20", 20, 4),
        ("in_w", Ty::Word, "%IW24", 24, 2),
        ("in_ud", Ty::UDInt, "%ID28", 28, 4),
    ]
}
pub const INPUT_LEN: usize = 32;

/// Generate a whole project as JSON: {"knobs":..., "pous":[{"kind","name","header","stmts":[..],"footer"}], "config": text}
pub fn gen_project(r: &mut Rng, knobs: Knobs, size: (usize, usize, usize)) -> Json {
    let (n_funcs, n_fbs, n_progs) = size;
    let mut g = Gen { r, k: knobs.clone() };
    let mut pous = vec![];
    let mut funcs: Vec<FuncSig> = vec![];
    for fi in 0..n_funcs {
        let ret = *g.r.pick(&[Ty::DInt, Ty::DInt, Ty::Int, Ty::Real, Ty::Bool, Ty::LInt, Ty::UInt, Ty::SInt]);
        let np = g.r.usize(1, 3);
        let params: Vec<Ty> = (0..np).map(|_| *g.r.pick(&[Ty::DInt, Ty::Int, Ty::Bool, Ty::Real, Ty::SInt, Ty::UInt, Ty::LInt, Ty::Time])).collect();
        let name = format!("F{fi}");
        let mut header = format!("FUNCTION {name} : {}\nVAR_INPUT\n", ret.name());
        let mut sc = Scope::default();
        for (i, p) in params.iter().enumerate() {
            header.push_str(&format!("  p{i} : {};\n", p.name()));
            sc.ro.push(Var { name: format!("p{i}"), ty: *p });
        }
        header.push_str("END_VAR\nVAR\n");
        let (vars, text) = { let n_ = g.r.usize(1, 4); decl_vars(&mut g, "t", n_, false) };
        header.push_str(&text);
        header.push_str("  k0 : DINT;\n  res : ");
        header.push_str(ret.name());
        header.push_str(";\nEND_VAR\n");
        sc.vars = vars;
        sc.vars.push(Var { name: "res".into(), ty: ret });
        sc.counters = vec!["k0:DINT".into()];
        sc.funcs = funcs.clone();
        let n = g.r.usize(1, g.k.stmts.1.min(6));
        let stmts: Vec<String> = (0..n).map(|_| g.stmt(&mut sc, 1)).collect();
        pous.push(json!({"kind": "function", "name": name, "header": header, "stmts": stmts, "footer": format!("{name} := res;\nEND_FUNCTION\n")}));
        funcs.push(FuncSig { name, ret, params });
    }
    if g.k.namespaces {
        let lib = "NAMESPACE Lib\nFUNCTION Twice : DINT\nVAR_INPUT\n  a : DINT;\nEND_VAR\nTwice := (a MOD 1000) * 2;\nEND_FUNCTION\n\n\
FUNCTION Limit : DINT\nVAR_INPUT\n  a : DINT;\n  b : DINT;\nEND_VAR\nLimit := (a MOD 100) + (b MOD 100);\nEND_FUNCTION\n\n\
FUNCTION Quad : DINT\nVAR_INPUT\n  a : DINT;\nEND_VAR\nQuad := Twice(Twice(a)) + Lib.Inner.Deep(a);\nEND_FUNCTION\n\n\
NAMESPACE Inner\nFUNCTION Deep : DINT\nVAR_INPUT\n  a : DINT;\nEND_VAR\nDeep := Twice(a) + Limit(a, 1);\nEND_FUNCTION\nEND_NAMESPACE\n";
        pous.push(json!({"kind": "namespace", "name": "Lib", "header": lib, "stmts": [], "footer": "END_NAMESPACE\n"}));
    }
    let mut fb_en: Vec<bool> = vec![];
    for bi in 0..n_fbs {
        let name = format!("Fb{bi}");
        let has_en = g.r.chance(1, 2);
        fb_en.push(has_en);
        let (en_in, eno_out) = if has_en { ("  EN : BOOL;\n", "  ENO : BOOL;\n") } else { ("", "") };
        let using = if g.k.namespaces && g.r.bool() { "USING Lib;\n" } else { "" };
        let mut header = format!("FUNCTION_BLOCK {name}\n{using}VAR_INPUT\n{en_in}  x : DINT;\n  go : BOOL;\nEND_VAR\nVAR_OUTPUT\n{eno_out}  y : DINT;\n  z : DINT := 7;\nEND_VAR\nVAR\n");
        let (vars, text) = { let n_ = g.r.usize(1, 4); decl_vars(&mut g, "m", n_, true) };
        header.push_str(&text);
        header.push_str("  k0 : DINT;\n  k1 : INT;\n  tm : TON;\nEND_VAR\n");
        let fb_temp = g.k.temp_init && g.r.bool();
        if fb_temp {
            header.push_str("VAR_TEMP\n  tq : DINT := DINT#1000 / (x + DINT#1);\nEND_VAR\n");
        }
        let mut sc = Scope { vars, ..Scope::default() };
        if fb_temp {
            sc.ro.push(Var { name: "tq".into(), ty: Ty::DInt });
        }
        sc.vars.push(Var { name: "y".into(), ty: Ty::DInt });
        sc.vars.push(Var { name: "z".into(), ty: Ty::DInt });
        sc.ro.push(Var { name: "x".into(), ty: Ty::DInt });
        sc.ro.push(Var { name: "go".into(), ty: Ty::Bool });
        sc.counters = vec!["k0:DINT".into(), "k1:INT".into()];
        sc.std_fbs = vec![("tm".into(), "TON")];
        sc.funcs = funcs.clone();
        sc.can_return = true;
        sc.ns = !using.is_empty();
        let n = g.r.usize(1, g.k.stmts.1.min(8));
        let stmts: Vec<String> = (0..n).map(|_| g.stmt(&mut sc, 0)).collect();
        pous.push(json!({"kind": "fb", "name": name, "header": header, "stmts": stmts, "footer": "END_FUNCTION_BLOCK\n"}));
    }
    let mut config = String::from("CONFIGURATION C\nVAR_GLOBAL\n  g_sel : DINT := 0;\n  g_a : DINT := 1;\n  g_b : INT := INT#2;\n  g_f : BOOL;\n");
    // globals whose type appears nowhere else (length-limited strings, arrays, dates)
    if g.r.bool() {
        config.push_str(&format!("  g_label : STRING[{}] := 'ab';\n", g.r.range(3, 40)));
    }
    if g.r.chance(1, 3) {
        config.push_str(&format!("  g_wide : WSTRING[{}];\n  g_day : DATE := D#2024-02-29;\n", g.r.range(2, 20)));
    }
    if g.r.chance(1, 3) {
        config.push_str(&format!("  g_tab : ARRAY[{}..{}] OF LREAL;\n", g.r.range(-3, 0), g.r.range(1, 6)));
    }
    config.push_str("END_VAR\n");
    if g.k.retain_block {
        config.push_str("VAR_GLOBAL RETAIN\n  g_keep_l : LTIME := LTIME#7ms;\n  g_keep_i : INT := INT#3;\n  g_keep_w : WSTRING[8] := \"ab\";\nEND_VAR\nVAR_GLOBAL PERSISTENT\n  g_keep_p : DINT := 5;\nEND_VAR\n");
    }
    let two_tasks = n_progs >= 2 && g.r.bool();
    let bg_two = g.r.bool();
    config.push_str("TASK TA (INTERVAL := T#10ms, PRIORITY := 1);\n");
    if two_tasks {
        config.push_str("TASK TB (INTERVAL := T#20ms, PRIORITY := 0);\n");
    }
    for pi in 0..n_progs {
        let name = format!("Prog{pi}");
        let using = if g.k.namespaces && g.r.chance(2, 3) { "USING Lib;\n" } else { "" };
        let mut header = format!("PROGRAM {name}\n{using}VAR_EXTERNAL\n  g_sel : DINT;\n  g_a : DINT;\n  g_b : INT;\n  g_f : BOOL;\nEND_VAR\nVAR\n");
        let (vars, text) = { let n_ = g.r.usize(3, 9); decl_vars(&mut g, "v", n_, true) };
        if g.k.retain_block {
            // the first variables go into a retentive block (v0.. exist in every program, with other types), together with
            // two retained variables of types the expression grammar does not use
            let n_keep = g.r.usize(1, 3).min(vars.len());
            let lines: Vec<&str> = text.lines().collect();
            let qual = if g.r.bool() { "RETAIN" } else { "PERSISTENT" };
            header = header.replacen("END_VAR\nVAR\n", &format!("END_VAR\nVAR {qual}\n{}\n  rlt : LTIME := LTIME#5ms;\n  rdt : DATE := D#2024-02-29;\nEND_VAR\nVAR\n", lines[..n_keep].join("\n")), 1);
            header.push_str(&lines[n_keep..].join("\n"));
            header.push('\n');
        } else {
            header.push_str(&text);
        }
        let mut sc = Scope { vars, ..Scope::default() };
        for g_ in [("g_a", Ty::DInt), ("g_b", Ty::Int), ("g_f", Ty::Bool)] {
            sc.vars.push(Var { name: g_.0.into(), ty: g_.1 });
        }
        sc.ro.push(Var { name: "g_sel".into(), ty: Ty::DInt });
        for (iname, ity, addr, _, _) in input_layout() {
            header.push_str(&format!("  {iname} AT {addr} : {};\n", ity.name()));
            sc.ro.push(Var { name: iname.into(), ty: ity });
        }
        let n_arr = g.r.usize(0, 2);
        for ai in 0..n_arr {
            let et = *g.r.pick(&[Ty::DInt, Ty::Int, Ty::SInt, Ty::UInt, Ty::Real, Ty::Bool]);
            let lo = g.r.range(-2, 1);
            let hi = lo + g.r.range(1, 5);
            header.push_str(&format!("  a{ai} : ARRAY[{lo}..{hi}] OF {};\n", et.name()));
            sc.arrays.push((format!("a{ai}"), et, lo, hi));
        }
        if g.r.bool() {
            header.push_str("  st0 : Pt;\n");
            sc.structs.push("st0".into());
        }
        for bi in 0..n_fbs {
            if g.r.bool() {
                header.push_str(&format!("  fb{bi} : Fb{bi};\n"));
                sc.fbs.push((format!("fb{bi}"), bi, fb_en[bi]));
            }
        }
        for (si, kind) in ["TON", "TP", "CTU", "R_TRIG", "SR", "TOF"].iter().enumerate() {
            if g.r.chance(1, 3) {
                header.push_str(&format!("  s{si} : {kind};\n"));
                sc.std_fbs.push((format!("s{si}"), kind));
            }
        }
        header.push_str("  k0 : DINT;\n  k1 : INT;\n  k2 : SINT;\n  k3 : UINT;\n  k4 : LINT;\n  k5 : DINT;\n  out_d AT %QD0 : DINT;\n  out_b AT %QX4.0 : BOOL;\n");
        // an output that overlaps out_d with another address and a conflicting value (whoever wins must win everywhere)
        let overlap = g.r.bool();
        if overlap {
            header.push_str(&format!("  out_lo AT %QB{} : BYTE;\n", g.r.below(4)));
        }
        header.push_str("END_VAR\n");
        if g.k.temp_init && g.r.bool() {
            // a non-constant initialiser that faults for some inputs (in_s = -1, in_i = 2)
            header.push_str("VAR_TEMP\n  tq : DINT := DINT#1000 / (SINT_TO_DINT(in_s) + DINT#1);\n  tr : INT := INT#50 / (in_i - INT#2);\nEND_VAR\n");
            sc.ro.push(Var { name: "tq".into(), ty: Ty::DInt });
            sc.ro.push(Var { name: "tr".into(), ty: Ty::Int });
        }
        sc.counters = vec!["k5:DINT".into(), "k4:LINT".into(), "k3:UINT".into(), "k2:SINT".into(), "k1:INT".into(), "k0:DINT".into()];
        g.r.shuffle(&mut sc.counters);
        sc.vars.push(Var { name: "out_d".into(), ty: Ty::DInt });
        sc.vars.push(Var { name: "out_b".into(), ty: Ty::Bool });
        if overlap {
            sc.vars.push(Var { name: "out_lo".into(), ty: Ty::Byte });
        }
        sc.funcs = funcs.clone();
        sc.can_return = false;
        sc.ns = !using.is_empty();
        let n = g.r.usize(g.k.stmts.0, g.k.stmts.1);
        let stmts: Vec<String> = (0..n).map(|_| g.stmt(&mut sc, 0)).collect();
        pous.push(json!({"kind": "program", "name": name, "header": header, "stmts": stmts, "footer": "END_PROGRAM\n"}));
        // programs without a task run as background programs, in declaration order, after all tasks
        let task = if pi >= 2 && (pi == n_progs - 1 || bg_two) { None } else if two_tasks && pi % 2 == 1 { Some("TB") } else { Some("TA") };
        match task {
            Some(t) => config.push_str(&format!("PROGRAM P{pi} WITH {t} : {name};\n")),
            None => config.push_str(&format!("PROGRAM P{pi} : {name};\n")),
        }
    }
    config.push_str("END_CONFIGURATION\n");
    json!({"knobs": knobs.to_json(), "pous": pous, "config": config})
}

/// `n` self-contained units (enum, struct, alias, interface, class, function, FB with a method, reference)
/// plus one program instantiating them: many keys for every table of the compiler and the encoder.
pub fn gen_bulk(r: &mut Rng, n: usize) -> Json {
    let mut units = vec![];
    let mut order: Vec<usize> = (0..n).collect();
    r.shuffle(&mut order);
    for &i in &order {
        let k = r.range(1, 9);
        let unit = format!(
            "TYPE E{i} : (Ea{i}, Eb{i}, Ec{i}); END_TYPE\nTYPE S{i} : STRUCT a : DINT; b : E{i}; c : ARRAY[0..2] OF INT; END_STRUCT END_TYPE\nTYPE Al{i} : DINT; END_TYPE\n\n\
INTERFACE I{i}\nMETHOD M{i} : DINT\nVAR_INPUT a : DINT; END_VAR\nEND_METHOD\nEND_INTERFACE\n\n\
CLASS C{i} IMPLEMENTS I{i}\nVAR v : DINT; END_VAR\nMETHOD PUBLIC M{i} : DINT\nVAR_INPUT a : DINT; END_VAR\nv := (v + a) MOD 1000;\nM{i} := v;\nEND_METHOD\nMETHOD PUBLIC N{i} : DINT\nN{i} := v + 1;\nEND_METHOD\nMETHOD PUBLIC O{i} : DINT\nO{i} := v + 2;\nEND_METHOD\nMETHOD PUBLIC Q{i} : DINT\nQ{i} := v + 3;\nEND_METHOD\nEND_CLASS\n\n\
CLASS D{i} EXTENDS C{i}\nMETHOD PUBLIC X{i} : DINT\nX{i} := THIS.N{i}() + THIS.O{i}() + THIS.Q{i}();\nEND_METHOD\nEND_CLASS\n\n\
CLASS Gc{i} EXTENDS D{i}\nMETHOD PUBLIC W{i} : DINT\nVAR_INPUT a : DINT; END_VAR\nv := (v + a) MOD 1000;\nW{i} := v;\nEND_METHOD\nEND_CLASS\n\n\
FUNCTION_BLOCK BaseFb{i}\nVAR s2 : DINT; END_VAR\nMETHOD PUBLIC A1 : DINT\nA1 := s2 + 1;\nEND_METHOD\nMETHOD PUBLIC A2 : DINT\nA2 := s2 + 2;\nEND_METHOD\nMETHOD PUBLIC A3 : DINT\nA3 := s2 + 3;\nEND_METHOD\ns2 := (s2 + {k}) MOD 1000;\nEND_FUNCTION_BLOCK\n\n\
FUNCTION_BLOCK DerFb{i} EXTENDS BaseFb{i}\nMETHOD PUBLIC A4 : DINT\nA4 := THIS.A1() + THIS.A2() + THIS.A3();\nEND_METHOD\nEND_FUNCTION_BLOCK\n\n\
FUNCTION_BLOCK Der2Fb{i} EXTENDS DerFb{i}\nMETHOD PUBLIC A5 : DINT\ns2 := (s2 + 1) MOD 1000;\nA5 := s2;\nEND_METHOD\nEND_FUNCTION_BLOCK\n\n\
FUNCTION G{i} : DINT\nVAR_INPUT a : DINT; END_VAR\nG{i} := (a MOD 100) + {k};\nEND_FUNCTION\n\n\
FUNCTION_BLOCK B{i}\nVAR_INPUT x : DINT; END_VAR\nVAR_OUTPUT y : DINT; END_VAR\nVAR s : S{i}; c : C{i}; dd : D{i}; ee : Gc{i}; df : DerFb{i}; d2 : Der2Fb{i}; al : Al{i}; r : REF_TO DINT; END_VAR\n\
METHOD PUBLIC Adv : DINT\nVAR_INPUT k : DINT; END_VAR\ns.a := (s.a + k) MOD 1000;\nAdv := s.a;\nEND_METHOD\n\
al := G{i}(x);\nr := REF(al);\ndf();\ny := (c.M{i}(x) + THIS.Adv(al) + r^ + dd.M{i}(1) + dd.X{i}() + df.A4() + ee.W{i}(2) + d2.A5()) MOD 100000;\n\
IF s.b = E{i}#Ea{i} THEN s.b := E{i}#Eb{i}; ELSE s.b := E{i}#Ea{i}; END_IF;\nEND_FUNCTION_BLOCK\n"
        );
        units.push(json!({"id": i, "text": unit, "var": format!("  b{i} : B{i};\n"), "stmt": format!("b{i}(x := t);\nt := (t + b{i}.y) MOD 1000;\n")}));
    }
    Json::Array(units)
}

pub const PRELUDE: &str = "TYPE Color : (Red, Green, Blue); END_TYPE\nTYPE Pt : STRUCT x : DINT; y : REAL; b : BOOL; END_STRUCT END_TYPE\n\n";

pub fn render(project: &Json) -> String {
    let mut s = String::from(PRELUDE);
    for p in project["pous"].as_array().cloned().unwrap_or_default() {
        s.push_str(p["header"].as_str().unwrap_or(""));
        for st in p["stmts"].as_array().cloned().unwrap_or_default() {
            s.push_str(st.as_str().unwrap_or(""));
            s.push('\n');
        }
        s.push_str(p["footer"].as_str().unwrap_or(""));
        s.push('\n');
    }
    let bulk = project["bulk"].as_array().cloned().unwrap_or_default();
    if !bulk.is_empty() {
        for u in &bulk {
            s.push_str(u["text"].as_str().unwrap_or(""));
            s.push('\n');
        }
        s.push_str("PROGRAM Bulk\nVAR\n  t : DINT;\n");
        for u in &bulk {
            s.push_str(u["var"].as_str().unwrap_or(""));
        }
        s.push_str("END_VAR\n");
        for u in &bulk {
            s.push_str(u["stmt"].as_str().unwrap_or(""));
        }
        s.push_str("END_PROGRAM\n\n");
        let config = project["config"].as_str().unwrap_or("");
        s.push_str(&config.replace("END_CONFIGURATION", "PROGRAM PBulk WITH TA : Bulk;\nEND_CONFIGURATION"));
    } else {
        s.push_str(project["config"].as_str().unwrap_or(""));
    }
    s
}

/// shrink candidates for a project: drop chunks of statements per POU, then single statements
pub fn shrink_project(project: &Json) -> Vec<Json> {
    let mut out = vec![];
    if let Some(bulk) = project["bulk"].as_array() {
        let n = bulk.len();
        let mut chunk = n;
        while chunk >= 1 && n > 0 {
            let mut start = 0;
            while start < n {
                let mut reduced = bulk.clone();
                reduced.drain(start..(start + chunk).min(n));
                let mut np = project.clone();
                np["bulk"] = Json::Array(reduced);
                out.push(np);
                start += chunk;
            }
            if chunk == 1 {
                break;
            }
            chunk /= 2;
        }
    }
    let pous = project["pous"].as_array().cloned().unwrap_or_default();
    for (pi, p) in pous.iter().enumerate() {
        let stmts = p["stmts"].as_array().cloned().unwrap_or_default();
        let n = stmts.len();
        if n == 0 {
            continue;
        }
        let mut chunk = n;
        while chunk >= 1 {
            let mut start = 0;
            while start < n {
                let end = (start + chunk).min(n);
                let mut reduced = stmts.clone();
                reduced.drain(start..end);
                let mut np = project.clone();
                np["pous"][pi]["stmts"] = Json::Array(reduced);
                out.push(np);
                start += chunk;
            }
            if chunk == 1 {
                break;
            }
            chunk /= 2;
        }
    }
    out
}
