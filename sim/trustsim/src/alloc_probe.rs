//! Counting global allocator: records the largest single allocation request
//! (never fails, never unwinds) so "memory proportional to the input" is an
//! observable (DESIGN 2.1).
use std::alloc::{GlobalAlloc, Layout, System};
use std::sync::atomic::{AtomicUsize, Ordering};

pub struct CountingAlloc;

static MAX_SINGLE: AtomicUsize = AtomicUsize::new(0);

unsafe impl GlobalAlloc for CountingAlloc {
    unsafe fn alloc(&self, layout: Layout) -> *mut u8 {
        MAX_SINGLE.fetch_max(layout.size(), Ordering::Relaxed);
        System.alloc(layout)
    }
    unsafe fn dealloc(&self, ptr: *mut u8, layout: Layout) {
        System.dealloc(ptr, layout)
    }
    unsafe fn alloc_zeroed(&self, layout: Layout) -> *mut u8 {
        MAX_SINGLE.fetch_max(layout.size(), Ordering::Relaxed);
        System.alloc_zeroed(layout)
    }
    unsafe fn realloc(&self, ptr: *mut u8, layout: Layout, new_size: usize) -> *mut u8 {
        MAX_SINGLE.fetch_max(new_size, Ordering::Relaxed);
        System.realloc(ptr, layout, new_size)
    }
}

#[global_allocator]
static GLOBAL: CountingAlloc = CountingAlloc;

/// reset the high-water mark of single requests
pub fn reset_max() {
    MAX_SINGLE.store(0, Ordering::Relaxed);
}

/// largest single request since `reset_max`
pub fn max_single() -> usize {
    MAX_SINGLE.load(Ordering::Relaxed)
}
