//! C17 - the debugger is transparent and never wedges the runtime.
//!
//! World (engine B): a cycle thread runs K cycles of a corpus program with the
//! real `DebugControl` attached; the controller (task 0) executes the seeded
//! command script of the case.  A command-free twin run of the same program
//! (same cycle times, debug hook attached, executed first inside the same
//! shuttle execution) provides the reference statement trace (H5b probe:
//! location + call depth per statement) and the reference final state.
//!
//! The controller alternates between *racing* segments (commands issued
//! without waiting: only schedule-independent invariants are asserted) and
//! *parked* segments (it waits until the cycle thread is quiescent in the
//! hook; from there the effect of one continue/step is exactly predictable
//! from the twin trace).
use std::sync::Arc;

use serde_json::{json, Value as Json};

use trust_hir::types::TypeRegistry;
use trust_runtime::debug::{
    ControlAction, DebugBreakpoint, DebugControl, DebugStop, DebugStopReason, HitCondition, LogFragment, SourceLocation,
};
use trust_runtime::harness::parse_debug_expression;
use trust_runtime::value::{DateTimeProfile, Duration};
use trust_runtime::Runtime;
use verif_hooks::probe::{self, StmtEvent};

use super::c17_corpus as corpus;
use crate::engine_b::{self, guard_in_task, Outcome, SchedSpec, SharedObs};
use crate::framework::{guard, shrink_generic, Check, Stats, Tier, Violation};
use crate::rng::{Fnv, Rng};
use crate::world;

pub struct C17Check;
pub static C17: C17Check = C17Check;

/// consecutive polls (with a yield each) without trace growth, in mode Paused,
/// after which the cycle thread counts as parked in the hook
const QUIET_POLLS: usize = 64;
/// polls after which a resumed (previously parked) thread that shows no sign of life counts as not resumed
const RESUME_POLLS: usize = 400;
/// polls a wait may take in total (the statement trace is finite, so a live thread parks or finishes long before)
const WAIT_LIMIT: usize = 200_000;
const MAX_STEPS: usize = 3_000_000;

struct TwinResult {
    trace: Vec<StmtEvent>,
    state: Vec<(String, String)>,
    results: Vec<String>,
}

struct World {
    twin: Runtime,
    debugged: Runtime,
    control: DebugControl,
    cycles: usize,
    dt_ms: i64,
    script: Vec<Json>,
    threads: Vec<(u32, u32, u32)>,
    conditions: Vec<(String, Option<trust_runtime::eval::expr::Expr>)>,
}

fn run_cycles(rt: &mut Runtime, cycles: usize, dt_ms: i64) -> Vec<String> {
    let mut out = vec![];
    for i in 0..cycles {
        rt.set_current_time(Duration::from_millis(dt_ms * i as i64));
        out.push(match rt.execute_cycle() {
            Ok(()) => "ok".to_string(),
            Err(e) => format!("err:{e}"),
        });
    }
    out
}

fn loc_of(e: &StmtEvent) -> Option<(u32, u32, u32)> {
    if e.file == u32::MAX {
        None
    } else {
        Some((e.file, e.start, e.end))
    }
}

fn stop_loc(s: &DebugStop) -> Option<(u32, u32, u32)> {
    s.location.map(|l| (l.file_id, l.start, l.end))
}

fn reason_name(r: DebugStopReason) -> &'static str {
    match r {
        DebugStopReason::Breakpoint => "Breakpoint",
        DebugStopReason::Step => "Step",
        DebugStopReason::Pause => "Pause",
        DebugStopReason::Entry => "Entry",
    }
}

/// thread id per trace entry: the task of the enclosing top-level (depth 0) statement
fn thread_map(trace: &[StmtEvent], threads: &[(u32, u32, u32)]) -> Vec<u32> {
    let mut out = Vec::with_capacity(trace.len());
    let mut cur = 0u32;
    for e in trace {
        if e.depth == 0 {
            if let Some((_, start, _)) = loc_of(e) {
                if let Some((_, _, t)) = threads.iter().find(|(s, en, _)| *s <= start && start < *en) {
                    cur = *t;
                }
            }
        }
        out.push(cur);
    }
    out
}

#[derive(Debug, Clone)]
struct Expect {
    kind: String,
    /// parked position the step was issued from
    k: usize,
    depth: u32,
    same_thread: bool,
    /// position at which the armed step must stop (None: no such statement in the rest of the run)
    j_step: Option<usize>,
}

struct Ctl {
    control: DebugControl,
    obs: SharedObs,
    twin: Arc<TwinResult>,
    tmap: Vec<u32>,
    locs: Vec<(u32, u32, u32)>,
    conditions: Vec<(String, Option<trust_runtime::eval::expr::Expr>)>,
    handle: Option<verif_hooks::sync_std::thread::JoinHandle<(Runtime, Vec<String>)>>,
    // knowledge
    parked_at: Option<usize>,
    /// position the thread was parked at when the last resume command was issued from a known-parked state
    resumed_from: Option<usize>,
    resumes_since_drain: u64,
    parked_known_at_last_drain: bool,
    expect: Option<Expect>,
    verified_upto: usize,
    stops_seen: u64,
}

impl Ctl {
    fn finished(&self) -> bool {
        self.handle.as_ref().map_or(true, |h| h.is_finished())
    }

    /// the debugged trace so far must be a prefix of the twin trace
    fn verify_prefix(&mut self) -> Result<(), Violation> {
        let cur = probe::snapshot();
        for i in self.verified_upto..cur.len() {
            match self.twin.trace.get(i) {
                Some(t) if *t == cur[i] => {}
                other => {
                    return Err(Violation::new(
                        "transparency/trace-diverged",
                        format!("statement trace entry {i} of the debugged run is {:?}, the command-free twin has {:?}", cur[i], other),
                    ));
                }
            }
        }
        self.verified_upto = cur.len();
        Ok(())
    }

    fn check_budget(&mut self, n_stops: usize, at: &str) -> Result<(), Violation> {
        let budget = self.resumes_since_drain + if self.parked_known_at_last_drain { 0 } else { 1 };
        if n_stops as u64 > budget {
            return Err(Violation::new(
                "stop/double-notification",
                format!(
                    "{at}: {n_stops} stop notifications arrived although only {} continue/step commands were issued since the last drain ({}); every stop after the first needs a resume in between",
                    self.resumes_since_drain,
                    if self.parked_known_at_last_drain { "thread was parked and its stop already drained" } else { "thread was running at the last drain" }
                ),
            ));
        }
        Ok(())
    }

    fn resume_bookkeeping(&mut self) {
        self.resumed_from = self.parked_at.take();
        self.resumes_since_drain += 1;
    }

    fn apply(&self, action: ControlAction) -> Result<(), Violation> {
        guard_in_task("DebugControl::apply_action", || {
            let _ = self.control.apply_action(action);
        })
    }

    fn op(&mut self, idx: usize, op: &Json) -> Result<(), Violation> {
        let kind = op["op"].as_str().unwrap_or("");
        self.obs.phase(kind);
        match kind {
            "bp" => {
                self.expect = None;
                let mut bps = vec![];
                let mut desc = vec![];
                for b in op["bps"].as_array().cloned().unwrap_or_default() {
                    if self.locs.is_empty() {
                        break;
                    }
                    let (file, start, end) = self.locs[b["loc"].as_u64().unwrap_or(0) as usize % self.locs.len()];
                    let mut bp = DebugBreakpoint::new(SourceLocation::new(file, start, end));
                    let kind = b["kind"].as_str().unwrap_or("plain");
                    let cond = b["cond"].as_u64().map(|c| c as usize % self.conditions.len().max(1)).and_then(|c| self.conditions.get(c).cloned());
                    match kind {
                        "cond" => {
                            if let Some((_, Some(expr))) = &cond {
                                bp.condition = Some(expr.clone());
                            }
                        }
                        "hit" => {
                            let n = b["n"].as_u64().unwrap_or(1);
                            bp.hit_condition = Some(match b["cmp"].as_str().unwrap_or("eq") {
                                "ge" => HitCondition::AtLeast(n),
                                "gt" => HitCondition::GreaterThan(n),
                                _ => HitCondition::Equal(n),
                            });
                        }
                        "log" => {
                            let mut frags = vec![LogFragment::Text("v=".to_string())];
                            if let Some((_, Some(expr))) = &cond {
                                frags.push(LogFragment::Expr(expr.clone()));
                            }
                            bp.log_message = Some(frags);
                        }
                        _ => {}
                    }
                    desc.push(format!("{kind}@{start}"));
                    bps.push(bp);
                }
                let control = self.control.clone();
                guard_in_task("set_breakpoints_for_file", move || control.set_breakpoints_for_file(0, bps))?;
                self.obs.inc("ops.set-breakpoints");
                self.obs.ev(format!("{idx} bp [{}]", desc.join(",")));
            }
            "clear" => {
                self.expect = None;
                guard_in_task("clear_breakpoints", || self.control.clear_breakpoints())?;
                self.obs.ev(format!("{idx} clear"));
            }
            "pause" => {
                self.expect = None;
                let thread = op["thread"].as_u64().map(|t| t as u32);
                self.apply(ControlAction::Pause(thread))?;
                self.obs.inc(if thread.is_some() { "ops.pause-thread" } else { "ops.pause" });
                self.obs.ev(format!("{idx} pause {thread:?}"));
            }
            "continue" => {
                self.expect = None;
                if self.parked_at.is_some() {
                    self.obs.inc("probe.continue-from-parked");
                }
                self.resume_bookkeeping();
                self.apply(ControlAction::Continue)?;
                self.obs.ev(format!("{idx} continue"));
            }
            "step" => {
                let which = op["kind"].as_str().unwrap_or("in").to_string();
                // thread argument: null (global), "current" (thread of the parked statement), or an id
                let parked = self.parked_at;
                let cur_thread = parked.and_then(|k| self.tmap.get(k).copied());
                let thread: Option<u32> = match &op["thread"] {
                    Json::String(s) if s == "current" => cur_thread,
                    v => v.as_u64().map(|t| t as u32),
                };
                self.expect = None;
                if let (Some(k), Some(cur)) = (parked, cur_thread) {
                    // known-parked: the effect of this step is predictable from the twin trace
                    let target = thread.unwrap_or(cur);
                    let same_thread = target == cur;
                    let depth = self.twin.trace[k].depth;
                    let origin_depth = if same_thread {
                        depth
                    } else {
                        // the depth remembered for the target thread: its last executed statement
                        (0..=k).rev().find(|j| self.tmap[*j] == target).map(|j| self.twin.trace[j].depth).unwrap_or(depth)
                    };
                    let limit = match which.as_str() {
                        "over" => Some(origin_depth),
                        "out" => Some(origin_depth.saturating_sub(1)),
                        _ => None,
                    };
                    let j_step = (k + 1..self.twin.trace.len()).find(|j| {
                        self.tmap[*j] == target && loc_of(&self.twin.trace[*j]).is_some() && limit.map_or(true, |l| self.twin.trace[*j].depth <= l)
                    });
                    self.expect = Some(Expect { kind: which.clone(), k, depth, same_thread, j_step });
                    self.obs.inc(&format!("probe.step-{which}-from-parked"));
                }
                self.resume_bookkeeping();
                let action = match which.as_str() {
                    "over" => ControlAction::StepOver(thread),
                    "out" => ControlAction::StepOut(thread),
                    _ => ControlAction::StepIn(thread),
                };
                self.apply(action)?;
                self.obs.inc(&format!("ops.step-{which}"));
                self.obs.ev(format!("{idx} step-{which} {thread:?}"));
            }
            "entry" => {
                // stopOnEntry flavour of pause (races with the start of the cycle thread)
                self.expect = None;
                guard_in_task("DebugControl::pause_entry", || self.control.pause_entry())?;
                self.obs.inc("ops.pause-entry");
                self.obs.ev(format!("{idx} entry"));
            }
            "inspect" => {
                // read-only adapter traffic contending for the debug state lock
                let control = self.control.clone();
                let (logs, bps) = guard_in_task("DebugControl read accessors", move || {
                    let _ = control.snapshot().map(|s| s.now);
                    let _ = control.last_stop();
                    let _ = control.mode();
                    let _ = control.last_location();
                    let _ = control.frame_locations().len();
                    let _ = control.target_thread();
                    (control.drain_logs().len(), control.breakpoint_count())
                })?;
                if logs > 0 {
                    self.obs.add("probe.logpoint-messages", logs as u64);
                }
                self.obs.inc("ops.inspect");
                let _ = bps;
            }
            "wait" => self.wait(idx)?,
            "yield" => {
                for _ in 0..op["n"].as_u64().unwrap_or(1).min(40) {
                    shuttle::thread::yield_now();
                }
            }
            _ => {}
        }
        Ok(())
    }

    fn wait(&mut self, idx: usize) -> Result<(), Violation> {
        let mut last_len = usize::MAX;
        let mut stable = 0usize;
        let mut polls = 0usize;
        let parked;
        loop {
            if self.finished() {
                parked = None;
                break;
            }
            let len = probe::len();
            let paused = guard_in_task("DebugControl::is_paused", || self.control.is_paused())?;
            if len == last_len {
                stable += 1;
            } else {
                stable = 0;
                last_len = len;
            }
            if paused && stable >= QUIET_POLLS && len > 0 {
                parked = Some(len - 1);
                break;
            }
            // a resume issued from a known-parked state must show: the trace grows, the thread finishes, or it stops again
            if let Some(k) = self.resumed_from {
                if !paused && len == k + 1 && stable >= RESUME_POLLS {
                    return Err(Violation::new(
                        "resume/no-progress",
                        format!("op {idx}: the cycle thread was parked at trace entry {k}; a continue/step was issued but no statement has executed since ({RESUME_POLLS} polls)"),
                    ));
                }
            }
            polls += 1;
            if polls > WAIT_LIMIT {
                return Err(Violation::new(
                    "wedged/no-progress",
                    format!("op {idx}: the cycle thread neither parks nor finishes (trace length {len}, paused={paused})"),
                ));
            }
            shuttle::thread::yield_now();
        }
        self.verify_prefix()?;
        let stops = guard_in_task("DebugControl::drain_stops", || self.control.drain_stops())?;
        self.stops_seen += stops.len() as u64;
        let expect = self.expect.take();
        match parked {
            None => {
                self.check_budget(stops.len(), &format!("op {idx} (thread finished)"))?;
                self.obs.ev(format!("{idx} wait -> finished, {} stale stop(s)", stops.len()));
                let executed = probe::len();
                if executed < self.twin.trace.len() {
                    return Err(Violation::new(
                        "transparency/trace-length",
                        format!("op {idx}: the debugged run ended after {executed} statements, the command-free twin executes {}", self.twin.trace.len()),
                    ));
                }
                if let Some(e) = expect {
                    if let Some(j) = e.j_step {
                        return Err(Violation::new(
                            format!("step/{}-ran-past-target", e.kind),
                            format!(
                                "op {idx}: step-{} issued at trace entry {} (depth {}) had to stop at entry {j} ({:?}, depth {}) but the run finished without stopping",
                                e.kind, e.k, e.depth, loc_of(&self.twin.trace[j]), self.twin.trace[j].depth
                            ),
                        ));
                    }
                }
                self.parked_known_at_last_drain = false;
                self.resumes_since_drain = 0;
                self.resumed_from = None;
            }
            Some(k) => {
                if self.parked_at == Some(k) && self.resumed_from.is_none() {
                    // still parked where we knew it was; nothing may have been emitted meanwhile
                    self.check_budget(stops.len(), &format!("op {idx} (still parked at {k})"))?;
                    self.obs.ev(format!("{idx} wait -> still parked at {k}"));
                    return Ok(());
                }
                self.check_budget(stops.len(), &format!("op {idx} (parked at {k})"))?;
                let Some(last) = stops.last() else {
                    return Err(Violation::new(
                        "stop/silent",
                        format!("op {idx}: the cycle thread is parked in the debug hook at trace entry {k} (mode Paused, trace unchanged for {QUIET_POLLS} polls) but no stop notification was emitted since the last resume"),
                    ));
                };
                let entry = self.twin.trace[k];
                if stop_loc(last) != loc_of(&entry) {
                    return Err(Violation::new(
                        "stop/location",
                        format!("op {idx}: parked at trace entry {k} = {:?} but the stop notification ({}) carries location {:?}", loc_of(&entry), reason_name(last.reason), stop_loc(last)),
                    ));
                }
                if last.thread_id != Some(self.tmap[k]) {
                    return Err(Violation::new(
                        "harness/thread-map",
                        format!("op {idx}: stop at entry {k} reports thread {:?}, the location map says {}", last.thread_id, self.tmap[k]),
                    ));
                }
                self.obs.inc(&format!("stops.{}", reason_name(last.reason)));
                self.obs.inc("probe.parked-observed");
                self.obs.ev(format!("{idx} wait -> parked at {k} depth {} {} ({} stop(s))", entry.depth, reason_name(last.reason), stops.len()));
                if let Some(e) = expect {
                    self.check_step(idx, &e, k, last)?;
                }
                self.parked_at = Some(k);
                self.resumed_from = None;
                self.parked_known_at_last_drain = true;
                self.resumes_since_drain = 0;
            }
        }
        Ok(())
    }

    fn check_step(&mut self, idx: usize, e: &Expect, k: usize, stop: &DebugStop) -> Result<(), Violation> {
        let depth = self.twin.trace[k].depth;
        let is_step = stop.reason == DebugStopReason::Step;
        if k <= e.k {
            return Err(Violation::new(
                "step/no-advance",
                format!("op {idx}: step-{} issued while parked at entry {} but the thread is parked at entry {k}", e.kind, e.k),
            ));
        }
        match e.j_step {
            Some(j) if k > j => {
                let sig = if e.kind == "in" { "step/in-not-next-statement".to_string() } else { format!("step/{}-skipped-target", e.kind) };
                return Err(Violation::new(
                    sig,
                    format!(
                        "op {idx}: step-{} issued at entry {} (depth {}) must stop at entry {j} (depth {}) but stopped at entry {k} (depth {depth}, {})",
                        e.kind, e.k, e.depth, self.twin.trace[j].depth, reason_name(stop.reason)
                    ),
                ));
            }
            Some(j) if k < j && stop.reason != DebugStopReason::Breakpoint => {
                return Err(Violation::new(
                    format!("step/{}-stopped-early", e.kind),
                    format!(
                        "op {idx}: step-{} issued at entry {} (depth {}) stopped at entry {k} (depth {depth}, reason {}) before its target entry {j}",
                        e.kind, e.k, e.depth, reason_name(stop.reason)
                    ),
                ));
            }
            None if stop.reason != DebugStopReason::Breakpoint => {
                return Err(Violation::new(
                    format!("step/{}-stopped-early", e.kind),
                    format!("op {idx}: step-{} issued at entry {} has no target in the rest of the run but stopped at entry {k} (reason {})", e.kind, e.k, reason_name(stop.reason)),
                ));
            }
            _ => {}
        }
        if is_step && e.same_thread {
            // property text: over/out never stop deeper than where they were issued
            if (e.kind == "over" || e.kind == "out") && depth > e.depth {
                return Err(Violation::new(
                    format!("step/{}-stopped-deeper", e.kind),
                    format!("op {idx}: step-{} issued at depth {} stopped at depth {depth} (entry {k})", e.kind, e.depth),
                ));
            }
            // documented StepKind::Out: pause after returning to the caller
            if e.kind == "out" && e.depth >= 1 && depth >= e.depth {
                return Err(Violation::new(
                    "step/out-did-not-leave-frame",
                    format!("op {idx}: step-out issued at depth {} stopped at depth {depth} (entry {k}), not in a caller", e.depth),
                ));
            }
            self.obs.inc(&format!("probe.step-{}-checked", e.kind));
            if e.kind == "over" && (e.k + 1..k).any(|j| self.twin.trace[j].depth > e.depth) {
                self.obs.inc("probe.step-over-skipped-a-call");
            }
            if e.kind == "out" && e.depth >= 1 {
                self.obs.inc("probe.step-out-from-callee");
            }
        }
        Ok(())
    }
}

fn controller(world: World, obs: SharedObs) -> Result<(), Violation> {
    let World { mut twin, debugged, control, cycles, dt_ms, script, threads, conditions } = world;
    // 1. command-free twin (sequential, on this task)
    obs.phase("twin");
    probe::enable();
    // the twin run also checks that the hook stays attached: a cycle in which statements execute (H2 budget
    // counter) must show at least one of them to the debug hook (H5b probe) - otherwise every later breakpoint,
    // pause and step would silently do nothing, in the twin and in the debugged run alike
    let mut coverage: Vec<(usize, u64)> = vec![];
    // every statement the interpreter executes (H2b counter in exec_stmt) must be shown to the attached debug hook
    // (H5b probe): a statement that runs unseen can be neither stepped into, nor paused on, nor hit by a breakpoint
    let mut unseen: Option<(usize, u64, usize)> = None;
    let results = guard_in_task("twin run", || {
        let mut out = vec![];
        for i in 0..cycles {
            twin.set_current_time(Duration::from_millis(dt_ms * i as i64));
            let (p0, b0, s0) = (probe::len(), verif_hooks::budget::executed(), verif_hooks::budget::statements());
            out.push(match twin.execute_cycle() {
                Ok(()) => "ok".to_string(),
                Err(e) => format!("err:{e}"),
            });
            coverage.push((probe::len() - p0, verif_hooks::budget::executed() - b0));
            let (seen, stmts) = (probe::len() - p0, verif_hooks::budget::statements() - s0);
            if unseen.is_none() && stmts != seen as u64 {
                unseen = Some((i as usize, stmts, seen));
            }
        }
        out
    })?;
    if let Some((cycle, (_, executed))) = coverage.iter().enumerate().find(|(_, (seen, executed))| *seen == 0 && *executed > 0) {
        return Err(Violation::new(
            "hook/detached",
            format!("cycle {cycle} of the command-free run executed {executed} statement/loop points but none reached the debug hook: the debugger is no longer attached (per cycle (seen, executed): {coverage:?})"),
        ));
    }
    if let Some((cycle, stmts, seen)) = unseen {
        return Err(Violation::new(
            "hook/statement-not-reported",
            format!("cycle {cycle} of the command-free run executed {stmts} statements but the attached debug hook was shown {seen}: statements run where the debugger cannot stop"),
        ));
    }
    // every statement the interpreter executes must reach the hook WITH its source location: a statement without
    // one can be neither a breakpoint nor the "very next statement" a step-in stops at
    if let Some((k, e)) = probe::snapshot().iter().enumerate().find(|(_, e)| loc_of(e).is_none()) {
        return Err(Violation::new(
            "hook/statement-without-location",
            format!("entry {k} of the command-free run reached the debug hook without a source location (depth {}): the statement is invisible to breakpoints and steps", e.depth),
        ));
    }
    let twin_res = Arc::new(TwinResult { trace: probe::snapshot(), state: world::dump_storage(&twin), results });
    drop(twin);
    let tmap = thread_map(&twin_res.trace, &threads);
    let mut locs: Vec<(u32, u32, u32)> = twin_res.trace.iter().filter_map(loc_of).collect();
    locs.sort_unstable();
    locs.dedup();
    obs.ev(format!("twin trace {} entries, {} locations, results {:?}", twin_res.trace.len(), locs.len(), twin_res.results));
    obs.add("statements", twin_res.trace.len() as u64);
    // 2. debugged run
    probe::enable();
    let mut rt = debugged;
    let handle = verif_hooks::sync_std::thread::Builder::new()
        .name("cycle".to_string())
        .spawn(move || {
            let results = run_cycles(&mut rt, cycles, dt_ms);
            (rt, results)
        })
        .map_err(|e| Violation::new("harness/spawn", e.to_string()))?;
    let mut ctl = Ctl {
        control,
        obs: obs.clone(),
        twin: twin_res.clone(),
        tmap,
        locs,
        conditions,
        handle: Some(handle),
        parked_at: None,
        resumed_from: None,
        resumes_since_drain: 0,
        parked_known_at_last_drain: false,
        expect: None,
        verified_upto: 0,
        stops_seen: 0,
    };
    let mut outcome: Result<(), Violation> = (|| {
        for (idx, op) in script.iter().enumerate() {
            ctl.op(idx, op)?;
        }
        Ok(())
    })();
    if let Err(v) = &outcome {
        // recorded now: the tear-down below may itself wedge on the same defect
        obs.violate(v.clone());
    }
    // 3. the script always ends with clear-breakpoints + continue, then the join
    obs.phase("final-continue");
    let fin = guard_in_task("final clear+continue", || {
        ctl.control.clear_breakpoints();
        let _ = ctl.control.apply_action(ControlAction::Continue);
    });
    ctl.resume_bookkeeping();
    outcome = outcome.and(fin);
    obs.phase("final-join");
    let joined = ctl.handle.take().map(|h| h.join());
    outcome?;
    let (rt, results) = match joined {
        Some(Ok(v)) => v,
        Some(Err(_)) => {
            let msg = verif_hooks::sync_std::thread::verif_peek_panics().last().map(|p| p.1.clone()).unwrap_or_default();
            return Err(Violation::new(format!("thread-panic/{}", msg.chars().take(60).collect::<String>()), format!("the cycle thread panicked: {msg}")));
        }
        None => return Err(Violation::new("harness/join", "no handle")),
    };
    obs.phase("compare");
    let stops = guard_in_task("DebugControl::drain_stops", || ctl.control.drain_stops())?;
    ctl.stops_seen += stops.len() as u64;
    ctl.check_budget(stops.len(), "after the final continue")?;
    obs.add("stops", ctl.stops_seen);
    // 4. transparency
    let trace = probe::snapshot();
    probe::disable();
    if trace.len() != twin_res.trace.len() {
        ctl.verify_prefix()?;
        return Err(Violation::new(
            "transparency/trace-length",
            format!("the debugged run executed {} statements, the command-free twin {}", trace.len(), twin_res.trace.len()),
        ));
    }
    ctl.verified_upto = 0;
    ctl.verify_prefix()?;
    if results != twin_res.results {
        return Err(Violation::new("transparency/cycle-results", format!("debugged {:?} vs twin {:?}", results, twin_res.results)));
    }
    let state = world::dump_storage(&rt);
    if state != twin_res.state {
        let diff: Vec<String> = state
            .iter()
            .zip(twin_res.state.iter())
            .filter(|(a, b)| a != b)
            .take(4)
            .map(|(a, b)| format!("{}={} (twin {}={})", a.0, a.1, b.0, b.1))
            .collect();
        return Err(Violation::new("transparency/final-state", format!("final variable state differs from the twin: {}", diff.join("; "))));
    }
    let mut h = Fnv::new();
    for (k, v) in &state {
        h.str(k).str(v);
    }
    obs.ev(format!("final trace {} state {:x}", trace.len(), h.finish()));
    Ok(())
}

const CONDITIONS: &[&str] = &["g_cnt > 1", "g_acc MOD 2 = 0", "g_flag", "g_aux >= 3", "g_cnt / 0 > 1", "g_cnt"];

impl Check for C17Check {
    fn id(&self) -> &'static str {
        "C17"
    }
    fn cases(&self, tier: Tier) -> u64 {
        match tier {
            Tier::Quick => 20_000,
            Tier::Thorough => 600_000,
        }
    }
    fn hang_limit_s(&self) -> u64 {
        180
    }
    fn rule(&self) -> &'static str {
        "case = corpus template (6 hand-written ST programs with nested FUNCTION->FB->method calls, FOR/WHILE/REPEAT loops, EXIT/CONTINUE/RETURN, 2-3 tasks + background program) with seeded parameters x K in 1..4 cycles x seeded controller script over {set breakpoints (plain, conditional, hit-count, logpoint), clear, pause, pause(thread), continue, step in/over/out (global, current thread, other thread), wait-for-stop, yield} x one shuttle schedule; corpus now 7 templates (task-bound FB instances; RETURN executed); the command-free run also requires that the hook stays attached and that every executed statement reaches it with a source location; distinct non-trivial = distinct hash of the ordered observable event log of runs in which the cycle thread was observed parked at least once"
    }
    fn assumptions(&self) -> Vec<&'static str> {
        vec![
            "the cycle thread counts as parked in the hook when the mode is Paused and the statement trace has not grown for 64 controller polls (each with a yield); a resumed thread counts as not resumed after 400 such polls without a new statement",
            "commands issued while the thread is not known to be parked (racing) assert only schedule-independent facts: transparency, stop location = parked statement, stops <= resumes + 1, liveness",
            "exact step expectations are asserted only for a step issued while the thread is known to be parked and followed directly by a wait; a step is thread-scoped (StepIn(None) binds to the current task as the code does): 'the very next statement' is the next statement of that task; a Breakpoint-reason stop may legitimately precede the step target or be deeper",
            "beyond the property text (depth(stop) <= depth(origin)), the documented StepKind semantics are asserted: step-over/out must not run past the first statement at depth <= origin (resp. origin-1), and step-out from depth >= 1 stops in a caller",
            "transparency = statement trace (location, call depth) and final variable state and per-cycle results equal to the command-free twin; no value is written by the scripts",
            "DAP adapter (StopCoordinator, stdout) is not simulated; stops are read with drain_stops()",
        ]
    }
    fn components(&self) -> (Vec<&'static str>, Vec<&'static str>) {
        (
            vec![
                "compiler front end + lowering",
                "Runtime::execute_cycle with DebugControl attached (statement hook, breakpoints, conditions, hit counts, logpoints)",
                "DebugControl::apply_action / set_breakpoints_for_file / clear_breakpoints / drain_stops (Mutex + Condvar)",
                "parse_debug_expression",
            ],
            vec!["OS threads (shuttle coroutines)", "std::sync Mutex/Condvar of debug/control.rs (shuttle-backed shim)", "DAP adapter / StopCoordinator (not run)"],
        )
    }

    fn generate(&self, rng: &mut Rng, tier: Tier, _index: u64) -> Json {
        let mut cfg = rng.fork("config");
        let mut ops = rng.fork("script");
        let mut sch = rng.fork("schedule");
        let template = cfg.usize(0, corpus::TEMPLATES - 1);
        let params = json!({
            "n1": cfg.range(1, 4), "n2": cfg.range(1, 4), "c1": cfg.range(2, 12), "c2": cfg.range(1, 9),
            "i0": *cfg.pick(&[10i64, 10, 20]), "i1": *cfg.pick(&[10i64, 20, 30]), "i2": *cfg.pick(&[10i64, 30, 40]),
            "pr0": cfg.range(0, 2), "pr1": cfg.range(0, 2), "pr2": cfg.range(0, 2),
        });
        let cycles = cfg.usize(1, 4);
        let n_threads = if template == 3 { 4 } else { 2 };
        let len = match tier {
            Tier::Quick => ops.usize(3, 24),
            Tier::Thorough => ops.usize(3, 48),
        };
        let mut script: Vec<Json> = vec![];
        let thread_arg = |ops: &mut Rng| -> Json {
            match ops.below(10) {
                0..=3 => Json::Null,
                4..=7 => json!("current"),
                _ => json!(ops.usize(1, n_threads)),
            }
        };
        let bp = |ops: &mut Rng| -> Json {
            let n = ops.usize(1, 3);
            let bps: Vec<Json> = (0..n)
                .map(|_| {
                    let kind = *ops.pick(&["plain", "plain", "plain", "cond", "hit", "log"]);
                    json!({"loc": ops.below(64), "kind": kind, "cond": ops.below(CONDITIONS.len() as u64), "n": ops.range(1, 4), "cmp": *ops.pick(&["eq", "ge", "gt"])})
                })
                .collect();
            json!({"op": "bp", "bps": bps})
        };
        // most scripts start by arranging a stop
        if ops.chance(3, 4) {
            match ops.below(8) {
                0..=3 => script.push(bp(&mut ops)),
                4 => script.push(json!({"op": "entry"})),
                _ => script.push(json!({"op": "pause", "thread": Json::Null})),
            }
            if ops.chance(3, 4) {
                script.push(json!({"op": "wait"}));
            }
        }
        while script.len() < len {
            match ops.below(100) {
                0..=11 => script.push(bp(&mut ops)),
                12..=15 => script.push(json!({"op": "clear"})),
                16..=23 => script.push(json!({"op": "pause", "thread": if ops.chance(1, 3) { json!(ops.usize(1, n_threads)) } else { Json::Null }})),
                24..=33 => {
                    script.push(json!({"op": "continue"}));
                    if ops.chance(2, 3) {
                        script.push(json!({"op": "wait"}));
                    }
                }
                34..=73 => {
                    let kind = *ops.pick(&["in", "in", "over", "over", "over", "out", "out"]);
                    script.push(json!({"op": "step", "kind": kind, "thread": thread_arg(&mut ops)}));
                    if ops.chance(4, 5) {
                        script.push(json!({"op": "wait"}));
                    }
                }
                74..=83 => script.push(json!({"op": "wait"})),
                84..=89 => script.push(json!({"op": "inspect"})),
                _ => script.push(json!({"op": "yield", "n": ops.usize(1, 8)})),
            }
        }
        json!({
            "template": template,
            "params": params,
            "cycles": cycles,
            "dt_ms": 10,
            "script": script,
            "sched": SchedSpec::generate(&mut sch).to_json(),
        })
    }

    fn shrink(&self, case: &Json) -> Vec<Json> {
        let spec = SchedSpec::from_json(&case["sched"]);
        let mut out = vec![];
        for cand in shrink_generic(case) {
            out.push(cand.clone());
            for k in 1..=2 {
                let mut alt = cand.clone();
                alt["sched"] = spec.reseeded(k).to_json();
                out.push(alt);
            }
        }
        // fewer cycles
        if let Some(c) = case["cycles"].as_u64() {
            if c > 1 {
                let mut alt = case.clone();
                alt["cycles"] = json!(c - 1);
                out.push(alt);
            }
        }
        out
    }

    fn run(&self, case: &Json, stats: &mut Stats) -> Result<(), Violation> {
        for key in [
            "probe.parked-observed",
            "probe.continue-from-parked",
            "probe.step-in-from-parked",
            "probe.step-over-from-parked",
            "probe.step-out-from-parked",
            "probe.step-in-checked",
            "probe.step-over-checked",
            "probe.step-out-checked",
            "probe.step-over-skipped-a-call",
            "probe.step-out-from-callee",
            "stops.Breakpoint",
            "stops.Step",
            "stops.Pause",
            "stops.Entry",
            "probe.logpoint-messages",
        ] {
            stats.add(key, 0);
        }
        let spec = SchedSpec::from_json(&case["sched"]);
        let template = case["template"].as_u64().unwrap_or(0) as usize;
        let (src, n_tasks, _bg) = corpus::source(template, &case["params"]);
        let twin = guard("compile", || world::compile(&src))?.map_err(|e| Violation::new("harness/compile", format!("{e}\n{src}")))?;
        let mut debugged = guard("compile", || world::compile(&src))?.map_err(|e| Violation::new("harness/compile", format!("{e}\n{src}")))?;
        let mut twin = twin;
        // both runs have a DebugControl attached (the hook carries the probe); only one receives commands
        let _twin_control = twin.enable_debug();
        let control = debugged.enable_debug();
        let mut conditions = vec![];
        for text in CONDITIONS {
            let mut registry = TypeRegistry::new();
            let expr = parse_debug_expression(text, &mut registry, DateTimeProfile::default(), &[]).ok();
            conditions.push((text.to_string(), expr));
        }
        let world = World {
            twin,
            debugged,
            control,
            cycles: case["cycles"].as_u64().unwrap_or(1).clamp(1, 8) as usize,
            dt_ms: case["dt_ms"].as_i64().unwrap_or(10).max(1),
            script: case["script"].as_array().cloned().unwrap_or_default(),
            threads: corpus::program_threads(&src, n_tasks),
            conditions,
        };
        let obs = SharedObs::new();
        let obs2 = obs.clone();
        let report = engine_b::run_execution(&spec, MAX_STEPS, move || {
            if let Err(v) = controller(world, obs2.clone()) {
                obs2.violate(v);
            }
        });
        probe::disable();
        engine_b::feed_stats(stats, &obs, &report);
        stats.inc(&format!("scheduler.{}", spec.kind));
        stats.inc(&format!("template.{template}"));
        let (violation, phase, events, parked) = {
            let o = obs.0.lock().unwrap_or_else(|e| e.into_inner());
            (o.violation.clone(), o.phase.clone(), o.events.clone(), o.counters.get("probe.parked-observed").copied().unwrap_or(0))
        };
        if parked > 0 {
            let mut h = Fnv::new();
            for e in &events {
                h.str(e);
            }
            stats.nontrivial(h.finish());
            if parked > 3 {
                stats.sample(case.clone());
            }
        }
        if let Some(v) = violation {
            return Err(v);
        }
        match report.outcome {
            Outcome::Deadlock(msg) => {
                return Err(Violation::new(
                    format!("wedged/deadlock/{phase}"),
                    format!("all threads blocked while the controller was in phase '{phase}': {}", msg.chars().take(300).collect::<String>()),
                ));
            }
            Outcome::StepBound => {
                return Err(Violation::new(
                    format!("wedged/step-bound/{phase}"),
                    format!("the execution exceeded {MAX_STEPS} scheduling steps while the controller was in phase '{phase}'"),
                ));
            }
            Outcome::Panic { location, message } => {
                if engine_b::is_harness_location(&location) {
                    return Err(Violation::new("harness/panic", format!("{location}: {message}")));
                }
                return Err(Violation::new(engine_b::panic_signature(&location, &message), format!("panic at {location} (controller phase '{phase}'): {message}")));
            }
            Outcome::Completed => {}
        }
        Ok(())
    }
}
