use crate::framework::Check;

pub mod c06;

pub fn all() -> Vec<&'static dyn Check> {
    vec![&c06::C06]
}
