#!/usr/bin/env python3
"""tools/seeded_table.py: markdown table of /verif/seeded/*/meta.json (for DESIGN.md 10.5)"""
import glob, json, os, re

def key(d):
    m = re.match(r"(C\d+)-(r(\d+)-)?(\d+)", os.path.basename(d.rstrip("/")))
    return (int(m.group(3) or 1), m.group(1), int(m.group(4)))

rows, stats = [], {}
for d in sorted(glob.glob("/verif/seeded/*/"), key=key):
    name = os.path.basename(d.rstrip("/"))
    m = json.load(open(d + "meta.json"))
    rnd = key(d)[0]
    det = m.get("detected_by", {})
    caught = [(k, v) for k, v in det.items() if v.get("verdict") == "caught"]
    now = "caught" if caught else "missed"
    by = ", ".join(sorted({k.split(":")[0].split(" ")[0] for k, _ in caught}))
    sigs = []
    for _, v in caught:
        sigs += v.get("signatures", [])
    first = m.get("initial_verdict", "?").strip().rstrip(",").split(" ")[0]
    note = " (superseded by a fix)" if m.get("superseded") else ""
    summary = " ".join(str(m.get("summary", "")).split())[:110].replace("|", "/")
    rows.append(f"| {name} | {summary} | {first} | {now}{note} | {by} | `{', '.join(sigs[:2])}` |")
    s = stats.setdefault(rnd, {"n": 0, "first": 0, "now": 0})
    s["n"] += 1
    s["first"] += first == "caught"
    s["now"] += now == "caught"
print("| change | what it does | first verdict | now | caught by | signatures (first two) |")
print("|---|---|---|---|---|---|")
print("\n".join(rows))
print()
for r, s in sorted(stats.items()):
    print(f"round {r}: {s['n']} changes, {s['first']} caught by the checks as they were, {s['now']} caught now")
