#!/usr/bin/env python3
"""tools/mutant_prompt.py <ID> [n] [round]  - brief for a mutant sub-agent (property text only, nothing from /verif's checks).
For round >= 2 the brief lists one-line descriptions of the changes earlier rounds produced, so that new ones differ."""
import glob, json, sys
pid = sys.argv[1]
n = sys.argv[2] if len(sys.argv) > 2 else "3"
rnd = int(sys.argv[3]) if len(sys.argv) > 3 else 1
props = {json.loads(l)["id"]: json.loads(l) for l in open("/verif/properties.jsonl")}
p = props[pid]
t = open("/verif/tools/mutant_prompt.txt").read()
wt = f"/tmp/mut{rnd if rnd > 1 else ''}-{pid}"
out = t.format(WT=wt, ID=pid, TITLE=p["title"], STATEMENT=p["statement"],
               QUANT=p["quantifier"]["text"], FILES=", ".join(p["anchors"]["files"]), N=n)
if rnd > 1:
    prior = []
    for d in sorted(glob.glob(f"/verif/seeded/{pid}-*/meta.json")):
        m = json.load(open(d))
        s = " ".join(str(m.get("summary", "")).split())[:330]
        need = " ".join(str(m.get("needs", "")).split())[:300]
        prior.append(f"- {s} NEEDS: {need}")
    out += ("\n\nIMPORTANT - later round: other engineers have ALREADY produced the following mutants for this property. Yours must be clearly DIFFERENT: "
            "a different function or mechanism, a different clause of the property statement, and a different manifestation condition (do not produce variations of these). "
            "Prefer clauses of the statement and anchor files that the list below does not touch yet, and prefer bugs that need a multi-step history, a fault at a particular point, "
            "a particular thread interleaving, or two cooperating sites. Changes that only affect compile-time diagnostics/warnings do not count: the break must be observable in the behaviour the statement describes:\n"
            + "\n".join(prior) + "\n")
out += ("\nKnown about the existing suite (not caused by your change): `web_ide_integration::web_ide_shell_serves_local_hashed_assets_without_cdn_dependency` fails on the unmodified tree; "
        "`debug_stepping::breakpoint_set_while_running_hits_on_subsequent_cycle` occasionally hangs when the machine is loaded (kill that test binary and re-run `--test debug_stepping` alone); "
        "a few timing tests (names containing `budget`, `performance_gates`, `scales_roughly_linearly`, `sleeps_faster`) are load-sensitive.\n")
print(out)
