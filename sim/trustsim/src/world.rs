//! Engine A helpers: building a runtime world from ST text, numeric views of
//! values (compared modulo the numeric type tag, DESIGN §2.6), a scripted
//! fault-injecting I/O driver and an in-memory retain store.
use std::sync::{Arc, Mutex};

use trust_runtime::error::RuntimeError;
use trust_runtime::harness::CompileSession;
use trust_runtime::io::IoDriver;
use trust_runtime::retain::RetainStore;
use trust_runtime::value::Value;
use trust_runtime::{RetainSnapshot, Runtime};

pub fn compile(src: &str) -> Result<Runtime, String> {
    CompileSession::from_source(src).build_runtime().map_err(|e| e.to_string())
}

/// Integer view of any integer / bit-string / bool value.
pub fn as_i128(v: &Value) -> Option<i128> {
    Some(match v {
        Value::Bool(b) => i128::from(*b),
        Value::SInt(x) => i128::from(*x),
        Value::Int(x) => i128::from(*x),
        Value::DInt(x) => i128::from(*x),
        Value::LInt(x) => i128::from(*x),
        Value::USInt(x) => i128::from(*x),
        Value::UInt(x) => i128::from(*x),
        Value::UDInt(x) => i128::from(*x),
        Value::ULInt(x) => i128::from(*x),
        Value::Byte(x) => i128::from(*x),
        Value::Word(x) => i128::from(*x),
        Value::DWord(x) => i128::from(*x),
        Value::LWord(x) => i128::from(*x),
        Value::Time(d) | Value::LTime(d) => i128::from(d.as_nanos()),
        _ => return None,
    })
}

pub fn global_i(rt: &Runtime, name: &str) -> Option<i128> {
    rt.storage().get_global(name).and_then(as_i128)
}

pub fn global_bool(rt: &Runtime, name: &str) -> Option<bool> {
    match rt.storage().get_global(name) {
        Some(Value::Bool(b)) => Some(*b),
        _ => None,
    }
}

pub fn instance_var(rt: &Runtime, instance: &str, var: &str) -> Option<Value> {
    match rt.storage().get_global(instance) {
        Some(Value::Instance(id)) => rt.storage().get_instance_var(*id, var).cloned(),
        _ => None,
    }
}

/// Canonical rendering of a value modulo the numeric tag (integers print as
/// plain numbers, everything else via Debug).
pub fn canon(v: &Value) -> String {
    match v {
        Value::Bool(b) => format!("{b}"),
        Value::Real(x) => format!("r{:?}", f64::from(*x)),
        Value::LReal(x) => format!("r{x:?}"),
        Value::Array(a) => {
            let inner: Vec<String> = a.elements.iter().map(canon).collect();
            format!("[{}]", inner.join(","))
        }
        Value::Struct(s) => {
            let inner: Vec<String> = s.fields.iter().map(|(k, v)| format!("{k}={}", canon(v))).collect();
            format!("{{{}}}", inner.join(","))
        }
        Value::Instance(_) => "<inst>".to_string(),
        other => match as_i128(other) {
            Some(i) => format!("{i}"),
            None => format!("{other:?}"),
        },
    }
}

/// Deep, tag-insensitive dump of all globals and instances reachable from them.
pub fn dump_storage(rt: &Runtime) -> Vec<(String, String)> {
    let mut out = Vec::new();
    let storage = rt.storage();
    for (name, value) in storage.globals() {
        dump_value(rt, name.as_str(), value, &mut out, 0);
    }
    out
}

fn dump_value(rt: &Runtime, path: &str, value: &Value, out: &mut Vec<(String, String)>, depth: usize) {
    if depth > 8 {
        return;
    }
    match value {
        Value::Instance(id) => {
            if let Some(inst) = rt.storage().get_instance(*id) {
                let mut names: Vec<_> = inst.variables.iter().collect();
                names.sort_by(|a, b| a.0.cmp(b.0));
                for (n, v) in names {
                    dump_value(rt, &format!("{path}.{n}"), v, out, depth + 1);
                }
            }
        }
        other => out.push((path.to_string(), canon(other))),
    }
}

// ---------------------------------------------------------------------------
// scripted I/O driver

#[derive(Debug, Clone, PartialEq, Eq)]
pub enum DriverEvent {
    Read { driver: usize, len: usize, delivered: Vec<u8> },
    Write { driver: usize, image: Vec<u8> },
    ReadErr { driver: usize },
    WriteErr { driver: usize },
    /// runtime event drained from the shared DebugControl at a driver call (rendered)
    Rt(String),
}

pub struct DriverShared {
    /// global event log shared by all drivers of a world
    pub log: Vec<DriverEvent>,
    /// input bytes to deliver on the next read, per driver: (offset, bytes)
    pub next_input: Vec<Option<(usize, Vec<u8>)>>,
    /// auto-mutate: every read delivers different bytes (xor with call counter)
    pub churn: bool,
    pub read_calls: Vec<u64>,
    pub write_calls: Vec<u64>,
    /// fail the next read / write of driver i
    pub fail_read: Vec<bool>,
    pub fail_write: Vec<bool>,
    /// persistent failure (until cleared)
    pub fail_write_always: Vec<bool>,
    /// fail the next n writes of driver i
    pub fail_write_n: Vec<u32>,
    /// driver i reports `IoDriverHealth::Faulted` from `health()` once one of its calls has failed
    /// (what the field-bus drivers do), while later calls may succeed again
    pub report_health: Vec<bool>,
    pub unhealthy: Vec<bool>,
    /// when set, every driver call first drains the runtime events into the log (fixes the
    /// order of driver calls relative to CycleStart/TaskStart/Fault/... events)
    pub debug: Option<trust_runtime::debug::DebugControl>,
}

impl std::fmt::Debug for DriverShared {
    fn fmt(&self, f: &mut std::fmt::Formatter<'_>) -> std::fmt::Result {
        f.debug_struct("DriverShared").field("log", &self.log).finish()
    }
}

pub fn render_event(ev: &trust_runtime::debug::RuntimeEvent) -> String {
    use trust_runtime::debug::RuntimeEvent as E;
    match ev {
        E::CycleStart { .. } => "CycleStart".to_string(),
        E::CycleEnd { .. } => "CycleEnd".to_string(),
        E::TaskStart { name, .. } => format!("TaskStart:{name}"),
        E::TaskEnd { name, .. } => format!("TaskEnd:{name}"),
        E::TaskOverrun { name, .. } => format!("TaskOverrun:{name}"),
        E::Fault { error, .. } => format!("Fault:{error}"),
        #[allow(unreachable_patterns)]
        other => {
            let t = format!("{other:?}");
            t.split(|c: char| !c.is_alphanumeric()).next().unwrap_or("").to_string()
        }
    }
}

impl DriverShared {
    /// move pending runtime events into the log
    pub fn drain_events(&mut self) {
        if let Some(d) = &self.debug {
            for ev in d.drain_runtime_events() {
                self.log.push(DriverEvent::Rt(render_event(&ev)));
            }
        }
    }
}

impl DriverShared {
    pub fn new(n: usize) -> Arc<Mutex<DriverShared>> {
        Arc::new(Mutex::new(DriverShared {
            log: vec![],
            next_input: vec![None; n],
            churn: false,
            read_calls: vec![0; n],
            write_calls: vec![0; n],
            fail_read: vec![false; n],
            fail_write: vec![false; n],
            fail_write_always: vec![false; n],
            fail_write_n: vec![0; n],
            report_health: vec![false; n],
            unhealthy: vec![false; n],
            debug: None,
        }))
    }
}

pub struct SimDriver {
    pub index: usize,
    pub shared: Arc<Mutex<DriverShared>>,
}

impl IoDriver for SimDriver {
    fn read_inputs(&mut self, inputs: &mut [u8]) -> Result<(), RuntimeError> {
        let mut s = self.shared.lock().unwrap_or_else(|e| e.into_inner());
        let i = self.index;
        s.drain_events();
        s.read_calls[i] += 1;
        if s.fail_read[i] {
            s.fail_read[i] = false;
            s.unhealthy[i] = true;
            s.log.push(DriverEvent::ReadErr { driver: i });
            return Err(RuntimeError::IoDriver("sim read fault".into()));
        }
        if let Some((off, bytes)) = s.next_input[i].clone() {
            for (k, b) in bytes.iter().enumerate() {
                if let Some(slot) = inputs.get_mut(off + k) {
                    *slot = *b;
                }
            }
        }
        if s.churn {
            let n = s.read_calls[i] as u8;
            for (k, slot) in inputs.iter_mut().enumerate() {
                if k % (s.next_input.len().max(1)) == i {
                    *slot = slot.wrapping_add(n).wrapping_mul(31).wrapping_add(k as u8 + 1);
                }
            }
        }
        let delivered = inputs.to_vec();
        s.log.push(DriverEvent::Read { driver: i, len: inputs.len(), delivered });
        Ok(())
    }

    fn write_outputs(&mut self, outputs: &[u8]) -> Result<(), RuntimeError> {
        let mut s = self.shared.lock().unwrap_or_else(|e| e.into_inner());
        let i = self.index;
        s.drain_events();
        s.write_calls[i] += 1;
        if s.fail_write[i] || s.fail_write_always[i] || s.fail_write_n[i] > 0 {
            s.fail_write[i] = false;
            s.fail_write_n[i] = s.fail_write_n[i].saturating_sub(1);
            s.unhealthy[i] = true;
            s.log.push(DriverEvent::WriteErr { driver: i });
            return Err(RuntimeError::IoDriver("sim write fault".into()));
        }
        s.log.push(DriverEvent::Write { driver: i, image: outputs.to_vec() });
        Ok(())
    }

    fn health(&self) -> trust_runtime::io::IoDriverHealth {
        let s = self.shared.lock().unwrap_or_else(|e| e.into_inner());
        if s.report_health[self.index] && s.unhealthy[self.index] {
            trust_runtime::io::IoDriverHealth::Faulted { error: "sim driver fault".into() }
        } else {
            trust_runtime::io::IoDriverHealth::Ok
        }
    }
}

pub fn attach_drivers(rt: &mut Runtime, n: usize) -> Arc<Mutex<DriverShared>> {
    attach_drivers_named(rt, n, false)
}

/// `same_name`: every driver is registered under one name (what the runtime binary does for two devices of one driver type)
pub fn attach_drivers_named(rt: &mut Runtime, n: usize, same_name: bool) -> Arc<Mutex<DriverShared>> {
    let shared = DriverShared::new(n);
    for i in 0..n {
        let name = if same_name { "sim".to_string() } else { format!("sim{i}") };
        rt.add_io_driver(name, Box::new(SimDriver { index: i, shared: shared.clone() }));
    }
    shared
}

// ---------------------------------------------------------------------------
// in-memory retain store with a durable copy and failure injection

#[derive(Debug, Default)]
pub struct StoreShared {
    pub durable: Option<RetainSnapshot>,
    pub store_calls: u64,
    pub load_calls: u64,
    pub fail_store: bool,
    pub fail_load: bool,
    /// when set, every store/load goes through the real `FileRetainStore` (codec + file) at this path
    pub via_file: Option<std::path::PathBuf>,
}

#[derive(Clone)]
pub struct SimRetainStore(pub Arc<Mutex<StoreShared>>);

impl SimRetainStore {
    pub fn new() -> Self {
        SimRetainStore(Arc::new(Mutex::new(StoreShared::default())))
    }
}

impl RetainStore for SimRetainStore {
    fn load(&self) -> Result<RetainSnapshot, RuntimeError> {
        let mut s = self.0.lock().unwrap_or_else(|e| e.into_inner());
        s.load_calls += 1;
        if s.fail_load {
            return Err(RuntimeError::RetainStore("sim load fault".into()));
        }
        if let Some(p) = &s.via_file {
            return trust_runtime::retain::FileRetainStore::new(p.clone()).load();
        }
        Ok(s.durable.clone().unwrap_or_default())
    }
    fn store(&self, snapshot: &RetainSnapshot) -> Result<(), RuntimeError> {
        let mut s = self.0.lock().unwrap_or_else(|e| e.into_inner());
        s.store_calls += 1;
        if s.fail_store {
            return Err(RuntimeError::RetainStore("sim store fault".into()));
        }
        if let Some(p) = &s.via_file {
            trust_runtime::retain::FileRetainStore::new(p.clone()).store(snapshot)?;
        }
        s.durable = Some(snapshot.clone());
        Ok(())
    }
}

/// True for RuntimeError variants an accepted program may legitimately raise (C01's value-dependent set).
pub fn is_value_dependent_fault(err: &RuntimeError) -> bool {
    matches!(
        err,
        RuntimeError::DivisionByZero
            | RuntimeError::ModuloByZero
            | RuntimeError::Overflow
            | RuntimeError::IndexOutOfBounds { .. }
            | RuntimeError::NullReference
            | RuntimeError::ForStepZero
            | RuntimeError::DateTimeRange(_)
            | RuntimeError::ExecutionTimeout
    )
}

// ---------------------------------------------------------------------------
// type-tag walk (C03 oracle; C01 uses it to attribute follow-up faults)

pub fn tag_name(v: &Value) -> &'static str {
    match v {
        Value::Bool(_) => "BOOL",
        Value::SInt(_) => "SINT",
        Value::Int(_) => "INT",
        Value::DInt(_) => "DINT",
        Value::LInt(_) => "LINT",
        Value::USInt(_) => "USINT",
        Value::UInt(_) => "UINT",
        Value::UDInt(_) => "UDINT",
        Value::ULInt(_) => "ULINT",
        Value::Real(_) => "REAL",
        Value::LReal(_) => "LREAL",
        Value::Byte(_) => "BYTE",
        Value::Word(_) => "WORD",
        Value::DWord(_) => "DWORD",
        Value::LWord(_) => "LWORD",
        Value::Time(_) => "TIME",
        Value::LTime(_) => "LTIME",
        Value::Date(_) => "DATE",
        Value::LDate(_) => "LDATE",
        Value::Tod(_) => "TOD",
        Value::LTod(_) => "LTOD",
        Value::Dt(_) => "DT",
        Value::Ldt(_) => "LDT",
        Value::String(_) => "STRING",
        Value::WString(_) => "WSTRING",
        Value::Char(_) => "CHAR",
        Value::WChar(_) => "WCHAR",
        Value::Array(_) => "ARRAY",
        Value::Struct(_) => "STRUCT",
        Value::Enum(_) => "ENUM",
        Value::Reference(_) => "REF",
        Value::Instance(_) => "INSTANCE",
        Value::Null => "NULL",
    }
}

/// (path, tag) of every scalar slot reachable from the globals, in a deterministic order
pub fn tag_walk(rt: &Runtime) -> Vec<(String, &'static str)> {
    let mut out = Vec::new();
    for (name, value) in rt.storage().globals() {
        tag_value(rt, name.as_str(), value, &mut out, 0);
    }
    out
}

fn tag_value(rt: &Runtime, path: &str, value: &Value, out: &mut Vec<(String, &'static str)>, depth: usize) {
    if depth > 8 {
        return;
    }
    match value {
        Value::Instance(id) => {
            if let Some(inst) = rt.storage().get_instance(*id) {
                let mut names: Vec<_> = inst.variables.iter().collect();
                names.sort_by(|a, b| a.0.cmp(b.0));
                for (n, v) in names {
                    tag_value(rt, &format!("{path}.{n}"), v, out, depth + 1);
                }
            }
        }
        Value::Array(a) => {
            for (i, e) in a.elements.iter().enumerate() {
                tag_value(rt, &format!("{path}[{i}]"), e, out, depth + 1);
            }
        }
        Value::Struct(s) => {
            for (k, v) in s.fields.iter() {
                tag_value(rt, &format!("{path}.{k}"), v, out, depth + 1);
            }
        }
        other => out.push((path.to_string(), tag_name(other))),
    }
}

/// slots whose tag differs from the reference walk: (path, expected tag, actual tag)
pub fn tag_drift(rt: &Runtime, reference: &[(String, &'static str)]) -> Vec<(String, &'static str, &'static str)> {
    let now = tag_walk(rt);
    let mut out = vec![];
    let map: std::collections::BTreeMap<&str, &'static str> = reference.iter().map(|(p, t)| (p.as_str(), *t)).collect();
    for (p, t) in &now {
        if let Some(want) = map.get(p.as_str()) {
            if want != t {
                out.push((p.clone(), *want, *t));
            }
        }
    }
    out
}
