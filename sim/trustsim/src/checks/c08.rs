//! C08 - a fault halts the resource and, under safe_halt, forces every
//! safe-state output.
//!
//! World: multi-task plant (function -> FB -> function nesting, loops, three
//! programs bound to %I/%Q) compiled by the real compiler, 1..3 logging
//! drivers, real fault/watchdog/safe-state subsystems.  Enumerated: fault
//! point (every budget point of the fault cycle via H2, every driver call,
//! value fault per site, scripted simulation fault, watchdog trip, retain save
//! failure) x fault policy x watchdog action x safe-state map x failing-driver
//! set on the safe-state delivery.
use serde_json::{json, Value as Json};

use trust_runtime::error::RuntimeError;
use trust_runtime::io::{IoAddress, IoSafeState};
use trust_runtime::value::{Duration, Value};
use trust_runtime::watchdog::{FaultPolicy, WatchdogAction, WatchdogPolicy};
use trust_runtime::RestartMode;

use crate::framework::{guard, Check, Stats, Tier, Violation};
use crate::rng::{Fnv, Rng};
use crate::world::{self, DriverEvent};

pub struct C08Check;
pub static C08: C08Check = C08Check;

pub fn plant_source(trips: u64) -> String {
    format!(
        r#"FUNCTION Scale : DINT
VAR_INPUT v : DINT; d : DINT; END_VAR
VAR i : DINT; acc : DINT; END_VAR
acc := 0;
FOR i := 1 TO {trips} DO
  acc := acc + v / d;
END_FOR;
Scale := acc;
END_FUNCTION

FUNCTION_BLOCK Stage
VAR_INPUT x : DINT; d : DINT; END_VAR
VAR_OUTPUT y : DINT; END_VAR
VAR n : DINT; END_VAR
n := n + 1;
IF n > 1000 THEN n := 0; END_IF;
y := Scale(v := x, d := d) + n;
END_FUNCTION_BLOCK

CONFIGURATION C
VAR_GLOBAL
  g_div1 : DINT := 1;
  g_div2 : DINT := 1;
  g_div3 : DINT := 1;
  g_cnt : DINT := 0;
  g_keep : DINT := 0;
  g_ret : DINT := 0;
  g_trip : DINT := 0;
END_VAR
VAR_GLOBAL RETAIN
  g_saved : DINT := 0;
  g_rdiv : DINT := 4;
END_VAR
TASK Fast (INTERVAL := T#10ms, PRIORITY := 0);
TASK Slow (INTERVAL := T#20ms, PRIORITY := 1);
PROGRAM P1 WITH Fast : Main1;
PROGRAM P2 WITH Slow : Main2;
PROGRAM P3 : Bg;
END_CONFIGURATION

PROGRAM Main1
VAR_EXTERNAL g_div1 : DINT; g_cnt : DINT; g_saved : DINT; END_VAR
VAR
  in_w AT %IW0 : INT;
  in_b AT %IX2.0 : BOOL;
  out_w AT %QW0 : INT;
  out_x AT %QX2.1 : BOOL;
  st : Stage;
  k : DINT;
END_VAR
g_cnt := g_cnt + 1;
g_saved := g_saved + 1;
st(x := in_w, d := g_div1);
out_w := DINT_TO_INT(st.y MOD 1000);
out_x := in_b;
k := 0;
WHILE k < 2 DO k := k + 1; END_WHILE;
END_PROGRAM

PROGRAM Main2
VAR_EXTERNAL g_div2 : DINT; g_cnt : DINT; END_VAR
VAR
  out_d AT %QD4 : DINT;
  out_b AT %QB3 : BYTE;
  acc : DINT;
END_VAR
acc := acc + Scale(v := g_cnt, d := g_div2);
IF acc > 100000 THEN acc := 0; END_IF;
out_d := acc + 16909060;
out_b := BYTE#16#A5;
END_PROGRAM

PROGRAM Bg
VAR_EXTERNAL g_div3 : DINT; g_keep : DINT; g_trip : DINT; g_rdiv : DINT; END_VAR
VAR
  scale0 : DINT := 100 / g_rdiv;
  out_l AT %QL8 : LINT;
  t : DINT;
  n_bg : DINT;
END_VAR
n_bg := n_bg + 1;
IF (g_trip > 0) AND (n_bg >= g_trip) THEN t := 1 / (n_bg - n_bg); END_IF;
t := 7 / g_div3;
g_keep := g_keep + t;
out_l := g_keep + LINT#73300775185;
END_PROGRAM
"#
    )
}

const OUT_LEN: usize = 16;

/// independent little-endian / bit model of one safe-state entry against an image
fn image_holds(image: &[u8], size: &str, byte: usize, bit: u32, val: u64) -> bool {
    let get = |i: usize| image.get(i).copied();
    match size {
        "X" => get(byte).map_or(false, |b| u64::from((b >> bit) & 1) == (val & 1)),
        _ => {
            let n = match size {
                "B" => 1,
                "W" => 2,
                "D" => 4,
                _ => 8,
            };
            for i in 0..n {
                let want = ((val >> (8 * i)) & 0xff) as u8;
                if get(byte + i) != Some(want) {
                    return false;
                }
            }
            true
        }
    }
}

fn safe_value(size: &str, val: u64) -> Value {
    match size {
        "X" => Value::Bool(val & 1 == 1),
        "B" => Value::Byte(val as u8),
        "W" => Value::Word(val as u16),
        "D" => Value::DWord(val as u32),
        _ => Value::LWord(val),
    }
}

fn span(size: &str, byte: usize, bit: u32) -> Vec<(usize, u32)> {
    // set of (byte, bit) cells an entry occupies; whole bytes use bit = 8
    match size {
        "X" => vec![(byte, bit)],
        "B" => vec![(byte, 8)],
        "W" => (0..2).map(|i| (byte + i, 8)).collect(),
        "D" => (0..4).map(|i| (byte + i, 8)).collect(),
        _ => (0..8).map(|i| (byte + i, 8)).collect(),
    }
}

fn overlaps(a: &[(usize, u32)], b: &[(usize, u32)]) -> bool {
    a.iter().any(|(ab, abit)| b.iter().any(|(bb, bbit)| ab == bb && (*abit == 8 || *bbit == 8 || abit == bbit)))
}

fn variant_name(e: &RuntimeError) -> String {
    let t = format!("{e:?}");
    t.split(|c: char| !c.is_alphanumeric()).next().unwrap_or("").to_string()
}

struct Outcome {
    fired: bool,
    budget_points_in_fault_cycle: u64,
}

impl C08Check {
    /// run one concrete fault; `k` is the budget point for kind=budget
    fn run_one(&self, case: &Json, k: Option<u64>, stats: &mut Stats) -> Result<Outcome, Violation> {
        let trips = case["trips"].as_u64().unwrap_or(2).clamp(1, 4);
        let src = plant_source(trips);
        let mut rt = match guard("compile", || world::compile(&src))? {
            Ok(rt) => rt,
            Err(e) => return Err(Violation::new("harness/compile-rejected", e)),
        };
        let n_drivers = case["n_drivers"].as_u64().unwrap_or(1).clamp(1, 3) as usize;
        rt.io_mut().resize(4, OUT_LEN, 2);
        let drivers = world::attach_drivers(&mut rt, n_drivers);
        let debug = rt.enable_debug();
        {
            let mut d = drivers.lock().unwrap();
            d.debug = Some(debug.clone());
            d.churn = true;
            if case["report_health"].as_bool().unwrap_or(false) {
                d.report_health = vec![true; n_drivers];
            }
        }
        let policy = match case["policy"].as_str().unwrap_or("halt") {
            "safe_halt" => FaultPolicy::SafeHalt,
            "restart" => FaultPolicy::Restart,
            _ => FaultPolicy::Halt,
        };
        let wd_action = match case["wd_action"].as_str().unwrap_or("safe_halt") {
            "halt" => WatchdogAction::Halt,
            "restart" => WatchdogAction::Restart,
            _ => WatchdogAction::SafeHalt,
        };
        rt.set_fault_policy(policy);
        rt.set_watchdog_policy(WatchdogPolicy { enabled: true, timeout: Duration::from_millis(50), action: wd_action });
        // safe-state map (entries that overlap an earlier entry are dropped: a self-contradictory
        // configuration is outside the property)
        let mut safe: Vec<(String, usize, u32, u64, Vec<(usize, u32)>)> = vec![];
        for e in case["safe"].as_array().cloned().unwrap_or_default() {
            let size = e["size"].as_str().unwrap_or("X").to_string();
            let byte = e["byte"].as_u64().unwrap_or(0) as usize;
            let bit = e["bit"].as_u64().unwrap_or(0).min(7) as u32;
            let val = e["val"].as_u64().unwrap_or(0);
            let sp = span(&size, byte, bit);
            if safe.iter().any(|s| overlaps(&s.4, &sp)) {
                continue;
            }
            safe.push((size, byte, bit, val, sp));
        }
        let mut state = IoSafeState::default();
        for (size, byte, bit, val, _) in &safe {
            let text = if size == "X" { format!("%QX{byte}.{bit}") } else { format!("%Q{size}{byte}") };
            let addr = match IoAddress::parse(&text) {
                Ok(a) => a,
                Err(e) => return Err(Violation::new("harness/address", format!("{text}: {e:?}"))),
            };
            state.outputs.push((addr, safe_value(size, *val)));
        }
        rt.set_io_safe_state(state);
        let store = world::SimRetainStore::new();
        let fault = &case["fault"];
        let kind = fault["kind"].as_str().unwrap_or("sim");
        if kind == "retain_store" || case["with_store"].as_bool().unwrap_or(false) {
            rt.set_retain_store(Some(Box::new(store.clone())), Some(Duration::from_millis(0)));
        }
        let mut fault_cycle = fault["cycle"].as_u64().unwrap_or(0).min(4);
        if kind == "div" && fault["site"].as_u64() == Some(2) && fault_cycle % 2 == 0 {
            // site 2 lives in the 20 ms task: it only runs in odd cycles
            fault_cycle += 1;
        }
        let fdriver = (fault["driver"].as_u64().unwrap_or(0) as usize).min(n_drivers - 1);
        let fail_safe: Vec<bool> = (0..n_drivers)
            .map(|i| case["fail_safe_write"].as_array().and_then(|a| a.get(i)).and_then(Json::as_bool).unwrap_or(false))
            .collect();

        let mut now: i64 = 0;
        // ---- healthy prefix
        for c in 0..fault_cycle {
            now += 10_000_000;
            rt.set_current_time(Duration::from_nanos(now));
            let r = guard("execute_cycle", || rt.execute_cycle())?;
            if let Err(e) = r {
                return Err(Violation::new(
                    format!("harness/prefix-cycle-failed/{}", variant_name(&e)),
                    format!("healthy cycle {c} failed: {e:?}"),
                ));
            }
        }
        stats.sim_time_ns += (now as u128).max(0);
        drivers.lock().unwrap().drain_events();
        let window_start = drivers.lock().unwrap().log.len();
        // ---- inject
        now += 10_000_000;
        rt.set_current_time(Duration::from_nanos(now));
        let expect_safe;
        let before_exec = verif_hooks::budget::executed();
        let fired_before = verif_hooks::budget::fired();
        // failure model for write-side driver calls: cnt[i] = number of upcoming writes of driver i that fail.
        // `publish_first`: the fault cycle performs a normal publish before the safe-state delivery.
        let mut cnt: Vec<u32> = fail_safe.iter().map(|f| u32::from(*f)).collect();
        if kind == "write_err" {
            cnt[fdriver] += 1;
        }
        if kind == "retain_store" {
            // the failing save happens after a successful publish; keep the drivers healthy
            cnt.iter_mut().for_each(|c| *c = 0);
        }
        let mut model = cnt.clone();
        if kind == "write_err" {
            for c in model.iter_mut() {
                if *c > 0 {
                    *c -= 1;
                    break;
                }
            }
        }
        // drivers whose safe-state delivery fails
        let expect_fail: Vec<bool> = model.iter().map(|c| *c > 0).collect();
        let arm_safe_failures = |d: &mut world::DriverShared| {
            for (i, c) in cnt.iter().enumerate() {
                d.fail_write_n[i] = *c;
            }
        };
        let result: Result<(), RuntimeError> = match kind {
            "budget" => {
                expect_safe = policy == FaultPolicy::SafeHalt;
                arm_safe_failures(&mut drivers.lock().unwrap());
                verif_hooks::budget::arm_in(k.unwrap_or(0), false);
                let r = guard("execute_cycle", || rt.execute_cycle())?;
                verif_hooks::budget::disarm();
                r
            }
            "div" => {
                expect_safe = policy == FaultPolicy::SafeHalt;
                arm_safe_failures(&mut drivers.lock().unwrap());
                let site = fault["site"].as_u64().unwrap_or(1).clamp(1, 3);
                rt.storage_mut().set_global(format!("g_div{site}"), Value::DInt(0));
                guard("execute_cycle", || rt.execute_cycle())?
            }
            "read_err" => {
                expect_safe = policy == FaultPolicy::SafeHalt;
                {
                    let mut d = drivers.lock().unwrap();
                    arm_safe_failures(&mut d);
                    d.fail_read[fdriver] = true;
                }
                guard("execute_cycle", || rt.execute_cycle())?
            }
            "write_err" => {
                expect_safe = policy == FaultPolicy::SafeHalt;
                // the publish of driver `fdriver` fails; the safe-state delivery may fail again per fail_safe
                arm_safe_failures(&mut drivers.lock().unwrap());
                guard("execute_cycle", || rt.execute_cycle())?
            }
            "retain_store" => {
                expect_safe = policy == FaultPolicy::SafeHalt;
                store.0.lock().unwrap().fail_store = true;
                arm_safe_failures(&mut drivers.lock().unwrap());
                let r = guard("execute_cycle", || rt.execute_cycle())?;
                r
            }
            "watchdog" => {
                expect_safe = matches!(wd_action, WatchdogAction::Halt | WatchdogAction::SafeHalt);
                arm_safe_failures(&mut drivers.lock().unwrap());
                Err(guard("watchdog_timeout", || rt.watchdog_timeout())?)
            }
            _ => {
                expect_safe = policy == FaultPolicy::SafeHalt;
                arm_safe_failures(&mut drivers.lock().unwrap());
                Err(guard("simulation_fault", || rt.simulation_fault("sim"))?)
            }
        };
        let points = verif_hooks::budget::executed() - before_exec;
        let budget_fired = verif_hooks::budget::fired() > fired_before;
        {
            let mut d = drivers.lock().unwrap();
            d.drain_events();
            for i in 0..n_drivers {
                d.fail_write_n[i] = 0;
                d.fail_read[i] = false;
            }
        }
        store.0.lock().unwrap().fail_store = false;
        let err = match result {
            // budget point beyond the statements of this cycle: whatever happened was not the injected fault
            _ if kind == "budget" && !budget_fired => {
                return Ok(Outcome { fired: false, budget_points_in_fault_cycle: points });
            }
            Ok(()) if matches!(kind, "read_err" | "write_err") => {
                // the driver call did fail (the driver logged it), yet the cycle reports success
                let log = drivers.lock().unwrap().log[window_start..].to_vec();
                let failed = log.iter().any(|e| matches!(e, DriverEvent::ReadErr { .. } | DriverEvent::WriteErr { .. }));
                if failed {
                    return Err(Violation::new(
                        format!("latch/driver-error-ignored/{kind}"),
                        format!("driver {fdriver} of {n_drivers} failed its {} call but the cycle returned Ok and the resource is not faulted; log: {}", if kind == "read_err" { "read" } else { "write" }, render_log(&log)),
                    ));
                }
                return Ok(Outcome { fired: false, budget_points_in_fault_cycle: points });
            }
            Ok(()) => {
                // the armed fault did not fire (budget point beyond the cycle's statements)
                return Ok(Outcome { fired: false, budget_points_in_fault_cycle: points });
            }
            Err(e) => e,
        };
        stats.inc(&format!("fault.{kind}"));
        let expected_err = match kind {
            "budget" => "ExecutionTimeout",
            "div" => "DivisionByZero",
            "read_err" | "write_err" => "IoDriver",
            "retain_store" => "RetainStore",
            "watchdog" => "WatchdogTimeout",
            _ => "SimulationFault",
        };
        if variant_name(&err) != expected_err {
            return Err(Violation::new(
                format!("harness/unexpected-fault/{}", variant_name(&err)),
                format!("injected {kind}, cycle reported {err:?}"),
            ));
        }
        let label = format!("{kind}/{}", if kind == "watchdog" { case["wd_action"].as_str().unwrap_or("") } else { case["policy"].as_str().unwrap_or("") });
        stats.log(&format!("fault {label} k={k:?} err={}", variant_name(&err)));

        // ---- oracle 1: latched
        if !rt.faulted() {
            return Err(Violation::new(format!("latch/not-faulted/{kind}"), format!("after {err:?} the resource is not faulted")));
        }
        if rt.last_fault().is_none() {
            return Err(Violation::new(format!("latch/no-last-fault/{kind}"), "faulted without last_fault".to_string()));
        }
        // ---- oracle 2: safe state
        let log: Vec<DriverEvent> = drivers.lock().unwrap().log[window_start..].to_vec();
        if expect_safe && !safe.is_empty() {
            let image = rt.io().outputs().to_vec();
            for (size, byte, bit, val, _) in &safe {
                if !image_holds(&image, size, *byte, *bit, *val) {
                    return Err(Violation::new(
                        format!("safe/image-missing-value/{label}"),
                        format!("after {err:?}: output image {image:?} does not hold safe value %Q{size}{byte}.{bit}={val}"),
                    ));
                }
            }
            let fault_pos = log.iter().position(|e| matches!(e, DriverEvent::Rt(s) if s.starts_with("Fault")));
            for drv in 0..n_drivers {
                let should_fail = expect_fail[drv];
                // last write-side event of this driver in the window
                let last = log.iter().enumerate().rev().find(|(_, e)| {
                    matches!(e, DriverEvent::Write { driver, .. } | DriverEvent::WriteErr { driver } if *driver == drv)
                });
                match last {
                    None => {
                        return Err(Violation::new(
                            format!("safe/driver-not-served/{label}"),
                            format!("driver {drv} of {n_drivers} got no safe-state delivery (failing set {fail_safe:?}); log: {}", render_log(&log)),
                        ));
                    }
                    Some((pos, DriverEvent::Write { image, .. })) => {
                        for (size, byte, bit, val, _) in &safe {
                            if !image_holds(image, size, *byte, *bit, *val) {
                                return Err(Violation::new(
                                    format!("safe/driver-image-missing-value/{label}"),
                                    format!("driver {drv} last received {image:?}, lacks %Q{size}{byte}.{bit}={val}; log: {}", render_log(&log)),
                                ));
                            }
                        }
                        if let Some(fp) = fault_pos {
                            if pos > fp {
                                return Err(Violation::new(
                                    format!("safe/delivered-after-fault-report/{label}"),
                                    format!("driver {drv} received the safe image after the Fault event; log: {}", render_log(&log)),
                                ));
                            }
                        }
                    }
                    Some((_, DriverEvent::WriteErr { .. })) => {
                        if !should_fail {
                            return Err(Violation::new(
                                format!("safe/driver-not-served/{label}"),
                                format!("driver {drv} last saw a failed write though it was healthy for the safe-state delivery; log: {}", render_log(&log)),
                            ));
                        }
                        stats.inc("probe.safe_delivery_failed_on_a_driver");
                    }
                    Some(_) => {}
                }
            }
            stats.inc("probe.safe_state_checked");
            if n_drivers >= 2 && expect_fail.iter().any(|f| *f) && expect_fail.iter().any(|f| !*f) {
                stats.inc("probe.safe_delivery_with_failing_and_healthy_driver");
            }
        }
        if !expect_safe {
            stats.inc("probe.halt_without_safe_state");
        }
        // ---- oracle 3: refused until restart
        let mut h = Fnv::new();
        h.str(&label).u64(k.unwrap_or(0) / 4).u64(n_drivers as u64).u64(safe.len() as u64);
        for f in &fail_safe {
            h.u64(u64::from(*f));
        }
        stats.nontrivial(h.finish());
        {
            // abstract state: (fault kind/policy, safe state expected, image after the fault, which drivers failed)
            let mut sh = Fnv::new();
            sh.str(&label).u64(u64::from(expect_safe)).bytes(rt.io().outputs());
            for f in &expect_fail {
                sh.u64(u64::from(*f));
            }
            stats.state(sh.finish());
        }
        let dump0 = world::dump_storage(&rt);
        let mut image0 = rt.io().outputs().to_vec();
        let mut restarted = false;
        for (opi, op) in case["ops"].as_array().cloned().unwrap_or_default().iter().enumerate() {
            match op["k"].as_str().unwrap_or("cycle") {
                "restart" => {
                    let mode = if op["mode"] == "warm" { RestartMode::Warm } else { RestartMode::Cold };
                    let r = guard("restart", || rt.restart(mode))?;
                    if let Err(e) = r {
                        return Err(Violation::new("restart/error", format!("restart failed: {e:?}")));
                    }
                    if rt.faulted() {
                        return Err(Violation::new("restart/still-faulted", "faulted after restart".to_string()));
                    }
                    restarted = true;
                    now = 0;
                    stats.inc("fault.restart");
                }
                "restart_failing" if !restarted => {
                    // a warm restart that fails part-way (an initialiser divides by a retained zero) is no restart:
                    // the resource stays faulted and keeps refusing cycles
                    rt.storage_mut().set_global("g_rdiv", Value::DInt(0));
                    let r = guard("restart", || rt.restart(RestartMode::Warm))?;
                    if r.is_ok() {
                        return Err(Violation::new("harness/restart-did-not-fail", "warm restart with a retained zero divisor succeeded".to_string()));
                    }
                    stats.inc("fault.restart_failed_part_way");
                    if !rt.faulted() {
                        return Err(Violation::new("latch/cleared-by-failed-restart", format!("op {opi}: restart returned {:?} yet the resource is no longer faulted", r.err().map(|e| variant_name(&e)))));
                    }
                    let exec0 = verif_hooks::budget::executed();
                    now += 10_000_000;
                    rt.set_current_time(Duration::from_nanos(now));
                    let r2 = guard("execute_cycle", || rt.execute_cycle())?;
                    if !matches!(r2, Err(RuntimeError::ResourceFaulted)) || verif_hooks::budget::executed() != exec0 {
                        return Err(Violation::new("halt/cycle-not-refused/after-failed-restart", format!("op {opi}: cycle returned {r2:?}, {} budget points executed", verif_hooks::budget::executed() - exec0)));
                    }
                    return Ok(Outcome { fired: true, budget_points_in_fault_cycle: points });
                }
                "refault" if restarted => {
                    // the latch and the safe state work again for a fault after the restart (or after clear_fault)
                    let e = guard("simulation_fault", || rt.simulation_fault("after restart"))?;
                    if variant_name(&e) != "SimulationFault" {
                        return Err(Violation::new(format!("harness/unexpected-fault/{}", variant_name(&e)), format!("op {opi}: {e:?}")));
                    }
                    if !rt.faulted() {
                        return Err(Violation::new("latch/not-faulted/second-fault-after-restart", format!("op {opi}: after restart and a new {e:?} the resource is not faulted")));
                    }
                    if policy == FaultPolicy::SafeHalt {
                        let image = rt.io().outputs().to_vec();
                        for (size, byte, bit, val, _) in &safe {
                            if !image_holds(&image, size, *byte, *bit, *val) {
                                return Err(Violation::new(
                                    "safe/image-missing-value/second-fault-after-restart",
                                    format!("op {opi}: output image {image:?} does not hold safe value %Q{size}{byte}.{bit}={val}"),
                                ));
                            }
                        }
                    }
                    let exec0 = verif_hooks::budget::executed();
                    now += 10_000_000;
                    rt.set_current_time(Duration::from_nanos(now));
                    let r = guard("execute_cycle", || rt.execute_cycle())?;
                    if !matches!(r, Err(RuntimeError::ResourceFaulted)) || verif_hooks::budget::executed() != exec0 {
                        return Err(Violation::new("halt/cycle-not-refused/second-fault-after-restart", format!("op {opi}: cycle returned {r:?}, {} budget points executed", verif_hooks::budget::executed() - exec0)));
                    }
                    stats.inc("probe.second_fault_after_restart");
                    return Ok(Outcome { fired: true, budget_points_in_fault_cycle: points });
                }
                "clear_fault" if !restarted => {
                    // the other way out of the latch: behaves like a restart for what follows
                    rt.clear_fault();
                    if rt.faulted() {
                        return Err(Violation::new("restart/still-faulted", "faulted after clear_fault".to_string()));
                    }
                    restarted = true;
                    stats.inc("fault.clear_fault");
                }
                "debug_write" if !restarted => {
                    // a queued debugger write must not reach any variable while the resource is halted
                    debug.enqueue_global_write("g_cnt", Value::DInt(op["val"].as_i64().unwrap_or(99) as i32));
                    stats.inc("fault.debugger_write_queued_while_faulted");
                }
                "fault_again" if !restarted => {
                    // a second fault report while halted must not un-latch anything
                    let _ = guard("simulation_fault", || rt.simulation_fault("again"))?;
                    if !rt.faulted() {
                        return Err(Violation::new("latch/cleared-by-second-fault", "second fault cleared the latch".to_string()));
                    }
                    // a second report may legitimately (re-)apply the safe state
                    image0 = rt.io().outputs().to_vec();
                }
                _ => {
                    now += op["dt"].as_i64().unwrap_or(10_000_000).max(0);
                    rt.set_current_time(Duration::from_nanos(now));
                    let log_len = drivers.lock().unwrap().log.len();
                    let exec0 = verif_hooks::budget::executed();
                    let r = guard("execute_cycle", || rt.execute_cycle())?;
                    drivers.lock().unwrap().drain_events();
                    if restarted {
                        if let Err(e) = r {
                            return Err(Violation::new(
                                format!("restart/cycle-after-restart-failed/{}", variant_name(&e)),
                                format!("op {opi}: {e:?}"),
                            ));
                        }
                        if verif_hooks::budget::executed() == exec0 {
                            return Err(Violation::new("restart/no-statements-after-restart", format!("op {opi}")));
                        }
                        stats.inc("probe.cycle_after_restart");
                        continue;
                    }
                    match r {
                        Err(RuntimeError::ResourceFaulted) => {}
                        other => {
                            return Err(Violation::new(
                                format!("halt/cycle-not-refused/{kind}"),
                                format!("op {opi}: cycle on a faulted resource returned {other:?}"),
                            ));
                        }
                    }
                    let ran = verif_hooks::budget::executed() - exec0;
                    if ran != 0 {
                        return Err(Violation::new(format!("halt/statements-executed/{kind}"), format!("op {opi}: {ran} budget points executed while faulted")));
                    }
                    let d = drivers.lock().unwrap();
                    let calls = d.log[log_len..].iter().filter(|e| !matches!(e, DriverEvent::Rt(_))).count();
                    drop(d);
                    if calls != 0 {
                        return Err(Violation::new(format!("halt/driver-called/{kind}"), format!("op {opi}: {calls} driver calls while faulted")));
                    }
                    if world::dump_storage(&rt) != dump0 {
                        return Err(Violation::new(format!("halt/variables-changed/{kind}"), format!("op {opi}: variables changed while faulted")));
                    }
                    if rt.io().outputs() != image0.as_slice() {
                        return Err(Violation::new(format!("halt/output-image-changed/{kind}"), format!("op {opi}: output image changed while faulted")));
                    }
                    if !rt.faulted() {
                        return Err(Violation::new(format!("latch/cleared-without-restart/{kind}"), format!("op {opi}")));
                    }
                    stats.inc("probe.refused_cycle");
                }
            }
        }
        Ok(Outcome { fired: true, budget_points_in_fault_cycle: points })
    }
}

impl C08Check {
    /// The real resource loop (own OS thread; the simulator only joins it, so there is no interleaving to decide):
    /// a watchdog trip (timeout 0 trips after the first cycle) or a value fault at cycle `trip`, under
    /// `spawn` or `spawn_with_shared`.
    fn run_runner(&self, case: &Json, stats: &mut Stats) -> Result<(), Violation> {
        use trust_runtime::scheduler::{ManualClock, ResourceRunner, ResourceState, SharedGlobals};
        let src = plant_source(2);
        let mut rt = match guard("compile", || world::compile(&src))? {
            Ok(rt) => rt,
            Err(e) => return Err(Violation::new("harness/compile-rejected", e)),
        };
        let n_drivers = case["n_drivers"].as_u64().unwrap_or(1).clamp(1, 3) as usize;
        rt.io_mut().resize(4, OUT_LEN, 2);
        let drivers = world::attach_drivers(&mut rt, n_drivers);
        drivers.lock().unwrap().churn = true;
        let policy = if case["policy"] == "safe_halt" { FaultPolicy::SafeHalt } else { FaultPolicy::Halt };
        let wd_action = if case["wd_action"] == "halt" { WatchdogAction::Halt } else { WatchdogAction::SafeHalt };
        rt.set_fault_policy(policy);
        let kind = case["fault"]["kind"].as_str().unwrap_or("watchdog");
        let watchdog = kind == "watchdog";
        rt.set_watchdog_policy(WatchdogPolicy { enabled: watchdog, timeout: Duration::from_nanos(0), action: wd_action });
        let mut safe: Vec<(String, usize, u32, u64, Vec<(usize, u32)>)> = vec![];
        let mut state = IoSafeState::default();
        for e in case["safe"].as_array().cloned().unwrap_or_default() {
            let size = e["size"].as_str().unwrap_or("X").to_string();
            let byte = (e["byte"].as_u64().unwrap_or(0) as usize).min(15);
            let bit = e["bit"].as_u64().unwrap_or(0).min(7) as u32;
            let val = e["val"].as_u64().unwrap_or(0);
            let sp = span(&size, byte, bit);
            if safe.iter().any(|s| overlaps(&s.4, &sp)) {
                continue;
            }
            let text = if size == "X" { format!("%QX{byte}.{bit}") } else { format!("%Q{size}{byte}") };
            if let Ok(a) = IoAddress::parse(&text) {
                state.outputs.push((a, safe_value(&size, val)));
                safe.push((size, byte, bit, val, sp));
            }
        }
        rt.set_io_safe_state(state);
        let trip = case["fault"]["trip"].as_i64().unwrap_or(1).clamp(1, 20);
        if !watchdog {
            rt.storage_mut().set_global("g_trip", Value::DInt(trip as i32));
        }
        let shared_mode = case["shared"].as_bool().unwrap_or(false);
        // cycle interval 0: the loop free-runs without waiting for the (never advanced) manual clock
        let runner = ResourceRunner::new(rt, ManualClock::new(), Duration::from_nanos(0));
        let spawned = if shared_mode {
            let shared = guard("SharedGlobals::from_runtime", || SharedGlobals::from_runtime(vec!["g_cnt".into(), "g_keep".into()], &runner_runtime_placeholder()))?;
            match shared {
                Ok(sh) => guard("spawn_with_shared", move || runner.spawn_with_shared("res-0", sh))?,
                Err(e) => return Err(Violation::new("harness/shared-globals", format!("{e:?}"))),
            }
        } else {
            guard("spawn", move || runner.spawn("res-0"))?
        };
        let mut handle = match spawned {
            Ok(h) => h,
            Err(e) => return Err(Violation::new("harness/spawn", format!("{e:?}"))),
        };
        // the loop ends by itself when the resource faults (policy halt / safe_halt)
        let joined = handle.join();
        if joined.is_err() {
            return Err(Violation::new("runner/thread-panicked", "the resource thread panicked".to_string()));
        }
        stats.inc(&format!("fault.runner_{kind}"));
        stats.inc(if shared_mode { "probe.runner_with_shared_globals" } else { "probe.runner_plain" });
        let label = format!("runner-{}/{}", if shared_mode { "shared" } else { "plain" }, if watchdog { case["wd_action"].as_str().unwrap_or("") } else { case["policy"].as_str().unwrap_or("") });
        if handle.state() != ResourceState::Faulted {
            return Err(Violation::new(format!("latch/runner-state-not-faulted/{label}"), format!("resource state {:?} after the fault", handle.state())));
        }
        let err = handle.last_error();
        let expected = if watchdog { "WatchdogTimeout" } else { "DivisionByZero" };
        if err.as_ref().map(variant_name).as_deref() != Some(expected) {
            return Err(Violation::new(format!("harness/runner-unexpected-error/{label}"), format!("{err:?}")));
        }
        let expect_safe = watchdog || policy == FaultPolicy::SafeHalt;
        let log = drivers.lock().unwrap().log.clone();
        stats.log(&format!("{label}:{}", log.len()));
        if expect_safe && !safe.is_empty() {
            for drv in 0..n_drivers {
                let last = log.iter().rev().find_map(|e| match e {
                    DriverEvent::Write { driver, image } if *driver == drv => Some(image.clone()),
                    _ => None,
                });
                let Some(image) = last else {
                    return Err(Violation::new(format!("safe/driver-not-served/{label}"), format!("driver {drv} never received an image")));
                };
                for (size, byte, bit, val, _) in &safe {
                    if !image_holds(&image, size, *byte, *bit, *val) {
                        return Err(Violation::new(
                            format!("safe/driver-image-missing-value/{label}"),
                            format!("through the resource loop: driver {drv} last received {image:?}, lacks %Q{size}{byte}.{bit}={val}"),
                        ));
                    }
                }
            }
            stats.inc("probe.safe_state_checked");
        }
        let mut h = Fnv::new();
        h.str(&label).u64(n_drivers as u64).u64(safe.len() as u64).u64(trip as u64);
        stats.nontrivial(h.finish());
        stats.state(h.finish());
        Ok(())
    }
}

/// SharedGlobals::from_runtime needs a runtime that declares the names; a second build of the plant serves
fn runner_runtime_placeholder() -> trust_runtime::Runtime {
    world::compile(&plant_source(2)).expect("plant compiles")
}

fn render_log(log: &[DriverEvent]) -> String {
    let parts: Vec<String> = log
        .iter()
        .map(|e| match e {
            DriverEvent::Read { driver, .. } => format!("R{driver}"),
            DriverEvent::Write { driver, image } => format!("W{driver}{image:?}"),
            DriverEvent::ReadErr { driver } => format!("R{driver}!"),
            DriverEvent::WriteErr { driver } => format!("W{driver}!"),
            DriverEvent::Rt(s) => s.clone(),
        })
        .collect();
    parts.join(" ")
}

impl Check for C08Check {
    fn id(&self) -> &'static str {
        "C08"
    }
    fn level(&self) -> &'static str {
        "fault_enumeration"
    }
    fn cases(&self, tier: Tier) -> u64 {
        match tier {
            Tier::Quick => 4_000,
            Tier::Thorough => 40_000,
        }
    }
    fn rule(&self) -> &'static str {
        "case = (fault kind in {budget point, value fault per site, driver read error, driver write error at publish, retain save error, scripted simulation fault, watchdog trip}, fault cycle 0..3, fault policy, watchdog action, safe-state map of 0-5 non-overlapping %QX/B/W/D/L entries incl. ones over bound outputs and beyond the image, 1-3 drivers, subset of drivers failing on the safe-state delivery, post-fault history of cycles/second fault/restart); budget cases with k=null enumerate EVERY budget point (statement entry / loop iteration at any call depth) of the fault cycle; later additions: driver health reports, debugger writes queued while halted, the real ResourceRunner thread (every 9th case), and a second injected fault after restart / clear_fault (latch, safe image, refusal checked again); a driver call that failed while the cycle returned Ok is a violation; distinct non-trivial = distinct (kind, policy or action, budget point class, driver count, safe map size, failing set) where the fault fired"
    }
    fn assumptions(&self) -> Vec<&'static str> {
        vec![
            "safe-state entries that overlap an earlier entry are dropped (a self-contradictory map is outside the property)",
            "a driver that itself fails on the safe-state delivery cannot receive it but must have been attempted; all others must be served",
            "'before the fault is reported' is observed as: before the runtime's Fault event and before execute_cycle/watchdog_timeout/simulation_fault returns",
            "policy Restart / watchdog action Restart: latch and refusal are still required at Runtime level (the runner performs the restart)",
        ]
    }
    fn components(&self) -> (Vec<&'static str>, Vec<&'static str>) {
        (
            vec!["compiler", "Runtime::execute_cycle", "apply_fault/record_fault", "FaultDecision", "IoSubsystem::apply_safe_state", "IoSafeState::apply", "Runtime::restart", "watchdog_timeout/simulation_fault entry points", "RetainManager save path"],
            vec!["I/O drivers (logging, fault-injecting)", "retain store (in-memory, failing)", "clock", "resource runner loop incl. its watchdog timer and restart-on-fault branch"],
        )
    }

    fn generate(&self, rng: &mut Rng, _tier: Tier, index: u64) -> Json {
        let mut cfg = rng.fork("cfg");
        let mut f = rng.fork("fault");
        let mut o = rng.fork("ops");
        let n_drivers = cfg.usize(1, 3);
        let policy = *cfg.pick(&["halt", "safe_halt", "safe_halt", "restart"]);
        let wd_action = *cfg.pick(&["halt", "safe_halt", "restart"]);
        let n_safe = cfg.usize(0, 5);
        let mut safe = vec![];
        for _ in 0..n_safe {
            let size = *cfg.pick(&["X", "X", "B", "W", "D", "L"]);
            // bound outputs live in bytes 0..15; some entries land beyond the image
            let byte = if cfg.chance(1, 6) { cfg.usize(16, 20) } else { cfg.usize(0, 15) };
            let bit = cfg.below(8);
            let val = match cfg.below(4) {
                0 => 0,
                1 => u64::MAX,
                _ => cfg.next_u64(),
            };
            safe.push(json!({"size": size, "byte": byte, "bit": bit, "val": val}));
        }
        let fail_safe_write: Vec<bool> = (0..n_drivers).map(|_| cfg.chance(1, 4)).collect();
        let kinds = ["budget", "budget", "div", "read_err", "write_err", "retain_store", "sim", "watchdog"];
        let kind = kinds[(index % kinds.len() as u64) as usize];
        let fault = json!({
            "kind": kind,
            "cycle": f.below(4),
            "driver": f.below(3),
            "site": f.range(1, 3),
            // budget: every 3rd budget case enumerates all points, the others sample one
            "k": if kind == "budget" && index % 3 != 0 { Json::from(f.below(90)) } else { Json::Null },
        });
        if index % 9 == 8 {
            let watchdog = f.bool();
            return json!({
                "runner": true,
                "n_drivers": n_drivers,
                "policy": *cfg.pick(&["halt", "safe_halt", "safe_halt"]),
                "wd_action": *cfg.pick(&["halt", "safe_halt"]),
                "safe": safe,
                "shared": cfg.bool(),
                "fault": {"kind": if watchdog { "watchdog" } else { "div" }, "trip": f.range(1, 12)},
            });
        }
        let mut ops = vec![];
        for _ in 0..o.usize(1, 4) {
            ops.push(json!({"k": "cycle", "dt": *o.pick(&[0i64, 1, 10_000_000, 20_000_000, 1_000_000_000])}));
            if o.chance(1, 5) {
                ops.push(json!({"k": "fault_again"}));
            }
            if o.chance(1, 4) {
                ops.push(json!({"k": "debug_write", "val": o.range(50, 90)}));
                ops.push(json!({"k": "cycle", "dt": 10_000_000}));
            }
        }
        if o.chance(1, 2) {
            ops.push(json!({"k": "restart", "mode": if o.bool() { "warm" } else { "cold" }}));
            ops.push(json!({"k": "cycle", "dt": 10_000_000}));
            ops.push(json!({"k": "cycle", "dt": 10_000_000}));
        }
        let mut fr = rng.fork("failing-restart");
        if fr.chance(1, 8) && !ops.iter().any(|op| op["k"] == "restart") {
            ops.push(json!({"k": "restart_failing"}));
        }
        let mut x = rng.fork("second");
        if x.chance(1, 2) && policy != "restart" && kind != "watchdog" {
            if !ops.iter().any(|op| op["k"] == "restart") {
                // (a program fault would simply fire again after clear_fault: its trigger variable is still set)
                ops.push(if x.bool() && kind != "div" { json!({"k": "clear_fault"}) } else { json!({"k": "restart", "mode": "warm"}) });
            }
            if x.bool() {
                ops.push(json!({"k": "cycle", "dt": 10_000_000}));
            }
            ops.push(json!({"k": "refault"}));
        }
        json!({
            "trips": cfg.range(1, 3),
            "n_drivers": n_drivers,
            "policy": policy,
            "wd_action": wd_action,
            "safe": safe,
            "fail_safe_write": fail_safe_write,
            "with_store": cfg.chance(1, 4),
            "report_health": cfg.chance(1, 2),
            "fault": fault,
            "ops": ops,
        })
    }

    fn run(&self, case: &Json, stats: &mut Stats) -> Result<(), Violation> {
        for p in ["probe.safe_state_checked", "probe.safe_delivery_failed_on_a_driver", "probe.safe_delivery_with_failing_and_healthy_driver", "probe.refused_cycle", "probe.cycle_after_restart", "probe.halt_without_safe_state", "probe.second_fault_after_restart"] {
            stats.add(p, 0);
        }
        stats.add("probe.runner_with_shared_globals", 0);
        stats.add("probe.runner_plain", 0);
        if case["runner"].as_bool().unwrap_or(false) {
            return self.run_runner(case, stats);
        }
        let kind = case["fault"]["kind"].as_str().unwrap_or("sim");
        if kind == "budget" && case["fault"]["k"].is_null() {
            // enumerate every budget point of the fault cycle
            let mut k = 0u64;
            loop {
                let out = self.run_one(case, Some(k), stats).map_err(|v| {
                    let mut narrowed = case.clone();
                    narrowed["fault"]["k"] = Json::from(k);
                    v.narrowed(narrowed)
                })?;
                stats.inc("worlds");
                if !out.fired {
                    break;
                }
                k += 1;
                if k > 2_000 {
                    return Err(Violation::new("harness/budget-enumeration-unbounded", "more than 2000 budget points in one cycle"));
                }
            }
            stats.add("budget_points_enumerated", k);
            stats.inc("probe.full_budget_enumeration");
            if stats.samples.is_empty() {
                stats.sample(json!({"case": case, "budget_points_enumerated": k}));
            }
            Ok(())
        } else {
            let k = case["fault"]["k"].as_u64();
            let out = self.run_one(case, k, stats)?;
            stats.inc("worlds");
            if !out.fired {
                stats.inc("fault_did_not_fire");
            }
            let _ = out.budget_points_in_fault_cycle;
            Ok(())
        }
    }
}
