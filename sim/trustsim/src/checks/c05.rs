//! C05 - execution and compilation are deterministic and reproducible.
//!
//! The simulator's own determinism proof applied to the product: for a seeded
//! project + input/clock/fault trace the parent spawns N child OS processes of
//! the same binary that differ only in what must not matter (process = fresh
//! RandomState keys and ASLR, heap pre-padding, thread stack size, unrelated
//! environment variables, start order) and compares container bytes and
//! per-cycle trace digests.
use std::io::Write;
use std::process::{Command, Stdio};

use serde_json::{json, Value as Json};

use trust_runtime::value::{Duration, Value};

use crate::framework::{guard, scratch_dir, Check, Stats, Tier, Violation};
use crate::proggen::{self, Knobs};
use crate::rng::{Fnv, Rng};
use crate::world;

pub struct C05Check;
pub static C05: C05Check = C05Check;

/// What one process observes for a case: (container hash, container len, second-compile equal, per-cycle digests)
#[derive(Debug, Clone, PartialEq, Eq)]
pub struct Observation {
    pub compile: String,
    pub container_hash: u64,
    pub container_len: usize,
    pub recompiled_equal: bool,
    pub cycles: Vec<u64>,
}

impl Observation {
    fn to_line(&self) -> String {
        format!(
            "C05OBS {} {} {} {} {}",
            self.compile,
            self.container_hash,
            self.container_len,
            u8::from(self.recompiled_equal),
            self.cycles.iter().map(u64::to_string).collect::<Vec<_>>().join(",")
        )
    }
    fn from_line(line: &str) -> Option<Observation> {
        let mut it = line.strip_prefix("C05OBS ")?.split(' ');
        Some(Observation {
            compile: it.next()?.to_string(),
            container_hash: it.next()?.parse().ok()?,
            container_len: it.next()?.parse().ok()?,
            recompiled_equal: it.next()? == "1",
            cycles: it.next().unwrap_or("").split(',').filter(|s| !s.is_empty()).filter_map(|s| s.parse().ok()).collect(),
        })
    }
}

/// the work every process does for a case
pub fn observe(case: &Json) -> Observation {
    let src = proggen::render(&case["project"]);
    let b1 = trust_runtime::harness::bytecode_bytes_from_source(&src);
    let b2 = trust_runtime::harness::bytecode_bytes_from_source(&src);
    let (compile, hash, len, same) = match (&b1, &b2) {
        (Ok(a), Ok(b)) => {
            let mut h = Fnv::new();
            h.bytes(a);
            ("ok".to_string(), h.finish(), a.len(), a == b)
        }
        (Err(e), _) | (_, Err(e)) => {
            let mut h = Fnv::new();
            h.str(&e.to_string());
            ("rejected".to_string(), h.finish(), 0, format!("{:?}", b1.as_ref().err().map(ToString::to_string)) == format!("{:?}", b2.as_ref().err().map(ToString::to_string)))
        }
    };
    let mut cycles = vec![];
    if let Ok(mut rt) = world::compile(&src) {
        rt.io_mut().resize(proggen::INPUT_LEN, 8, 0);
        // several drivers that do not commute: each delivers other bytes for the whole image (the one
        // registered last delivers the case's bytes), and all of them log their calls
        let n_drv = case["drivers"].as_u64().unwrap_or(0) as usize;
        let drivers = (n_drv > 0).then(|| {
            let mut names: Vec<String> = ["zeta", "alpha", "mid", "beta9", "omega"].iter().take(n_drv).map(|s| (*s).to_string()).collect();
            names.truncate(n_drv);
            let shared = world::DriverShared::new(names.len());
            for (i, n) in names.iter().enumerate() {
                rt.add_io_driver(n.clone(), Box::new(world::SimDriver { index: i, shared: shared.clone() }));
            }
            shared
        });
        let debug = rt.enable_debug();
        let mut now = 0i64;
        for op in case["ops"].as_array().cloned().unwrap_or_default() {
            match op["k"].as_str().unwrap_or("cycle") {
                "budget" => verif_hooks::budget::arm_in(op["at"].as_u64().unwrap_or(0), false),
                "restart" => {
                    let mode = if op["mode"] == "warm" { trust_runtime::RestartMode::Warm } else { trust_runtime::RestartMode::Cold };
                    let _ = rt.restart(mode);
                    now = 0;
                }
                "set" => rt.storage_mut().set_global("g_sel", Value::DInt(op["sel"].as_i64().unwrap_or(0) as i32)),
                _ => {
                    now = now.saturating_add(op["dt"].as_i64().unwrap_or(0).max(0));
                    if let Some(bytes) = op["in"].as_array() {
                        if bytes.len() == proggen::INPUT_LEN {
                            let b: Vec<u8> = bytes.iter().map(|x| x.as_u64().unwrap_or(0) as u8).collect();
                            rt.io_mut().inputs_mut().copy_from_slice(&b);
                            if let Some(d) = &drivers {
                                let mut d = d.lock().unwrap();
                                let n = d.next_input.len();
                                for i in 0..n {
                                    let skew = ((n - 1 - i) * 37) as u8;
                                    d.next_input[i] = Some((0, b.iter().map(|x| x.wrapping_add(skew)).collect()));
                                }
                                // two drivers failing in one cycle: which failure is reported must not depend on the process
                                if op["fail_two"].as_bool().unwrap_or(false) && n >= 2 {
                                    d.fail_read[0] = true;
                                    d.fail_read[n - 1] = true;
                                }
                            }
                        }
                    }
                    rt.set_current_time(Duration::from_nanos(now));
                    let r = rt.execute_cycle();
                    verif_hooks::budget::disarm();
                    let mut h = Fnv::new();
                    h.str(&format!("{:?}", r.as_ref().err()));
                    for (k, v) in world::dump_storage(&rt) {
                        h.str(&k).str(&v);
                    }
                    for (k, t) in world::tag_walk(&rt) {
                        h.str(&k).str(t);
                    }
                    h.bytes(rt.io().outputs());
                    h.bytes(rt.io().inputs());
                    if let Some(d) = &drivers {
                        let mut d = d.lock().unwrap();
                        for ev in d.log.drain(..) {
                            h.str(&format!("{ev:?}"));
                        }
                        let n = d.next_input.len();
                        for i in 0..n {
                            d.fail_read[i] = false;
                        }
                    }
                    for ev in debug.drain_runtime_events() {
                        h.str(&world::render_event(&ev));
                    }
                    cycles.push(h.finish());
                    if r.is_err() {
                        rt.clear_fault();
                    }
                }
            }
        }
    }
    Observation { compile, container_hash: hash, container_len: len, recompiled_equal: same, cycles }
}

/// child side: `trustsim c05child <casefile> <variant>`
pub fn child_main(path: &str, variant: u64) {
    let text = std::fs::read_to_string(path).expect("read case");
    let case: Json = serde_json::from_str(&text).expect("parse case");
    // perturbations that must not matter
    let padding: Vec<Vec<u8>> = (0..variant % 7).map(|i| vec![i as u8; (variant as usize * 4099 + 13) % 1_000_003]).collect();
    let stack = (8 + (variant % 5) * 3) << 20;
    let handle = std::thread::Builder::new()
        .stack_size(stack as usize)
        .spawn(move || {
            let obs = observe(&case);
            println!("{}", obs.to_line());
        })
        .expect("spawn");
    let _ = handle.join();
    drop(padding);
    let _ = std::io::stdout().flush();
}

impl Check for C05Check {
    fn id(&self) -> &'static str {
        "C05"
    }
    fn cases(&self, tier: Tier) -> u64 {
        match tier {
            Tier::Quick => 160,
            Tier::Thorough => 600,
        }
    }
    fn hang_limit_s(&self) -> u64 {
        300
    }
    fn rule(&self) -> &'static str {
        "case = ProgGen project (functions, FBs, programs in two tasks) + 6-30 bulk units (each: enum, struct, alias, interface, class implementing it, function, FB with a method and a reference) in seeded order, so every table of the compiler and the encoder holds many keys, + a trace of cycles with boundary inputs, budget faults and restarts; each case is observed in the parent worker and in N fresh child processes (quick 5, thorough 11) that differ in OS process (hash seeds, ASLR), heap padding, thread stack size and environment; half of the cases attach 2-5 logging I/O drivers that do not commute (different bytes for the whole input image, two failing in one cycle), inputs and driver call log included in the per-cycle digest; distinct non-trivial = distinct project hashes with >= 20 POUs/types whose observations were compared across >= 2 processes"
    }
    fn assumptions(&self) -> Vec<&'static str> {
        vec![
            "the working directory and the source text are the same in all processes (path canonicalisation makes the directory a legitimate input)",
            "with N+1 processes an order dependence between two hash-map keys escapes with probability 2^-N per affected pair",
            "trace digest = cycle result + all variables (values and tags) + output image + runtime events, per cycle",
        ]
    }
    fn components(&self) -> (Vec<&'static str>, Vec<&'static str>) {
        (
            vec!["whole compile path (parser, HIR, type checker, lowering, bytecode encoder)", "interpreter + scheduler + I/O image on the trace", "runtime events"],
            vec!["clock", "%I image"],
        )
    }

    fn generate(&self, rng: &mut Rng, tier: Tier, _index: u64) -> Json {
        let mut kr = rng.fork("knobs");
        let mut pr = rng.fork("project");
        let mut or = rng.fork("ops");
        let mut knobs = Knobs::swarm(&mut kr);
        knobs.stmts = (4, 14);
        let size = (pr.usize(1, 3), pr.usize(1, 2), pr.usize(2, 5));
        let mut project = proggen::gen_project(&mut pr, knobs, size);
        let n_bulk = match tier {
            Tier::Quick => pr.usize(6, 20),
            Tier::Thorough => pr.usize(8, 30),
        };
        project["bulk"] = proggen::gen_bulk(&mut pr, n_bulk);
        let mut ops = vec![];
        for _ in 0..or.usize(4, 12) {
            match or.below(10) {
                0 => ops.push(json!({"k": "budget", "at": or.below(300)})),
                1 => ops.push(json!({"k": "restart", "mode": if or.bool() { "warm" } else { "cold" }})),
                2 => ops.push(json!({"k": "set", "sel": or.range(-2, 8)})),
                _ => ops.push(json!({"k": "cycle", "dt": *or.pick(&[0i64, 10_000_000, 20_000_000]), "in": crate::checks::c01::gen_inputs(&mut or)})),
            }
        }
        let mut dr = rng.fork("drivers");
        let n_drivers = if dr.bool() { dr.usize(2, 5) } else { 0 };
        if n_drivers > 0 {
            for op in ops.iter_mut().filter(|op| op["k"] == "cycle") {
                if dr.chance(1, 6) {
                    op["fail_two"] = Json::from(true);
                }
            }
        }
        json!({"project": project, "children": if tier == Tier::Quick { 5 } else { 11 }, "drivers": n_drivers, "ops": ops})
    }

    fn shrink(&self, case: &Json) -> Vec<Json> {
        let mut out = crate::framework::shrink_generic(case);
        for p in proggen::shrink_project(&case["project"]) {
            let mut c = case.clone();
            c["project"] = p;
            out.push(c);
        }
        out
    }

    fn run(&self, case: &Json, stats: &mut Stats) -> Result<(), Violation> {
        stats.add("probe.compared_across_processes", 0);
        stats.add("probe.rejected_by_compiler", 0);
        let own = guard("observe", || observe(case))?;
        if own.compile != "ok" {
            stats.inc("probe.rejected_by_compiler");
        }
        if !own.recompiled_equal {
            return Err(Violation::new("compile/differs-within-process", "two compilations of the same source in one process differ".to_string()));
        }
        // children
        static N: std::sync::atomic::AtomicU64 = std::sync::atomic::AtomicU64::new(0);
        let n = N.fetch_add(1, std::sync::atomic::Ordering::SeqCst);
        let path = scratch_dir().join(format!("c05-{}-{n}.json", std::process::id()));
        std::fs::write(&path, serde_json::to_vec(case).unwrap()).map_err(|e| Violation::new("harness/io", e.to_string()))?;
        let exe = std::env::current_exe().map_err(|e| Violation::new("harness/exe", e.to_string()))?;
        let children = case["children"].as_u64().unwrap_or(5).clamp(1, 32);
        let mut spawned = vec![];
        for v in 1..=children {
            let child = Command::new(&exe)
                .arg("c05child")
                .arg(&path)
                .arg(v.to_string())
                .env(format!("VERIF_NOISE_{v}"), "x".repeat((v * 37 % 200) as usize))
                .env("VERIF_ORDER", v.to_string())
                .stdout(Stdio::piped())
                .stderr(Stdio::null())
                .spawn()
                .map_err(|e| Violation::new("harness/spawn", e.to_string()))?;
            spawned.push((v, child));
        }
        let mut result = Ok(());
        for (v, child) in spawned {
            let out = child.wait_with_output().map_err(|e| Violation::new("harness/wait", e.to_string()))?;
            let text = String::from_utf8_lossy(&out.stdout);
            let obs = text.lines().find_map(Observation::from_line);
            let Some(obs) = obs else {
                if result.is_ok() {
                    result = Err(Violation::new("child/died", format!("child variant {v} produced no observation (status {:?})", out.status)));
                }
                continue;
            };
            stats.inc("children");
            if result.is_err() {
                continue;
            }
            if !obs.recompiled_equal {
                result = Err(Violation::new("compile/differs-within-process", format!("child {v}: two compilations in one process differ")));
            } else if obs.compile != own.compile || obs.container_hash != own.container_hash || obs.container_len != own.container_len {
                result = Err(Violation::new(
                    "compile/differs-across-processes",
                    format!("container of child {v}: {} bytes hash {} ({}), parent: {} bytes hash {} ({})", obs.container_len, obs.container_hash, obs.compile, own.container_len, own.container_hash, own.compile),
                ));
            } else if obs.cycles != own.cycles {
                let at = obs.cycles.iter().zip(own.cycles.iter()).position(|(a, b)| a != b).unwrap_or(obs.cycles.len().min(own.cycles.len()));
                result = Err(Violation::new("trace/differs-across-processes", format!("child {v}: trace digest differs from the parent at cycle {at}")));
            }
        }
        let _ = std::fs::remove_file(&path);
        result?;
        stats.inc("probe.compared_across_processes");
        stats.log(&format!("{}:{}:{:?}", own.container_hash, own.container_len, own.cycles));
        let units = case["project"]["bulk"].as_array().map_or(0, Vec::len) * 7 + case["project"]["pous"].as_array().map_or(0, Vec::len);
        if units >= 20 && own.compile == "ok" {
            stats.nontrivial(own.container_hash);
        }
        stats.state(own.container_hash ^ own.cycles.iter().fold(0u64, |a, b| a.rotate_left(7) ^ b));
        stats.sim_time_ns += 10_000_000 * own.cycles.len() as u128;
        if stats.samples.is_empty() {
            stats.sample(json!({"container_len": own.container_len, "cycles": own.cycles.len(), "children": children, "source_head": proggen::render(&case["project"]).chars().take(1500).collect::<String>()}));
        }
        Ok(())
    }
}
