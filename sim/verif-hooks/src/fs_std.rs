//! H3 - a `std` look-alike whose `fs` logs every mutation and can inject
//! short writes / EINTR / ENOSPC.  Used through
//! `#[cfg(trust_verif)] use verif_hooks::fs_std as std;` in `retain.rs`.
//!
//! The shim operates on real files (so un-hookable calls such as
//! `Path::exists` keep working) and records an operation log from which the
//! simulator materialises the disk image a dying process would leave behind
//! after any prefix of the log (including a torn last write).
pub use ::std::*;

pub mod fs {
    pub use ::std::fs::*;

    use ::std::cell::RefCell;
    use ::std::io;
    use ::std::path::{Path, PathBuf};

    /// One logged file-system mutation.
    #[derive(Debug, Clone, PartialEq, Eq)]
    pub enum FsOp {
        /// open(O_CREAT|O_TRUNC) (`truncate`) or open(O_CREAT) without truncation
        Create { path: PathBuf, truncate: bool },
        /// one successful `write` system call appending/overwriting at `offset`
        Write { path: PathBuf, offset: u64, data: Vec<u8> },
        SetLen { path: PathBuf, len: u64 },
        SyncFile { path: PathBuf },
        Rename { from: PathBuf, to: PathBuf },
        Remove { path: PathBuf },
        CreateDir { path: PathBuf },
    }

    /// Fault plan, consumed as write calls happen (indices count `write` calls since `reset`).
    #[derive(Debug, Clone, Default)]
    pub struct FaultPlan {
        /// write call index -> accept at most this many bytes (>=1)
        pub short_writes: Vec<(u64, usize)>,
        /// write call indices that fail once with EINTR (`ErrorKind::Interrupted`)
        pub eintr: Vec<u64>,
        /// write call index from which every write fails with ENOSPC
        pub enospc_from: Option<u64>,
        /// fail the n-th rename
        pub fail_rename: Option<u64>,
        /// fail the n-th sync
        pub fail_sync: Option<u64>,
    }

    #[derive(Default)]
    struct State {
        enabled: bool,
        log: Vec<FsOp>,
        plan: FaultPlan,
        write_calls: u64,
        rename_calls: u64,
        sync_calls: u64,
        fired_short: u64,
        fired_eintr: u64,
        fired_enospc: u64,
    }

    thread_local! {
        static STATE: RefCell<State> = RefCell::new(State::default());
    }

    /// Start logging with a fault plan (clears the log).
    pub fn sim_reset(plan: FaultPlan) {
        STATE.with(|s| {
            let mut s = s.borrow_mut();
            *s = State::default();
            s.enabled = true;
            s.plan = plan;
        });
    }

    pub fn sim_disable() {
        STATE.with(|s| s.borrow_mut().enabled = false);
    }

    pub fn sim_take_log() -> Vec<FsOp> {
        STATE.with(|s| ::std::mem::take(&mut s.borrow_mut().log))
    }

    /// (short writes fired, EINTR fired, ENOSPC fired)
    pub fn sim_fault_counts() -> (u64, u64, u64) {
        STATE.with(|s| {
            let s = s.borrow();
            (s.fired_short, s.fired_eintr, s.fired_enospc)
        })
    }

    fn log(op: FsOp) {
        STATE.with(|s| {
            let mut s = s.borrow_mut();
            if s.enabled {
                s.log.push(op);
            }
        });
    }

    /// Shimmed `std::fs::File`.
    #[derive(Debug)]
    pub struct File {
        inner: ::std::fs::File,
        path: PathBuf,
        pos: u64,
    }

    impl File {
        pub fn create<P: AsRef<Path>>(path: P) -> io::Result<File> {
            let path = path.as_ref().to_path_buf();
            let inner = ::std::fs::File::create(&path)?;
            log(FsOp::Create { path: path.clone(), truncate: true });
            Ok(File { inner, path, pos: 0 })
        }

        pub fn create_new<P: AsRef<Path>>(path: P) -> io::Result<File> {
            let path = path.as_ref().to_path_buf();
            let inner = ::std::fs::File::create_new(&path)?;
            log(FsOp::Create { path: path.clone(), truncate: true });
            Ok(File { inner, path, pos: 0 })
        }

        pub fn open<P: AsRef<Path>>(path: P) -> io::Result<File> {
            let path = path.as_ref().to_path_buf();
            let inner = ::std::fs::File::open(&path)?;
            Ok(File { inner, path, pos: 0 })
        }

        pub fn options() -> OpenOptions {
            OpenOptions::new()
        }

        pub fn sync_all(&self) -> io::Result<()> {
            self.sync_impl()
        }

        pub fn sync_data(&self) -> io::Result<()> {
            self.sync_impl()
        }

        fn sync_impl(&self) -> io::Result<()> {
            let fail = STATE.with(|s| {
                let mut s = s.borrow_mut();
                let n = s.sync_calls;
                s.sync_calls += 1;
                s.enabled && s.plan.fail_sync == Some(n)
            });
            if fail {
                return Err(io::Error::new(io::ErrorKind::Other, "simulated fsync failure"));
            }
            // no real fsync: the simulator models durability from the log
            log(FsOp::SyncFile { path: self.path.clone() });
            Ok(())
        }

        pub fn set_len(&self, size: u64) -> io::Result<()> {
            self.inner.set_len(size)?;
            log(FsOp::SetLen { path: self.path.clone(), len: size });
            Ok(())
        }

        pub fn metadata(&self) -> io::Result<::std::fs::Metadata> {
            self.inner.metadata()
        }
    }

    impl io::Read for File {
        fn read(&mut self, buf: &mut [u8]) -> io::Result<usize> {
            let n = io::Read::read(&mut self.inner, buf)?;
            self.pos += n as u64;
            Ok(n)
        }
    }

    impl io::Seek for File {
        fn seek(&mut self, pos: io::SeekFrom) -> io::Result<u64> {
            let p = io::Seek::seek(&mut self.inner, pos)?;
            self.pos = p;
            Ok(p)
        }
    }

    impl io::Write for File {
        fn write(&mut self, buf: &[u8]) -> io::Result<usize> {
            enum Act {
                Full,
                Short(usize),
                Eintr,
                Enospc,
            }
            let act = STATE.with(|s| {
                let mut s = s.borrow_mut();
                if !s.enabled {
                    return Act::Full;
                }
                let n = s.write_calls;
                s.write_calls += 1;
                if s.plan.enospc_from.is_some_and(|from| n >= from) {
                    s.fired_enospc += 1;
                    return Act::Enospc;
                }
                if s.plan.eintr.contains(&n) {
                    s.fired_eintr += 1;
                    return Act::Eintr;
                }
                if let Some((_, k)) = s.plan.short_writes.iter().find(|(i, _)| *i == n) {
                    let k = (*k).max(1);
                    if k < buf.len() {
                        s.fired_short += 1;
                        return Act::Short(k);
                    }
                }
                Act::Full
            });
            let take = match act {
                Act::Full => buf.len(),
                Act::Short(k) => k,
                Act::Eintr => return Err(io::Error::new(io::ErrorKind::Interrupted, "simulated EINTR")),
                Act::Enospc => {
                    return Err(io::Error::new(io::ErrorKind::StorageFull, "simulated ENOSPC"))
                }
            };
            if take == 0 {
                return Ok(0);
            }
            io::Write::write_all(&mut self.inner, &buf[..take])?;
            log(FsOp::Write { path: self.path.clone(), offset: self.pos, data: buf[..take].to_vec() });
            self.pos += take as u64;
            Ok(take)
        }

        fn flush(&mut self) -> io::Result<()> {
            io::Write::flush(&mut self.inner)
        }
    }

    /// Shimmed `OpenOptions` (subset used by file-store style code).
    #[derive(Debug, Clone, Default)]
    pub struct OpenOptions {
        read: bool,
        write: bool,
        append: bool,
        truncate: bool,
        create: bool,
        create_new: bool,
    }

    impl OpenOptions {
        pub fn new() -> Self {
            Self::default()
        }
        pub fn read(&mut self, v: bool) -> &mut Self {
            self.read = v;
            self
        }
        pub fn write(&mut self, v: bool) -> &mut Self {
            self.write = v;
            self
        }
        pub fn append(&mut self, v: bool) -> &mut Self {
            self.append = v;
            self
        }
        pub fn truncate(&mut self, v: bool) -> &mut Self {
            self.truncate = v;
            self
        }
        pub fn create(&mut self, v: bool) -> &mut Self {
            self.create = v;
            self
        }
        pub fn create_new(&mut self, v: bool) -> &mut Self {
            self.create_new = v;
            self
        }
        pub fn open<P: AsRef<Path>>(&self, path: P) -> io::Result<File> {
            let path = path.as_ref().to_path_buf();
            let existed = path.exists();
            let inner = ::std::fs::OpenOptions::new()
                .read(self.read)
                .write(self.write)
                .append(self.append)
                .truncate(self.truncate)
                .create(self.create)
                .create_new(self.create_new)
                .open(&path)?;
            let mutating = self.write || self.append;
            if mutating && (self.truncate || !existed) {
                log(FsOp::Create { path: path.clone(), truncate: self.truncate || !existed });
            }
            let pos = if self.append { inner.metadata().map(|m| m.len()).unwrap_or(0) } else { 0 };
            Ok(File { inner, path, pos })
        }
    }

    pub fn rename<P: AsRef<Path>, Q: AsRef<Path>>(from: P, to: Q) -> io::Result<()> {
        let fail = STATE.with(|s| {
            let mut s = s.borrow_mut();
            let n = s.rename_calls;
            s.rename_calls += 1;
            s.enabled && s.plan.fail_rename == Some(n)
        });
        if fail {
            return Err(io::Error::new(io::ErrorKind::Other, "simulated rename failure"));
        }
        ::std::fs::rename(from.as_ref(), to.as_ref())?;
        log(FsOp::Rename { from: from.as_ref().to_path_buf(), to: to.as_ref().to_path_buf() });
        Ok(())
    }

    pub fn remove_file<P: AsRef<Path>>(path: P) -> io::Result<()> {
        ::std::fs::remove_file(path.as_ref())?;
        log(FsOp::Remove { path: path.as_ref().to_path_buf() });
        Ok(())
    }

    pub fn create_dir_all<P: AsRef<Path>>(path: P) -> io::Result<()> {
        ::std::fs::create_dir_all(path.as_ref())?;
        log(FsOp::CreateDir { path: path.as_ref().to_path_buf() });
        Ok(())
    }

    /// `std::fs::write`: create+truncate, then write_all through the shim.
    pub fn write<P: AsRef<Path>, C: AsRef<[u8]>>(path: P, contents: C) -> io::Result<()> {
        let mut f = File::create(path)?;
        io::Write::write_all(&mut f, contents.as_ref())
    }

    pub fn read<P: AsRef<Path>>(path: P) -> io::Result<Vec<u8>> {
        ::std::fs::read(path)
    }
}
