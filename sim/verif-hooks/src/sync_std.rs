//! H4a/H5a - a `std` look-alike whose `sync` and `thread` run on the shuttle
//! controlled scheduler (engine B).
//!
//! Hooked product modules contain exactly one added line,
//! `#[cfg(trust_verif_shuttle)] use verif_hooks::sync_std as std;`, so their
//! untouched `use std::sync::{Arc, Condvar, Mutex}`, `use std::thread` and
//! inline `std::sync::mpsc::channel()` paths resolve here.  Everything that is
//! not overridden below is the real `std` (glob re-export; explicit items
//! shadow glob imports).
//!
//! Modelling decisions (all of them legal behaviours of the real primitives):
//!
//! * `Mutex`/`MutexGuard`/`Condvar` are newtypes over shuttle's (shuttle's
//!   guard does not expose its mutex, which a timed wait needs).  Poisoning is
//!   kept by the shim with `std` semantics (see `sync::Mutex`).
//! * `Condvar::wait_timeout` = release the lock -> scheduling point (marked as
//!   a yield: the thread is *waiting*) -> re-acquire -> `timed_out() == true`.
//!   shuttle's own `wait_timeout` never expires, which would turn every
//!   50 ms polling loop of the product into a false deadlock.
//! * `mpsc`: the real `std` `Sender` (un-hooked modules construct reply
//!   channels and must type-check against the hooked ones); `Receiver` is a
//!   wrapper whose blocking calls poll `try_recv` with a scheduling point in
//!   between (an un-shimmed blocking `recv` would hang the single OS thread
//!   shuttle runs on).  `recv_timeout` polls a bounded number of times and then
//!   reports `Timeout` (always a legal outcome).
//! * `thread::spawn`/`Builder::spawn` run the body under `catch_unwind` inside
//!   the shuttle task, so a panicking thread dies alone and its `JoinHandle`
//!   reports `Err` - as with OS threads - instead of tearing down the whole
//!   shuttle execution.  Panics are recorded in `thread::verif_take_panics()`.
//! * `thread::sleep` is a plain scheduling point (shuttle has no time).

pub use ::std::*;

/// number of times a bounded timed receive polls before reporting `Timeout`
const RECV_TIMEOUT_POLLS: usize = 4;

pub mod sync {
    pub use ::std::sync::*;

    pub mod atomic {
        pub use shuttle::sync::atomic::*;
    }

    use ::std::fmt;
    use ::std::mem::ManuallyDrop;
    use ::std::ops::{Deref, DerefMut};
    use ::std::sync::atomic::{AtomicBool as StdAtomicBool, Ordering as StdOrdering};
    use ::std::time::Duration;

    struct Inner<T: ?Sized> {
        /// `std` poison semantics kept by the shim itself (see `MutexGuard::drop`)
        poisoned: StdAtomicBool,
        m: shuttle::sync::Mutex<T>,
    }

    /// `std::sync::Mutex` on the shuttle scheduler.
    ///
    /// Poisoning is modelled here and not by the mutex inside shuttle's: all
    /// shuttle tasks share one OS thread, so `std::thread::panicking()` - which
    /// both `std`'s poison flag and shuttle's "close the semaphore, orphan the
    /// waiters" path consult - is true for *every* task while *one* task
    /// unwinds.  A guard dropped by an unwinding task therefore marks the shim
    /// mutex poisoned and *defers* the release of the shuttle lock until the
    /// unwind has been caught by the thread wrapper (`thread::contain`), where
    /// it is an ordinary release that wakes the waiters; they then observe
    /// `Err(PoisonError)` exactly as OS threads would.  No scheduling point
    /// happens during an unwind.
    pub struct Mutex<T: ?Sized> {
        inner: Arc<Inner<T>>,
    }

    /// Guard of [`Mutex`]; knows its mutex so that a timed wait can re-lock.
    pub struct MutexGuard<'a, T: ?Sized + 'a> {
        guard: ManuallyDrop<shuttle::sync::MutexGuard<'a, T>>,
        /// keeps the lock alive when the release is deferred past the borrow
        keep: ManuallyDrop<Arc<Inner<T>>>,
        mutex: &'a Mutex<T>,
    }

    impl<T> Mutex<T> {
        #[track_caller]
        pub fn new(value: T) -> Self {
            Mutex { inner: Arc::new(Inner { poisoned: StdAtomicBool::new(false), m: shuttle::sync::Mutex::new(value) }) }
        }

        pub fn into_inner(self) -> LockResult<T> {
            let inner = match Arc::try_unwrap(self.inner) {
                Ok(inner) => inner,
                Err(_) => panic!("verif shim: Mutex::into_inner while a deferred guard is alive"),
            };
            let poisoned = inner.poisoned.load(StdOrdering::SeqCst);
            let value = match inner.m.into_inner() {
                Ok(v) => v,
                Err(p) => p.into_inner(),
            };
            if poisoned {
                Err(PoisonError::new(value))
            } else {
                Ok(value)
            }
        }
    }

    impl<T: ?Sized> Mutex<T> {
        fn wrap<'a>(&'a self, res: LockResult<shuttle::sync::MutexGuard<'a, T>>) -> LockResult<MutexGuard<'a, T>> {
            // the std-level poison flag inside shuttle's mutex is not trusted (see above)
            let guard = match res {
                Ok(guard) => guard,
                Err(poison) => {
                    self.inner.m.clear_poison();
                    poison.into_inner()
                }
            };
            let guard = MutexGuard {
                guard: ManuallyDrop::new(guard),
                keep: ManuallyDrop::new(self.inner.clone()),
                mutex: self,
            };
            if self.inner.poisoned.load(StdOrdering::SeqCst) {
                Err(PoisonError::new(guard))
            } else {
                Ok(guard)
            }
        }

        pub fn lock(&self) -> LockResult<MutexGuard<'_, T>> {
            self.wrap(self.inner.m.lock())
        }

        pub fn try_lock(&self) -> TryLockResult<MutexGuard<'_, T>> {
            let res = match self.inner.m.try_lock() {
                Ok(guard) => Ok(guard),
                Err(TryLockError::WouldBlock) => return Err(TryLockError::WouldBlock),
                Err(TryLockError::Poisoned(poison)) => Err(poison),
            };
            match self.wrap(res) {
                Ok(guard) => Ok(guard),
                Err(poison) => Err(TryLockError::Poisoned(poison)),
            }
        }

        pub fn is_poisoned(&self) -> bool {
            self.inner.poisoned.load(StdOrdering::SeqCst)
        }

        pub fn clear_poison(&self) {
            self.inner.poisoned.store(false, StdOrdering::SeqCst);
        }
    }

    impl<'a, T: ?Sized> MutexGuard<'a, T> {
        /// take the guard apart without running its `Drop`
        fn into_parts(self) -> (shuttle::sync::MutexGuard<'a, T>, &'a Mutex<T>) {
            let mut me = ManuallyDrop::new(self);
            // SAFETY: `me` is never dropped, each field is moved out exactly once
            unsafe {
                let guard = ManuallyDrop::take(&mut me.guard);
                ManuallyDrop::drop(&mut me.keep);
                (guard, me.mutex)
            }
        }
    }

    impl<T: ?Sized> Drop for MutexGuard<'_, T> {
        fn drop(&mut self) {
            // SAFETY: fields are taken exactly once, here
            let (guard, keep) = unsafe { (ManuallyDrop::take(&mut self.guard), ManuallyDrop::take(&mut self.keep)) };
            if ::std::thread::panicking() {
                // this task is unwinding (no other task runs during an unwind)
                keep.poisoned.store(true, StdOrdering::SeqCst);
                let release: Box<dyn FnOnce() + '_> = Box::new(move || {
                    drop(guard);
                    drop(keep);
                });
                // SAFETY: the closure owns an `Arc` of the lock the guard borrows from,
                // and drops the guard before that `Arc`; nothing else is borrowed.
                let release: Box<dyn FnOnce() + 'static> = unsafe { ::std::mem::transmute(release) };
                super::defer_release(release);
            } else {
                drop(guard);
                drop(keep);
            }
        }
    }

    impl<T> Default for Mutex<T>
    where
        T: Default,
    {
        fn default() -> Self {
            Mutex::new(T::default())
        }
    }

    impl<T> From<T> for Mutex<T> {
        fn from(value: T) -> Self {
            Mutex::new(value)
        }
    }

    impl<T: ?Sized + fmt::Debug> fmt::Debug for Mutex<T> {
        fn fmt(&self, f: &mut fmt::Formatter<'_>) -> fmt::Result {
            fmt::Debug::fmt(&self.inner.m, f)
        }
    }

    impl<T: ?Sized> Deref for MutexGuard<'_, T> {
        type Target = T;
        fn deref(&self) -> &T {
            &self.guard
        }
    }

    impl<T: ?Sized> DerefMut for MutexGuard<'_, T> {
        fn deref_mut(&mut self) -> &mut T {
            &mut self.guard
        }
    }

    impl<T: ?Sized + fmt::Debug> fmt::Debug for MutexGuard<'_, T> {
        fn fmt(&self, f: &mut fmt::Formatter<'_>) -> fmt::Result {
            fmt::Debug::fmt(&**self, f)
        }
    }

    impl<T: ?Sized + fmt::Display> fmt::Display for MutexGuard<'_, T> {
        fn fmt(&self, f: &mut fmt::Formatter<'_>) -> fmt::Result {
            fmt::Display::fmt(&**self, f)
        }
    }

    /// Result of a timed wait.
    #[derive(Debug, Clone, Copy, PartialEq, Eq)]
    pub struct WaitTimeoutResult(bool);

    impl WaitTimeoutResult {
        pub fn timed_out(&self) -> bool {
            self.0
        }
    }

    /// `std::sync::Condvar` on the shuttle scheduler.
    #[derive(Debug)]
    pub struct Condvar {
        inner: shuttle::sync::Condvar,
    }

    impl Condvar {
        #[track_caller]
        pub const fn new() -> Self {
            Condvar { inner: shuttle::sync::Condvar::new() }
        }

        pub fn wait<'a, T>(&self, guard: MutexGuard<'a, T>) -> LockResult<MutexGuard<'a, T>> {
            let (guard, mutex) = guard.into_parts();
            mutex.wrap(self.inner.wait(guard))
        }

        pub fn wait_while<'a, T, F>(&self, mut guard: MutexGuard<'a, T>, mut condition: F) -> LockResult<MutexGuard<'a, T>>
        where
            F: FnMut(&mut T) -> bool,
        {
            while condition(&mut *guard) {
                guard = self.wait(guard)?;
            }
            Ok(guard)
        }

        /// Timed wait modelled as: release, scheduling point, re-acquire, report
        /// a time-out.  (A real `wait_timeout` may always time out; a
        /// notification that arrives in between is observed by the caller's
        /// predicate loop after re-acquiring, exactly as in the real case.)
        pub fn wait_timeout<'a, T>(
            &self,
            guard: MutexGuard<'a, T>,
            _dur: Duration,
        ) -> LockResult<(MutexGuard<'a, T>, WaitTimeoutResult)> {
            super::verif_count_timed_wait();
            let (guard, mutex) = guard.into_parts();
            drop(guard);
            shuttle::thread::yield_now();
            match mutex.lock() {
                Ok(guard) => Ok((guard, WaitTimeoutResult(true))),
                Err(poison) => Err(PoisonError::new((poison.into_inner(), WaitTimeoutResult(true)))),
            }
        }

        pub fn wait_timeout_while<'a, T, F>(
            &self,
            mut guard: MutexGuard<'a, T>,
            dur: Duration,
            mut condition: F,
        ) -> LockResult<(MutexGuard<'a, T>, WaitTimeoutResult)>
        where
            F: FnMut(&mut T) -> bool,
        {
            if !condition(&mut *guard) {
                return Ok((guard, WaitTimeoutResult(false)));
            }
            let (mut guard, _) = self.wait_timeout(guard, dur)?;
            let still = condition(&mut *guard);
            Ok((guard, WaitTimeoutResult(still)))
        }

        pub fn notify_one(&self) {
            self.inner.notify_one()
        }

        pub fn notify_all(&self) {
            self.inner.notify_all()
        }
    }

    impl Default for Condvar {
        fn default() -> Self {
            Condvar::new()
        }
    }

    pub mod mpsc {
        pub use ::std::sync::mpsc::*;

        use ::std::fmt;
        use ::std::time::Duration;

        /// Receiving half with polling (scheduler-visible) blocking calls.
        pub struct Receiver<T> {
            inner: ::std::sync::mpsc::Receiver<T>,
        }

        /// Like `std::sync::mpsc::channel`, with the real `Sender`.
        pub fn channel<T>() -> (Sender<T>, Receiver<T>) {
            let (tx, rx) = ::std::sync::mpsc::channel();
            (tx, Receiver { inner: rx })
        }

        impl<T> Receiver<T> {
            pub fn try_recv(&self) -> Result<T, TryRecvError> {
                // a receive is a visible operation: scheduling point before it
                shuttle::thread::sleep(Duration::ZERO);
                self.inner.try_recv()
            }

            pub fn recv(&self) -> Result<T, RecvError> {
                loop {
                    match self.inner.try_recv() {
                        Ok(v) => return Ok(v),
                        Err(TryRecvError::Disconnected) => return Err(RecvError),
                        Err(TryRecvError::Empty) => shuttle::thread::yield_now(),
                    }
                }
            }

            pub fn recv_timeout(&self, _timeout: Duration) -> Result<T, RecvTimeoutError> {
                for _ in 0..crate::sync_std::RECV_TIMEOUT_POLLS {
                    match self.inner.try_recv() {
                        Ok(v) => return Ok(v),
                        Err(TryRecvError::Disconnected) => return Err(RecvTimeoutError::Disconnected),
                        Err(TryRecvError::Empty) => shuttle::thread::yield_now(),
                    }
                }
                match self.inner.try_recv() {
                    Ok(v) => Ok(v),
                    Err(TryRecvError::Disconnected) => Err(RecvTimeoutError::Disconnected),
                    Err(TryRecvError::Empty) => Err(RecvTimeoutError::Timeout),
                }
            }

            pub fn try_iter(&self) -> ::std::sync::mpsc::TryIter<'_, T> {
                shuttle::thread::sleep(Duration::ZERO);
                self.inner.try_iter()
            }
        }

        impl<T> fmt::Debug for Receiver<T> {
            fn fmt(&self, f: &mut fmt::Formatter<'_>) -> fmt::Result {
                f.write_str("Receiver { .. }")
            }
        }
    }
}

pub mod thread {
    pub use shuttle::thread::*;

    use ::std::panic::{catch_unwind, AssertUnwindSafe};
    use ::std::sync::atomic::{AtomicBool, Ordering};
    use ::std::sync::Arc;

    /// (thread name, panic message) of every product thread that panicked
    /// since the last `verif_take_panics()`.
    static PANICS: ::std::sync::Mutex<Vec<(String, String)>> = ::std::sync::Mutex::new(Vec::new());

    pub fn verif_peek_panics() -> Vec<(String, String)> {
        PANICS.lock().unwrap_or_else(|e| e.into_inner()).clone()
    }

    pub fn verif_take_panics() -> Vec<(String, String)> {
        ::std::mem::take(&mut *PANICS.lock().unwrap_or_else(|e| e.into_inner()))
    }

    /// Join handle with `std` semantics: a panic of the thread is reported by
    /// `join()` as `Err`, other threads keep running.
    #[derive(Debug)]
    pub struct JoinHandle<T> {
        inner: shuttle::thread::JoinHandle<::std::thread::Result<T>>,
        done: Arc<AtomicBool>,
    }

    impl<T> JoinHandle<T> {
        pub fn join(self) -> Result<T> {
            match self.inner.join() {
                Ok(res) => res,
                Err(payload) => Err(payload),
            }
        }

        pub fn thread(&self) -> &Thread {
            self.inner.thread()
        }

        pub fn is_finished(&self) -> bool {
            self.done.load(Ordering::SeqCst)
        }
    }

    fn contain<F, T>(name: Option<String>, f: F) -> (impl FnOnce() -> ::std::thread::Result<T>, Arc<AtomicBool>)
    where
        F: FnOnce() -> T,
    {
        let done = Arc::new(AtomicBool::new(false));
        let flag = done.clone();
        let body = move || {
            let res = catch_unwind(AssertUnwindSafe(f));
            // locks released by the unwind are released for real now (scheduling points)
            super::verif_after_unwind();
            if let Err(payload) = &res {
                let msg = if let Some(s) = payload.downcast_ref::<&str>() {
                    (*s).to_string()
                } else if let Some(s) = payload.downcast_ref::<String>() {
                    s.clone()
                } else {
                    "<non-string panic>".to_string()
                };
                PANICS.lock().unwrap_or_else(|e| e.into_inner()).push((name.unwrap_or_default(), msg));
            }
            flag.store(true, Ordering::SeqCst);
            res
        };
        (body, done)
    }

    #[track_caller]
    pub fn spawn<F, T>(f: F) -> JoinHandle<T>
    where
        F: FnOnce() -> T + Send + 'static,
        T: Send + 'static,
    {
        let (body, done) = contain(None, f);
        JoinHandle { inner: shuttle::thread::spawn(body), done }
    }

    /// `std::thread::Builder` on the shuttle scheduler.
    #[derive(Debug, Default)]
    pub struct Builder {
        name: Option<String>,
        stack_size: Option<usize>,
    }

    impl Builder {
        pub fn new() -> Self {
            Builder::default()
        }

        pub fn name(mut self, name: String) -> Self {
            self.name = Some(name);
            self
        }

        pub fn stack_size(mut self, size: usize) -> Self {
            self.stack_size = Some(size);
            self
        }

        #[track_caller]
        pub fn spawn<F, T>(self, f: F) -> ::std::io::Result<JoinHandle<T>>
        where
            F: FnOnce() -> T + Send + 'static,
            T: Send + 'static,
        {
            let (body, done) = contain(self.name.clone(), f);
            let mut builder = shuttle::thread::Builder::new();
            if let Some(name) = self.name {
                builder = builder.name(name);
            }
            // the coroutine stack size comes from the shuttle Config (the ST
            // interpreter needs far more than a caller-chosen thread stack)
            let _ = self.stack_size;
            Ok(JoinHandle { inner: builder.spawn(body)?, done })
        }
    }
}

// ---------------------------------------------------------------------------
// lock releases deferred past an unwind (see `sync::Mutex`)

::std::thread_local! {
    static DEFERRED: ::std::cell::RefCell<Vec<Box<dyn FnOnce()>>> = const { ::std::cell::RefCell::new(Vec::new()) };
}

fn defer_release(release: Box<dyn FnOnce() + 'static>) {
    DEFERRED.with(|d| d.borrow_mut().push(release));
}

/// To be called right after a `catch_unwind` *inside* a shuttle task: performs
/// the lock releases of the guards the unwind dropped.
pub fn verif_after_unwind() {
    loop {
        let next = DEFERRED.with(|d| {
            let mut d = d.borrow_mut();
            if d.is_empty() {
                None
            } else {
                Some(d.remove(0))
            }
        });
        match next {
            Some(release) => release(),
            None => break,
        }
    }
}

/// Forget releases left over from an execution that ended abnormally (their
/// shuttle execution no longer exists; running them would touch a dead scheduler).
pub fn verif_reset() {
    DEFERRED.with(|d| {
        for release in d.borrow_mut().drain(..) {
            ::std::mem::forget(release);
        }
    });
}

// ---------------------------------------------------------------------------
// simulator-side counters (read by the engine after a run)

static TIMED_WAITS: ::std::sync::atomic::AtomicU64 = ::std::sync::atomic::AtomicU64::new(0);

fn verif_count_timed_wait() {
    TIMED_WAITS.fetch_add(1, ::std::sync::atomic::Ordering::Relaxed);
}

/// number of modelled timed-wait expiries since the last call
pub fn verif_take_timed_waits() -> u64 {
    TIMED_WAITS.swap(0, ::std::sync::atomic::Ordering::Relaxed)
}
