//! C19: one seeded operation -> one call of the real `WebIdeState` public API.
use serde::Serialize;
use serde_json::{json, Value as Json};

use trust_runtime::web::ide::{IdeError, IdeErrorKind, WebIdeFrontendTelemetry, WebIdeState};

/// What came back from the API (everything a client could see).
#[derive(Debug, Clone, Default)]
pub struct Reply {
    pub ok: Option<Json>,
    pub err_kind: Option<&'static str>,
    pub err_text: String,
    pub conflict_version: Option<u64>,
}

impl Reply {
    pub fn is_ok(&self) -> bool {
        self.ok.is_some()
    }
    /// short, deterministic outcome label for logs / coverage
    pub fn outcome(&self) -> &'static str {
        match (&self.ok, self.err_kind) {
            (Some(_), _) => "ok",
            (None, Some(k)) => k,
            _ => "none",
        }
    }
    /// everything the client received, lower-cased, for marker scanning
    pub fn payload_lower(&self) -> String {
        let mut s = self.ok.as_ref().map(|v| v.to_string()).unwrap_or_default();
        s.push_str(&self.err_text);
        s.to_lowercase()
    }
}

fn kind_name(k: IdeErrorKind) -> &'static str {
    match k {
        IdeErrorKind::Unauthorized => "unauthorized",
        IdeErrorKind::Forbidden => "forbidden",
        IdeErrorKind::NotFound => "notfound",
        IdeErrorKind::Conflict => "conflict",
        IdeErrorKind::InvalidInput => "invalid",
        IdeErrorKind::TooLarge => "toolarge",
        IdeErrorKind::LimitExceeded => "limit",
        IdeErrorKind::Internal => "internal",
    }
}

pub fn pack<T: Serialize>(r: Result<T, IdeError>) -> Reply {
    match r {
        Ok(v) => Reply { ok: Some(serde_json::to_value(&v).unwrap_or(Json::Null)), ..Reply::default() },
        Err(e) => Reply {
            ok: None,
            err_kind: Some(kind_name(e.kind())),
            err_text: e.to_string(),
            conflict_version: e.current_version(),
        },
    }
}

fn pos(op: &Json) -> Json {
    json!({"line": op["line"].as_u64().unwrap_or(0), "character": op["ch"].as_u64().unwrap_or(0)})
}

/// Execute a path-less or path-carrying *API* operation.  `path`/`to` are the
/// placeholder-substituted strings, `content` the materialised text.
/// Returns None for operation kinds that are not API calls.
#[allow(clippy::too_many_arguments)]
pub fn call(
    ide: &WebIdeState,
    op: &Json,
    token: &str,
    path: &str,
    to: &str,
    content: Option<String>,
    expected: u64,
    write_enabled: bool,
) -> Option<Reply> {
    let kind = op["k"].as_str().unwrap_or("");
    Some(match kind {
        "list" => pack(ide.list_sources(token)),
        "tree" => pack(ide.list_tree(token)),
        "open" => pack(ide.open_source(token, path)),
        "create" => pack(ide.create_entry(token, path, op["dir"].as_bool().unwrap_or(false), content, write_enabled)),
        "write" => pack(ide.apply_source(token, path, expected, content.unwrap_or_default(), write_enabled)),
        "rename" => pack(ide.rename_entry(token, path, to, write_enabled)),
        "delete" => pack(ide.delete_entry(token, path, write_enabled)),
        "search" => pack(ide.workspace_search(
            token,
            op["q"].as_str().unwrap_or(""),
            op["inc"].as_str(),
            op["exc"].as_str(),
            op["limit"].as_u64().unwrap_or(50) as usize,
        )),
        "format" => pack(ide.format_source(token, path, content)),
        "setproj" => pack(ide.set_active_project(token, to)),
        "browse" => pack(ide.browse_directory(token, Some(to))),
        "wsymbols" => pack(ide.workspace_symbols(token, op["q"].as_str().unwrap_or(""), 200)),
        "rensym" => {
            let p = serde_json::from_value(pos(op)).ok()?;
            pack(ide.rename_symbol(token, path, content, p, op["name"].as_str().unwrap_or("renamed"), write_enabled))
        }
        "analysis" => match op["fn"].as_str().unwrap_or("") {
            "diagnostics" => pack(ide.diagnostics(token, path, content)),
            "hover" => pack(ide.hover(token, path, content, serde_json::from_value(pos(op)).ok()?)),
            "completion" => pack(ide.completion(token, path, content, serde_json::from_value(pos(op)).ok()?, Some(50))),
            "definition" => pack(ide.definition(token, path, content, serde_json::from_value(pos(op)).ok()?)),
            "references" => pack(ide.references(token, path, content, serde_json::from_value(pos(op)).ok()?, true)),
            _ => pack(ide.file_symbols(token, path, op["q"].as_str().unwrap_or(""), 200)),
        },
        "meta" => match op["fn"].as_str().unwrap_or("") {
            "health" => pack(ide.health(token)),
            "audit" => pack(ide.fs_audit(token, 200)),
            "selection" => pack(ide.project_selection(token)),
            "telemetry" => pack(ide.record_frontend_telemetry(token, WebIdeFrontendTelemetry::default())),
            _ => pack(ide.require_editor_session(token)),
        },
        _ => return None,
    })
}

pub fn is_mutating(kind: &str) -> bool {
    matches!(kind, "create" | "write" | "rename" | "delete" | "rensym")
}

/// (path, text) pairs of a reply, so that a leaked marker can be attributed to
/// the project path it came through.
pub fn reply_items(kind: &str, op_path: &str, reply: &Reply) -> Vec<(String, String)> {
    let mut out = vec![];
    let Some(v) = &reply.ok else {
        return vec![(op_path.to_string(), reply.err_text.to_lowercase())];
    };
    fn tree(nodes: &Json, out: &mut Vec<(String, String)>) {
        for n in nodes.as_array().into_iter().flatten() {
            let p = n["path"].as_str().unwrap_or("").to_string();
            out.push((p.clone(), format!("{} {}", p, n["name"].as_str().unwrap_or("")).to_lowercase()));
            tree(&n["children"], out);
        }
    }
    match kind {
        "list" => {
            for p in v.as_array().into_iter().flatten() {
                let p = p.as_str().unwrap_or("").to_string();
                out.push((p.clone(), p.to_lowercase()));
            }
        }
        "tree" => tree(v, &mut out),
        "search" | "wsymbols" => {
            for h in v.as_array().into_iter().flatten() {
                out.push((h["path"].as_str().unwrap_or("").to_string(), h.to_string().to_lowercase()));
            }
        }
        _ => out.push((op_path.to_string(), v.to_string().to_lowercase())),
    }
    out
}
