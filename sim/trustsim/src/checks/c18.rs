//! C18 - the control endpoint executes a request only with a sufficient role.
//!
//! One real `ControlState` (auth token set/unset, debug on/off, production or
//! debug control mode, real `PairingStore` on a simulated clock, real
//! `DebugControl`, HMI descriptor state over a scratch project directory) is
//! driven through hook H7 (`control::verif_handle_request_line`, the function
//! the socket transport calls per line) by nine simulated clients. The
//! resource thread is a stub: a responder thread owns the command receiver of
//! `ResourceControl::stub`, answers immediately with canned replies and logs
//! every command; after each request a fence round trip (`MeshSnapshot`)
//! makes the log complete before it is read.
//!
//! Oracle: a required-role table written from the property text (DESIGN
//! Appendix B), the credential -> role mapping of the property, and an effect
//! probe comparing the mutable state before/after every request.
use std::collections::{BTreeMap, BTreeSet};
use std::path::{Path, PathBuf};
use std::sync::atomic::{AtomicBool, AtomicU64, Ordering};
use std::sync::mpsc::{channel, RecvTimeoutError};
use std::sync::{Arc, Mutex, OnceLock};
use std::time::{Duration, Instant};

use indexmap::IndexMap;
use serde_json::{json, Value as Json};
use smol_str::SmolStr;

use trust_runtime::config::ControlMode;
use trust_runtime::control::{ControlState, HmiRuntimeDescriptor, SourceFile, SourceRegistry};
use trust_runtime::debug::{DebugSnapshot, DebugVariableHandles};
use trust_runtime::error::RuntimeError;
use trust_runtime::harness::TestHarness;
use trust_runtime::metrics::RuntimeMetrics;
use trust_runtime::scheduler::{ResourceCommand, ResourceControl, StdClock};
use trust_runtime::settings::{BaseSettings, DiscoverySettings, MeshSettings, RuntimeSettings, SimulationSettings, WebSettings};
use trust_runtime::watchdog::{FaultPolicy, RetainMode, WatchdogPolicy};
use trust_runtime::web::pairing::PairingStore;

use crate::framework::{self, Caught, Check, Stats, Tier, Violation};
use crate::rng::{Fnv, Rng};

pub struct C18Check;
pub static C18: C18Check = C18Check;

// ---------------------------------------------------------------------------
// reference model (written from the property text / DESIGN Appendix B)

#[derive(Clone, Copy, Debug, PartialEq, Eq, PartialOrd, Ord)]
enum Role {
    Viewer,
    Operator,
    Engineer,
    Admin,
}

use Role::*;

/// (request type, required role by Appendix B, debug-class by the property text).
/// `config.set` is refined by its parameters in `required_role`.
const KNOWN_TYPES: &[(&str, Role, bool)] = &[
    // read-only status / list / get / query -> viewer
    ("status", Viewer, false),
    ("health", Viewer, false),
    ("tasks.stats", Viewer, false),
    ("events.tail", Viewer, false),
    ("events", Viewer, false),
    ("faults", Viewer, false),
    ("config.get", Viewer, false),
    ("io.list", Viewer, false),
    ("io.read", Viewer, false),
    ("hmi.schema.get", Viewer, false),
    ("hmi.values.get", Viewer, false),
    ("hmi.trends.get", Viewer, false),
    ("hmi.alarms.get", Viewer, false),
    ("hmi.descriptor.get", Viewer, false),
    ("historian.query", Viewer, false),
    ("historian.alerts", Viewer, false),
    ("debug.state", Viewer, true),
    ("debug.stops", Viewer, true),
    ("debug.stack", Viewer, true),
    ("debug.scopes", Viewer, true),
    ("debug.variables", Viewer, true),
    ("debug.breakpoint_locations", Viewer, true),
    ("breakpoints.list", Viewer, true),
    ("var.forced", Viewer, true),
    // pause, resume, restart, alarm acknowledge, pair.claim -> operator
    // (pause/resume double as plain lifecycle requests: not counted as debug-class here)
    ("pause", Operator, false),
    ("resume", Operator, false),
    ("restart", Operator, false),
    ("hmi.alarm.ack", Operator, false),
    ("pair.claim", Operator, false),
    // writes variables / I/O / forces / breakpoints, evaluates, steps, edits HMI descriptors -> engineer
    ("step_in", Engineer, true),
    ("step_over", Engineer, true),
    ("step_out", Engineer, true),
    ("breakpoints.set", Engineer, true),
    ("breakpoints.clear", Engineer, true),
    ("breakpoints.clear_all", Engineer, true),
    ("breakpoints.clear_id", Engineer, true),
    ("eval", Engineer, true),
    ("set", Engineer, true),
    ("var.force", Engineer, true),
    ("var.unforce", Engineer, true),
    ("debug.evaluate", Engineer, true),
    ("io.write", Engineer, false),
    ("io.force", Engineer, false),
    ("io.unforce", Engineer, false),
    ("hmi.write", Engineer, false),
    ("hmi.descriptor.update", Engineer, false),
    ("hmi.scaffold.reset", Engineer, false),
    ("config.set", Engineer, false),
    // shutdown, bytecode.reload, pair.start/list/revoke -> admin
    ("shutdown", Admin, false),
    ("bytecode.reload", Admin, false),
    ("pair.start", Admin, false),
    ("pair.list", Admin, false),
    ("pair.revoke", Admin, false),
];

const ADMIN_CONFIG_KEYS: &[&str] = &["control.auth_token", "mesh.auth_token", "control.mode", "web.auth"];

fn known(ty: &str) -> Option<(Role, bool)> {
    KNOWN_TYPES.iter().find(|(t, _, _)| *t == ty).map(|(_, r, d)| (*r, *d))
}

/// Canonical form used to judge case/whitespace variants of a type string:
/// a variant that the endpoint executes must still need the canonical type's role.
fn normalise_type(ty: &str) -> String {
    ty.trim_matches(|c: char| c.is_whitespace() || c == '\0').to_ascii_lowercase()
}

/// Required role for (type, params); None = type unknown even after normalisation.
fn required_role(ty: &str, params: Option<&Json>) -> Option<(Role, bool)> {
    let (role, dbg) = known(ty).or_else(|| known(&normalise_type(ty)))?;
    if normalise_type(ty) == "config.set" {
        let admin = params
            .and_then(Json::as_object)
            .is_some_and(|o| o.keys().any(|k| ADMIN_CONFIG_KEYS.contains(&normalise_type(k).as_str())));
        return Some((if admin { Admin } else { Engineer }, dbg));
    }
    Some((role, dbg))
}

#[derive(Clone, Debug)]
struct TokenRec {
    token: String,
    id: String,
    role: Role,
    expires_at: u64,
    revoked: bool,
    alias: usize,
}

fn parse_role(text: &str) -> Option<Role> {
    match text {
        "viewer" => Some(Viewer),
        "operator" => Some(Operator),
        "engineer" => Some(Engineer),
        "admin" => Some(Admin),
        _ => None,
    }
}

/// credential -> role (None = no valid credential while a token is configured)
fn model_role(cred: Option<&str>, configured: Option<&str>, tokens: &[TokenRec], now: u64) -> (Option<Role>, &'static str) {
    let pairing = cred.and_then(|c| tokens.iter().rev().find(|t| t.token == c));
    let valid_pairing = pairing.filter(|t| !t.revoked && now <= t.expires_at);
    let kind = match (cred, pairing) {
        (None, _) => "none",
        (Some(c), _) if Some(c) == configured => "admin-token",
        (Some(_), Some(t)) if t.revoked => "pairing-revoked",
        (Some(_), Some(t)) if now > t.expires_at => "pairing-expired",
        (Some(_), Some(t)) => match t.role {
            Viewer => "pairing-viewer",
            Operator => "pairing-operator",
            Engineer => "pairing-engineer",
            Admin => "pairing-admin",
        },
        (Some(_), None) => "unknown-token",
    };
    let role = match configured {
        Some(t) => {
            if cred == Some(t) {
                Some(Admin)
            } else {
                valid_pairing.map(|p| p.role)
            }
        }
        None => Some(valid_pairing.map_or(Admin, |p| p.role)),
    };
    (role, kind)
}

// ---------------------------------------------------------------------------
// world

const SOURCE: &str = "PROGRAM Main\nVAR\n    // @hmi(min=0, max=100)\n    speed : REAL := 120.0;\n    run : BOOL := TRUE;\n    sentcounter : INT := 0;\nEND_VAR\n    sentcounter := sentcounter + 1;\n    IF run THEN\n        speed := speed + 0.0;\n    END_IF;\nEND_PROGRAM\n";
const RESOURCE_NAME: &str = "SENTRES";
const LOG_LEVEL: &str = "sentinel-log-level";
const HMI_TOML: &str = "[write]\nenabled = true\nallow = [\"resource/SENTRES/program/Main/field/run\"]\n";
const RUN_POINT: &str = "resource/SENTRES/program/Main/field/run";
const SPEED_POINT: &str = "resource/SENTRES/program/Main/field/speed";
const CLOCK_START: u64 = 1_700_000_000;

struct World {
    /// storage image + time used to (re-)arm the debugger's stop snapshot
    storage: trust_runtime::memory::VariableStorage,
    now_plc: trust_runtime::value::Duration,
    state: Arc<ControlState>,
    clock: Arc<AtomicU64>,
    cmd_log: Arc<Mutex<Vec<String>>>,
    responder: Option<std::thread::JoinHandle<()>>,
    pairing: Arc<PairingStore>,
    root: PathBuf,
    pairing_path: PathBuf,
}

fn next_dir_id() -> u64 {
    static C: AtomicU64 = AtomicU64::new(0);
    C.fetch_add(1, Ordering::SeqCst)
}

fn runtime_settings() -> RuntimeSettings {
    RuntimeSettings::new(
        BaseSettings {
            log_level: SmolStr::new(LOG_LEVEL),
            watchdog: WatchdogPolicy::default(),
            fault_policy: FaultPolicy::SafeHalt,
            retain_mode: RetainMode::None,
            retain_save_interval: None,
        },
        WebSettings { enabled: false, listen: SmolStr::new("127.0.0.1:0"), auth: SmolStr::new("local"), tls: false },
        DiscoverySettings { enabled: false, service_name: SmolStr::new("truST"), advertise: false, interfaces: Vec::new() },
        MeshSettings { enabled: false, listen: SmolStr::new("127.0.0.1:0"), tls: false, auth_token: None, publish: Vec::new(), subscribe: IndexMap::new() },
        SimulationSettings { enabled: false, time_scale: 1, mode_label: SmolStr::new("production"), warning: SmolStr::new("") },
    )
}

fn command_name(c: &ResourceCommand) -> &'static str {
    match c {
        ResourceCommand::Pause => "Pause",
        ResourceCommand::Resume => "Resume",
        ResourceCommand::UpdateWatchdog(_) => "UpdateWatchdog",
        ResourceCommand::UpdateFaultPolicy(_) => "UpdateFaultPolicy",
        ResourceCommand::UpdateRetainSaveInterval(_) => "UpdateRetainSaveInterval",
        ResourceCommand::UpdateIoSafeState(_) => "UpdateIoSafeState",
        ResourceCommand::ReloadBytecode { .. } => "ReloadBytecode",
        ResourceCommand::MeshSnapshot { .. } => "MeshSnapshot",
        ResourceCommand::MeshApply { .. } => "MeshApply",
        ResourceCommand::Snapshot { .. } => "Snapshot",
    }
}

impl World {
    fn build(cfg: &Json) -> Result<World, String> {
        let mut harness = TestHarness::from_source(SOURCE).map_err(|e| format!("compile: {e}"))?;
        let debug = harness.runtime_mut().enable_debug();
        harness.cycle();
        let snapshot = DebugSnapshot { storage: harness.runtime().storage().clone(), now: harness.runtime().current_time() };
        let metadata = harness.runtime().metadata_snapshot();

        let n = next_dir_id();
        let root = framework::scratch_dir().join(format!("c18-{}-{}", std::process::id(), n));
        let _ = std::fs::remove_dir_all(&root);
        std::fs::create_dir_all(&root).map_err(|e| e.to_string())?;
        std::fs::write(root.join("hmi.toml"), HMI_TOML).map_err(|e| e.to_string())?;
        let pairing_path = framework::scratch_dir().join(format!("c18-pairing-{}-{}.json", std::process::id(), n));
        let _ = std::fs::remove_file(&pairing_path);

        let (resource, cmd_rx) = ResourceControl::stub(StdClock::new());
        let cmd_log: Arc<Mutex<Vec<String>>> = Arc::new(Mutex::new(Vec::new()));
        let responder = {
            let log = cmd_log.clone();
            let metadata = metadata.clone();
            let reload_ok = cfg["reload_ok"].as_bool().unwrap_or(false);
            std::thread::spawn(move || {
                while let Ok(command) = cmd_rx.recv() {
                    log.lock().unwrap().push(command_name(&command).to_string());
                    match command {
                        ResourceCommand::ReloadBytecode { respond_to, .. } => {
                            let _ = respond_to.send(if reload_ok {
                                Ok(metadata.clone())
                            } else {
                                Err(RuntimeError::ControlError(SmolStr::new("reload refused by the stub resource")))
                            });
                        }
                        ResourceCommand::MeshSnapshot { respond_to, .. } => {
                            let _ = respond_to.send(IndexMap::new());
                        }
                        ResourceCommand::Snapshot { respond_to } => {
                            let _ = respond_to.send(snapshot.clone());
                        }
                        _ => {}
                    }
                }
            })
        };

        let clock = Arc::new(AtomicU64::new(CLOCK_START));
        let pairing = {
            let clock = clock.clone();
            Arc::new(PairingStore::with_clock(pairing_path.clone(), Arc::new(move || clock.load(Ordering::SeqCst))))
        };
        let sources = SourceRegistry::new(vec![SourceFile { id: 1, path: PathBuf::from("main.st"), text: SOURCE.to_string() }]);
        let hmi_descriptor = Arc::new(Mutex::new(HmiRuntimeDescriptor::from_sources(Some(&root), &sources)));
        let auth = cfg["auth"].as_bool().unwrap_or(true);
        let state = ControlState {
            debug,
            resource,
            metadata: Arc::new(Mutex::new(metadata)),
            sources,
            io_snapshot: Arc::new(Mutex::new(None)),
            pending_restart: Arc::new(Mutex::new(None)),
            auth_token: Arc::new(Mutex::new(auth.then(|| SmolStr::new("adm-token-0")))),
            control_requires_auth: cfg["requires_auth"].as_bool().unwrap_or(false) && auth,
            control_mode: Arc::new(Mutex::new(if cfg["mode"] == "debug" { ControlMode::Debug } else { ControlMode::Production })),
            audit_tx: None,
            metrics: Arc::new(Mutex::new(RuntimeMetrics::default())),
            events: Arc::new(Mutex::new(std::collections::VecDeque::new())),
            settings: Arc::new(Mutex::new(runtime_settings())),
            project_root: Some(root.clone()),
            resource_name: SmolStr::new(RESOURCE_NAME),
            io_health: Arc::new(Mutex::new(Vec::new())),
            debug_enabled: Arc::new(AtomicBool::new(cfg["debug"].as_bool().unwrap_or(true))),
            debug_variables: Arc::new(Mutex::new(DebugVariableHandles::new())),
            hmi_live: Arc::new(Mutex::new(trust_runtime::hmi::HmiLiveState::default())),
            hmi_descriptor,
            historian: None,
            pairing: Some(pairing.clone()),
        };
        let w = World {
            storage: harness.runtime().storage().clone(),
            now_plc: harness.runtime().current_time(),
            state: Arc::new(state),
            clock,
            cmd_log,
            responder: Some(responder),
            pairing,
            root,
            pairing_path,
        };
        w.arm_snapshot();
        Ok(w)
    }

    /// Simulates the cycle thread having reached a stop: stores a debugger snapshot
    /// (single threaded, through the public `refresh_snapshot`). Continue/step/pause clear it.
    fn arm_snapshot(&self) {
        if self.state.debug.snapshot().is_some() {
            return;
        }
        let metadata = self.state.metadata.lock().unwrap().clone();
        let mut storage = self.storage.clone();
        let mut ctx = trust_runtime::eval::EvalContext {
            storage: &mut storage,
            registry: metadata.registry(),
            profile: metadata.profile(),
            now: self.now_plc,
            debug: None,
            call_depth: 0,
            functions: Some(metadata.functions()),
            stdlib: Some(metadata.stdlib()),
            function_blocks: Some(metadata.function_blocks()),
            classes: Some(metadata.classes()),
            using: None,
            access: Some(metadata.access_map()),
            current_instance: None,
            return_name: None,
            loop_depth: 0,
            pause_requested: false,
            execution_deadline: None,
        };
        self.state.debug.refresh_snapshot(&mut ctx);
    }

    fn now(&self) -> u64 {
        self.clock.load(Ordering::SeqCst)
    }

    /// Fence: one `MeshSnapshot` round trip through the command channel; afterwards
    /// every command sent before is in the log. Returns the effectful commands and clears the log.
    fn fence_and_take_commands(&self) -> Result<Vec<String>, Violation> {
        let (tx, rx) = channel();
        self.state
            .resource
            .send_command(ResourceCommand::MeshSnapshot { names: vec![], respond_to: tx })
            .map_err(|e| Violation::new("harness/responder-gone", format!("{e:?}")))?;
        rx.recv_timeout(Duration::from_secs(60)).map_err(|_| Violation::new("harness/responder-fence-timeout", "no fence reply"))?;
        let mut log = self.cmd_log.lock().unwrap();
        let cmds: Vec<String> = log.drain(..).filter(|c| c != "Snapshot" && c != "MeshSnapshot").collect();
        Ok(cmds)
    }

    /// Send one line through the real request-line handler on a helper thread
    /// (so that a handler that never returns is detected instead of hanging the worker).
    fn send(&self, line: &str) -> Result<Option<String>, Violation> {
        let (tx, rx) = channel();
        let state = self.state.clone();
        let owned = line.to_string();
        let spawn = std::thread::Builder::new().stack_size(64 << 20).spawn(move || {
            let res = framework::catch(|| trust_runtime::control::verif_handle_request_line(&owned, &state, Some("sim")));
            let _ = tx.send(match res {
                Caught::Ok(v) => Ok(v),
                Caught::ProductPanic { location, message } => Err((location, message, true)),
                Caught::HarnessPanic { location, message } => Err((location, message, false)),
            });
        });
        if let Err(e) = spawn {
            return Err(Violation::new("harness/spawn-failed", e.to_string()));
        }
        let started = Instant::now();
        let mut lock_held_polls = 0u32;
        loop {
            match rx.recv_timeout(Duration::from_millis(20)) {
                Ok(Ok(v)) => return Ok(v),
                Ok(Err((location, message, product))) => {
                    if !product {
                        eprintln!("HARNESS-PANIC at {location}: {message}");
                        std::process::exit(2);
                    }
                    let file = framework::short_loc(&location);
                    let file = file.split(':').next().unwrap_or("").to_string();
                    return Err(Violation::new(
                        format!("panic/{}/{}", file, normalise_msg(&message)),
                        format!("panic while handling a request line at {location}: {message}"),
                    ));
                }
                Err(RecvTimeoutError::Disconnected) => {
                    return Err(Violation::new("harness/request-thread-vanished", "helper thread ended without a result"));
                }
                Err(RecvTimeoutError::Timeout) => {
                    // hang detector only: a handler that holds the metadata lock for 6 s of
                    // consecutive polls (normal hold time: microseconds), or any 60 s without a reply
                    match self.state.metadata.try_lock() {
                        Err(std::sync::TryLockError::WouldBlock) => lock_held_polls += 1,
                        _ => lock_held_polls = 0,
                    }
                    if lock_held_polls >= 300 {
                        return Err(Violation::new("reply/none-handler-blocked-on-own-metadata-lock", "hang"));
                    }
                    if started.elapsed() > Duration::from_secs(60) {
                        return Err(Violation::new("reply/none-within-hang-limit", "hang"));
                    }
                }
            }
        }
    }
}

impl Drop for World {
    fn drop(&mut self) {
        let _ = std::fs::remove_dir_all(&self.root);
        let _ = std::fs::remove_file(&self.pairing_path);
        // the responder ends when the last ControlState clone (command sender) is dropped;
        // it is not joined here because a hung request thread may still own a clone
        let _ = self.responder.take();
    }
}

/// Crash + restart of the pairing store: a second store loaded from (a copy of) the pairing file on the same clock
/// must not give a revoked or expired token a role again.
fn restart_check(w: &World, tokens: &[TokenRec], opi: usize, after: &str, stats: &mut Stats) -> Result<(), Violation> {
    let copy = w.pairing_path.with_extension("restart-copy.json");
    let _ = std::fs::remove_file(&copy);
    if std::fs::copy(&w.pairing_path, &copy).is_err() {
        return Ok(());
    }
    let clock = w.clock.clone();
    let reloaded = PairingStore::with_clock(copy.clone(), Arc::new(move || clock.load(Ordering::SeqCst)));
    let now = w.now();
    for t in tokens {
        if (t.revoked || now > t.expires_at) && reloaded.validate_with_role(&t.token).is_some() {
            let _ = std::fs::remove_file(&copy);
            return Err(Violation::new(
                format!("pairing/{}-token-valid-after-restart", if t.revoked { "revoked" } else { "expired" }),
                format!("op {opi} ({after}): a pairing store reloaded from the file gives token id {} ({}, expiry {} s before now) a role again", t.id, if t.revoked { "revoked" } else { "expired" }, now.saturating_sub(t.expires_at)),
            ));
        }
    }
    stats.inc("fault.restart_of_pairing_store");
    let _ = std::fs::remove_file(&copy);
    Ok(())
}

fn normalise_msg(msg: &str) -> String {
    let mut out = String::new();
    let mut last_digit = false;
    for ch in msg.chars().take(80) {
        if ch.is_ascii_digit() {
            if !last_digit {
                out.push('N');
            }
            last_digit = true;
        } else {
            last_digit = false;
            out.push(ch);
        }
    }
    out
}

// ---------------------------------------------------------------------------
// effect probe

type Probe = BTreeMap<&'static str, String>;

fn walk(dir: &Path, base: &Path, out: &mut Vec<String>) {
    let Ok(rd) = std::fs::read_dir(dir) else { return };
    let mut entries: Vec<PathBuf> = rd.filter_map(|e| e.ok().map(|e| e.path())).collect();
    entries.sort();
    for p in entries {
        if p.is_dir() {
            walk(&p, base, out);
        } else {
            let rel = p.strip_prefix(base).unwrap_or(&p).to_string_lossy().to_string();
            let content = std::fs::read(&p).unwrap_or_default();
            out.push(format!("{rel}:{}:{:x}", content.len(), Fnv::new().bytes(&content).finish()));
        }
    }
}

fn probe(w: &World) -> Probe {
    let s = &w.state;
    let mut p = Probe::new();
    p.insert("debugger", s.debug.verif_effect_state());
    p.insert("pending_restart", format!("{:?}", s.pending_restart.lock().map(|g| *g).ok()));
    p.insert("settings", format!("{:?}", s.settings.lock().map(|g| g.clone()).ok()));
    p.insert("auth_token", format!("{:?}", s.auth_token.lock().map(|g| g.clone()).ok()));
    p.insert("control_mode", format!("{:?}", s.control_mode.lock().map(|g| *g).ok()));
    p.insert("debug_enabled", format!("{}", s.debug_enabled.load(Ordering::SeqCst)));
    let list: Vec<String> =
        w.pairing.list().iter().map(|t| format!("{}|{}|{:?}|{}|{}|{}", t.id, t.enabled, t.role, t.created_at, t.expires_at, t.tail)).collect();
    p.insert("pairing_tokens", list.join(";"));
    p.insert("pairing_code", format!("{:?}", w.pairing.verif_pending_code()));
    p.insert(
        "hmi_descriptor",
        s.hmi_descriptor.lock().map(|d| format!("rev={} err={:?} custom={:?}", d.schema_revision, d.last_error, d.customization)).unwrap_or_default(),
    );
    let mut files = vec![];
    walk(&w.root, &w.root, &mut files);
    p.insert("hmi_files", files.join(";"));
    let acks = s
        .hmi_live
        .lock()
        .map(|live| {
            let view = trust_runtime::hmi::build_alarm_view(&live, 1);
            let mut a: Vec<String> = view.active.iter().filter(|r| r.acknowledged).map(|r| r.id.clone()).collect();
            a.sort();
            a.join(",")
        })
        .unwrap_or_default();
    p.insert("alarm_acks", acks);
    p
}

fn diff(before: &Probe, after: &Probe) -> Vec<&'static str> {
    before
        .iter()
        .filter(|(k, v)| {
            let a = after.get(*k).map(String::as_str).unwrap_or("");
            if **k == "alarm_acks" {
                // only a newly acknowledged alarm is an effect; an acknowledgement that disappears
                // because a read re-evaluated the alarm (cleared / limit removed) is book-keeping
                let had: Vec<&str> = v.split(',').collect();
                a.split(',').any(|id| !id.is_empty() && !had.contains(&id))
            } else {
                a != v.as_str()
            }
        })
        .map(|(k, _)| *k)
        .collect()
}

// ---------------------------------------------------------------------------
// workload: request catalogue

const SENTINELS: &[&str] = &["SENTRES", "sentinel-log-level", "sentcounter", "speed", "adm-token", "main.st", "truST"];

fn valid_params(rng: &mut Rng, ty: &str, eval_hang_ok: bool, rot: &mut u32) -> Option<Json> {
    let v = match ty {
        "events.tail" | "events" | "faults" => json!({"limit": *rng.pick(&[0u64, 1, 3, 9, 1 << 31, 1 << 32, (1 << 53) + 1, u64::MAX])}),
        "hmi.values.get" => {
            if rng.bool() {
                json!({"ids": [SPEED_POINT]})
            } else {
                return None;
            }
        }
        "hmi.trends.get" => json!({"duration_ms": *rng.pick(&[60000u64, 0, 1, u64::MAX]), "buckets": *rng.pick(&[24u64, 0, 1, 1 << 32, u64::MAX])}),
        "hmi.alarms.get" => json!({"limit": *rng.pick(&[10u64, 0, 1 << 32, u64::MAX])}),
        "hmi.alarm.ack" => json!({"id": "$ALARM"}),
        "hmi.write" => {
            if rng.bool() {
                json!({"id": RUN_POINT, "value": rng.bool()})
            } else {
                json!({"path": "Main.run", "value": rng.bool()})
            }
        }
        "hmi.descriptor.update" => json!({"descriptor": "$DESCRIPTOR"}),
        "hmi.scaffold.reset" => match rng.below(3) {
            0 => return None,
            1 => json!({"mode": "update"}),
            _ => json!({"mode": "reset", "style": "industrial"}),
        },
        "historian.query" => json!({"variable": "speed", "limit": *rng.pick(&[5u64, 0, u64::MAX])}),
        "historian.alerts" => json!({"limit": *rng.pick(&[5u64, 0, u64::MAX])}),
        "io.write" | "io.force" => json!({"address": *rng.pick(&["%IX0.0", "%IW2", "%QX1.3"]), "value": *rng.pick(&["TRUE", "FALSE", "5"])}),
        "io.unforce" => json!({"address": *rng.pick(&["%IX0.0", "%IW2", "%QX1.3"])}),
        "eval" => json!({"expr": *rng.pick(&["sentcounter", "speed", "nosuch"])}),
        "set" => json!({"target": *rng.pick(&["global:gsent", "retain:rsent", "global: spaced "]), "value": *rng.pick(&["5", "TRUE", "1.5"])}),
        "var.force" => json!({"target": *rng.pick(&["global:gsent", "retain:rsent", "instance:1:run"]), "value": *rng.pick(&["7", "FALSE"])}),
        "var.unforce" => json!({"target": *rng.pick(&["global:gsent", "retain:rsent", "instance:1:run"])}),
        "debug.scopes" => json!({"frame_id": *rng.pick(&[0u64, 1, 2, u32::MAX as u64, u64::MAX])}),
        "debug.variables" => json!({"variables_reference": *rng.pick(&[0u64, 1, 2, 3, u32::MAX as u64, u64::MAX])}),
        "debug.evaluate" => {
            if eval_hang_ok && rng.chance(1, 2) {
                json!({"expression": *rng.pick(&["1 + 2", "speed", "sentcounter + 1"])})
            } else if rng.bool() {
                json!({"expression": "1 +"})
            } else {
                json!({"expression": "1 + 2", "frame_id": 99})
            }
        }
        "debug.breakpoint_locations" => json!({"source": "main.st", "line": rng.range(1, 12)}),
        "breakpoints.set" => json!({"source": "main.st", "lines": [rng.range(7, 11)]}),
        "breakpoints.clear" => json!({"source": "main.st", "lines": []}),
        "breakpoints.clear_id" => json!({"file_id": 1}),
        "restart" => json!({"mode": *rng.pick(&["warm", "cold", "WARM"])}),
        "bytecode.reload" => json!({"bytes": *rng.pick(&["AAEC", "U1RCQw==", ""])}),
        "pair.claim" => json!({"code": "$CODE", "role": *rng.pick(&["viewer", "operator", "engineer", "admin"])}),
        "pair.revoke" => json!({"id": *rng.pick(&["$PID3", "$PID4", "$PID5", "$PID6", "$PID7", "all", "pair-0"])}),
        "config.set" => match rng.below(17) {
            0 => json!({"log.level": *rng.pick(&["debug", "info"])}),
            1 => json!({"watchdog.enabled": rng.bool()}),
            2 => json!({"watchdog.timeout_ms": rng.range(1, 5000)}),
            3 => json!({"retain.save_interval_ms": rng.range(1, 5000)}),
            4 => json!({"control.debug_enabled": rng.bool()}),
            5 => json!({"control.mode": *rng.pick(&["debug", "production"])}),
            6 => {
                *rot += 1;
                json!({"control.auth_token": format!("adm-token-{rot}")})
            }
            7 => json!({"control.auth_token": null}),
            8 => json!({"mesh.auth_token": "sentinel-mesh-token"}),
            9 => json!({"web.auth": *rng.pick(&["local", "token"])}),
            10 => json!({}),
            11 => json!({"web.enabled": rng.bool(), "discovery.enabled": rng.bool()}),
            12 => json!({"log.level": "warn", "control.mode": "debug"}),
            14 | 15 => json!({"control.mode": *rng.pick(&["debug", "production"]), "control.debug_enabled": rng.bool()}),
            16 => {
                *rot += 1;
                json!({"control.auth_token": format!("adm-token-{rot}"), "control.debug_enabled": rng.bool(), "control.mode": *rng.pick(&["debug", "production"])})
            }
            _ => json!({"mesh.publish": ["a", "b"], "mesh.subscribe": {"t": "a"}}),
        },
        _ => {
            if rng.chance(1, 3) {
                json!({})
            } else {
                return None;
            }
        }
    };
    Some(v)
}

fn invalid_params(rng: &mut Rng) -> Json {
    match rng.below(12) {
        0 => json!(null),
        1 => json!([]),
        2 => json!("string"),
        3 => json!(42),
        4 => json!({"id": 5, "code": 7, "mode": [], "target": null, "value": {}, "address": 1}),
        5 => json!({"source": "../../etc/passwd", "lines": [4294967295u64], "line": 0}),
        6 => json!({"address": "%ZZ9", "value": "TRUE", "target": "bogus:target", "expr": "", "expression": ""}),
        7 => json!({"frame_id": -1, "variables_reference": 4294967296u64, "file_id": 99}),
        8 => json!({"mode": "lukewarm", "bytes": "!!notbase64!!", "id": "", "code": "", "role": "root"}),
        9 => json!({"unknown.key": 1}),
        10 => json!({"control.auth_token": "", "web.auth": "token", "control.mode": 3}),
        _ => json!({"descriptor": {"pages": "x"}, "ids": "x", "limit": -3, "duration_ms": "x"}),
    }
}

const CLIENT_NONE: usize = 0;
const CLIENT_WRONG: usize = 1;
const CLIENT_ADMIN: usize = 2;
const CLIENT_STALE: usize = 8;
const CLIENT_ROLES: [&str; 9] = ["", "", "", "viewer", "operator", "engineer", "admin", "operator", ""];

fn auth_for_client(rng: &mut Rng, c: usize) -> Option<String> {
    match c {
        CLIENT_NONE => None,
        CLIENT_WRONG => Some(
            (*rng.pick(&["wrong-token", "", "ADM-TOKEN-0", "adm-token-", "adm-token-0x", " adm-token-0", "adm-token-0 ", "$ADMINx", "null", "pair-0"])).to_string(),
        ),
        CLIENT_ADMIN => Some("$ADMIN".into()),
        CLIENT_STALE => Some("$STALE".into()),
        k => Some(format!("$TOK{k}")),
    }
}

fn request_line(id: u64, ty: &str, params: Option<Json>, auth: Option<String>) -> String {
    let mut o = serde_json::Map::new();
    o.insert("id".into(), json!(id));
    o.insert("type".into(), json!(ty));
    if let Some(p) = params {
        o.insert("params".into(), p);
    }
    if let Some(a) = auth {
        o.insert("auth".into(), json!(a));
    }
    Json::Object(o).to_string()
}

fn mangle(rng: &mut Rng, line: &str, ty: &str) -> (String, &'static str) {
    match rng.below(16) {
        0 => (line.replacen(&format!("\"type\":\"{ty}\""), "\"type\":\"nosuch.request\"", 1), "unknown-type"),
        1 => (line.replacen(&format!("\"type\":\"{ty}\""), &format!("\"type\":\"{}\"", ty.to_ascii_uppercase()), 1), "case-variant"),
        2 => (line.replacen(&format!("\"type\":\"{ty}\""), &format!("\"type\":\" {ty} \""), 1), "padded-type"),
        3 => {
            let mut bytes: Vec<char> = line.chars().collect();
            if !bytes.is_empty() {
                let i = rng.usize(0, bytes.len() - 1);
                bytes[i] = *rng.pick(&['#', '"', '{', '}', '\\', '\u{0}', ',', ':', '\u{e9}']);
            }
            (bytes.into_iter().collect(), "garbled")
        }
        4 => {
            let chars: Vec<char> = line.chars().collect();
            let cut = rng.usize(0, chars.len());
            (chars[..cut].iter().collect(), "truncated")
        }
        5 => (format!("{line}{line}"), "duplicated-object"),
        6 => {
            // duplicated keys: the last one wins in a JSON object
            let dup = line.replacen('{', &format!("{{\"type\":\"{}\",\"auth\":\"wrong-token\",", *rng.pick(&["status", "shutdown"])), 1);
            (dup, "duplicated-keys")
        }
        7 => {
            let pad = "x".repeat(rng.usize(100_000, 300_000));
            (line.replacen('{', &format!("{{\"padding\":\"{pad}\","), 1), "oversized-field")
        }
        8 => {
            let depth = rng.usize(200, 20_000);
            (format!("{}{}", "[".repeat(depth), "]".repeat(depth)), "deep-nesting")
        }
        9 => ((*rng.pick(&["[]", "\"status\"", "123", "null", "true", "", " ", "{}", "{\"id\":1}", "\u{feff}{}"])).to_string(), "non-request-json"),
        10 => (line.replacen("\"id\":", "\"id\":-", 1), "negative-id"),
        11 => (line.replacen("\"id\":", "\"id\":1e", 1), "float-id"),
        12 => (line.replacen(&format!("\"type\":\"{ty}\""), "\"type\":7", 1), "numeric-type"),
        13 => (line.replacen("\"auth\":\"", "\"auth\":[\"", 1).replacen("\"}", "\"]}", 1), "array-auth"),
        14 => (format!("  \t{line}  \r"), "whitespace-wrapped"),
        _ => (line.replacen(&format!("\"type\":\"{ty}\""), &format!("\"type\":\"{ty}\\u0000\""), 1), "nul-suffixed-type"),
    }
}

// ---------------------------------------------------------------------------
// self test of the request-type list

fn scan_dispatcher_types() -> Result<BTreeSet<String>, String> {
    let repo = std::env::var("VERIF_REPO").unwrap_or_else(|_| "/repo".into());
    let dir = Path::new(&repo).join("crates/trust-runtime/src/control/handlers");
    let rd = std::fs::read_dir(&dir).map_err(|e| format!("{}: {e}", dir.display()))?;
    let mut found = BTreeSet::new();
    for entry in rd.filter_map(Result::ok) {
        let path = entry.path();
        if path.extension().and_then(|e| e.to_str()) != Some("rs") {
            continue;
        }
        let text = std::fs::read_to_string(&path).map_err(|e| e.to_string())?;
        // string literals that are match-arm patterns:  "x" =>   or   "x" |
        let bytes: Vec<char> = text.chars().collect();
        let mut i = 0;
        while i < bytes.len() {
            if bytes[i] == '"' {
                let mut j = i + 1;
                while j < bytes.len() && bytes[j] != '"' && bytes[j] != '\n' {
                    j += 1;
                }
                if j < bytes.len() && bytes[j] == '"' {
                    let lit: String = bytes[i + 1..j].iter().collect();
                    let mut k = j + 1;
                    while k < bytes.len() && bytes[k].is_whitespace() {
                        k += 1;
                    }
                    let arm = (k + 1 < bytes.len() && bytes[k] == '=' && bytes[k + 1] == '>') || (k < bytes.len() && bytes[k] == '|');
                    if arm && !lit.is_empty() {
                        found.insert(lit);
                    }
                    i = j + 1;
                    continue;
                }
            }
            i += 1;
        }
    }
    Ok(found)
}

/// Once per process: (a) every match-arm literal of the dispatcher tables in the source
/// tree this binary was built from is in KNOWN_TYPES and vice versa; (b) every KNOWN_TYPES
/// entry is accepted by the running dispatcher (its reply is not "unsupported request").
fn type_list_selftest() -> &'static Result<(), String> {
    static RES: OnceLock<Result<(), String>> = OnceLock::new();
    RES.get_or_init(|| {
        let scanned = scan_dispatcher_types().map_err(|e| format!("scan-unavailable: {e}"))?;
        let mine: BTreeSet<String> = KNOWN_TYPES.iter().map(|(t, _, _)| (*t).to_string()).collect();
        let missing: Vec<&String> = scanned.difference(&mine).collect();
        let extra: Vec<&String> = mine.difference(&scanned).collect();
        if !missing.is_empty() || !extra.is_empty() {
            return Err(format!("dispatcher tables know {missing:?} which the check's list lacks; the check lists {extra:?} which the tables lack"));
        }
        let w = World::build(&json!({"auth": false, "debug": true, "mode": "debug"}))?;
        for (t, _, _) in KNOWN_TYPES {
            let line = request_line(1, t, None, None);
            let reply = w.send(&line).map_err(|v| format!("{t}: {}", v.signature))?;
            let parsed: Json = reply.as_deref().and_then(|r| serde_json::from_str(r).ok()).unwrap_or(Json::Null);
            if parsed["error"] == "unsupported request" {
                return Err(format!("the running dispatcher does not know `{t}`"));
            }
        }
        let reply = w.send(&request_line(1, "nosuch.request", None, None)).map_err(|v| v.signature)?;
        if !reply.unwrap_or_default().contains("unsupported request") {
            return Err("an unknown type is not answered with `unsupported request`; self test cannot tell known from unknown".into());
        }
        Ok(())
    })
}

// ---------------------------------------------------------------------------

fn error_class(err: &str) -> String {
    let cut = err.find(|c| c == ':' || c == '\'' || c == '(').unwrap_or(err.len());
    err[..cut].trim().chars().take(48).collect()
}

impl Check for C18Check {
    fn id(&self) -> &'static str {
        "C18"
    }
    fn cases(&self, tier: Tier) -> u64 {
        match tier {
            Tier::Quick => 2_000,
            Tier::Thorough => 60_000,
        }
    }
    fn rule(&self) -> &'static str {
        "case = endpoint configuration (auth token set/unset, control_requires_auth, debug enabled/disabled, production/debug control mode, stub reload reply ok/error) x history of 70 (quick) / 140 (thorough) operations: request lines from nine clients (no credential, wrong/case-variant/prefix tokens, current admin token, pairing tokens claimed at viewer/operator/engineer/admin, a token that gets revoked, the previous admin token after rotation) over all 53 dispatcher request types with seeded valid and invalid params, 15% mangled lines (unknown / upper-case / padded / NUL-suffixed type, garbled byte, truncated, object twice, duplicated keys, 100-300 kB field, 200-20000 deep nesting, non-request JSON, negative/float id, numeric type, array auth, whitespace wrapped), pair.start/claim/revoke, control.auth_token rotation/removal, control.debug_enabled / control.mode flips, clock jumps (seconds, exactly to / one past a token's expiry, 31 days); later additions: boundary numerics (2^31, 2^32, 2^53+1, u64::MAX) in numeric parameters of valid requests; crash + restart of the pairing store from its file after every acknowledged pair.revoke; round 3: pairing-store restart check after every clock jump, config.set with several gate keys at once, acknowledged debug flag / mode read back; distinct non-trivial = distinct (request type, credential kind, token configured, debug enabled, line form) combinations actually sent"
    }
    fn assumptions(&self) -> Vec<&'static str> {
        vec![
            "credential -> role (property text): with a configured token, the token itself = admin, a valid (unrevoked, now <= expires_at) pairing token = the role recorded for it at claim time (read from PairingStore::list right after the claim), anything else = no role; without a configured token a valid pairing token keeps its role and every other credential (none, unknown, expired, revoked) counts as admin (local trust; the property constrains only the configured case)",
            "a pairing token's expiry is the expires_at the store itself listed at claim time; revocation is what a successful pair.revoke reply acknowledged (by id or 'all'; tokens sharing an id are revoked together)",
            "only an observed effect (probe difference) with an insufficient model role, a reply with data to an unauthenticated client, a debug-class request answered ok / with an effect while debug is disabled, a missing or malformed reply, a hang or a panic are violations; a refusal is never one (the real table may be stricter than Appendix B)",
            "debug-class (property text) = step_*, breakpoints.*, debug.*, eval, set, var.*; pause/resume are lifecycle requests as well and are left out (permissive reading)",
            "effects = debugger mode/steps/breakpoints/forces/pending variable, lvalue and I/O writes (hook accessor), pending restart, effectful resource commands (everything except Snapshot/MeshSnapshot reads) and the stop flag, settings, auth token, control mode, debug flag, pairing tokens and pending code, HMI descriptor state and files under the scratch project root, acknowledged alarms; consumptive or book-keeping reads (stop/event draining, variable handles, trend sampling, alarm raising by hmi.*.get) are not effects",
            "type strings that differ from a known type only by ASCII case / surrounding whitespace / NUL need the known type's role if the endpoint executes them; any effect of a type unknown even after that normalisation is a violation",
            "hang detection is wall-clock (60 s, or 6 s of consecutive observations that the handler thread keeps the metadata mutex): a detector, not an oracle input",
            "request-type list self test: the match-arm string literals of crates/trust-runtime/src/control/handlers/*.rs under $VERIF_REPO (the tree ./check just built from) must equal the check's list, and the running dispatcher must know every listed type; there is no way to enumerate a `match` at run time other than through the source",
        ]
    }
    fn components(&self) -> (Vec<&'static str>, Vec<&'static str>) {
        (
            vec![
                "control::handle_request_line / handle_request_value / resolve_request_role / required_role_for_control_request / is_debug_request / all five handler tables and handlers",
                "security::AccessRole",
                "web::pairing::PairingStore (real file in a scratch dir, injected clock)",
                "debug::DebugControl",
                "hmi schema/values/alarms/descriptor code over a scratch project root",
                "compiled runtime metadata + debug snapshot of a small program",
            ],
            vec![
                "socket transport (TCP/unix listener, thread per client, BufRead::lines)",
                "resource thread (responder answering Snapshot / ReloadBytecode / MeshSnapshot with canned replies)",
                "historian (disabled)",
                "HMI descriptor file watcher (not spawned)",
                "audit channel (None)",
            ],
        )
    }
    fn hang_limit_s(&self) -> u64 {
        180
    }

    fn generate(&self, rng: &mut Rng, tier: Tier, _index: u64) -> Json {
        let mut cfg = rng.fork("config");
        let mut gen = rng.fork("ops");
        let auth = cfg.chance(7, 10);
        let config = json!({
            "auth": auth,
            "requires_auth": auth && cfg.chance(1, 4),
            "debug": cfg.chance(6, 10),
            "mode": if cfg.bool() { "debug" } else { "production" },
            "reload_ok": cfg.bool(),
        });
        // the valid-expression form of debug.evaluate never returns on the pinned tree (open
        // finding): it is sent in a small share of the cases only, so it cannot shadow the rest
        let eval_hang_ok = cfg.chance(1, 80);
        let n_ops = match tier {
            Tier::Quick => 70,
            Tier::Thorough => 140,
        };
        let mut ops: Vec<Json> = vec![];
        let mut id = 1u64;
        let mut rot = 0u32;
        let weighted: Vec<&str> = KNOWN_TYPES.iter().flat_map(|(t, r, _)| std::iter::repeat(*t).take(if *r > Viewer { 2 } else { 1 })).collect();
        let pair_client = |gen: &mut Rng, ops: &mut Vec<Json>, id: &mut u64, c: usize| {
            ops.push(json!({"k": "req", "c": CLIENT_ADMIN, "line": request_line(*id, "pair.start", None, Some("$ADMIN".into()))}));
            *id += 1;
            if gen.chance(1, 3) {
                ops.push(json!({"k": "clock", "dt": gen.range(0, 3)}));
            }
            let params = if gen.chance(1, 8) { json!({"code": "$CODE"}) } else { json!({"code": "$CODE", "role": CLIENT_ROLES[c]}) };
            ops.push(json!({"k": "req", "c": CLIENT_ADMIN, "assign": c, "line": request_line(*id, "pair.claim", Some(params), Some("$ADMIN".into()))}));
            *id += 1;
        };
        // setup: pair most of the pairing clients
        for c in 3..=7usize {
            if gen.chance(4, 5) {
                pair_client(&mut gen, &mut ops, &mut id, c);
                if gen.chance(2, 3) {
                    ops.push(json!({"k": "clock", "dt": gen.range(1, 5)}));
                }
            }
        }
        let mut revoked7 = false;
        while ops.len() < n_ops {
            let roll = gen.below(100);
            if roll < 6 {
                match gen.below(8) {
                    0 | 1 => ops.push(json!({"k": "clock", "to_expiry_of": gen.usize(3, 7), "plus": gen.range(-1, 1)})),
                    2 => ops.push(json!({"k": "clock", "dt": 31 * 24 * 3600})),
                    3 => ops.push(json!({"k": "clock", "dt": gen.range(295, 305)})),
                    _ => ops.push(json!({"k": "clock", "dt": gen.range(0, 600)})),
                }
            } else if roll < 10 {
                let c = gen.usize(3, 7);
                pair_client(&mut gen, &mut ops, &mut id, c);
            } else if roll < 13 {
                let target = if !revoked7 || gen.chance(1, 2) {
                    revoked7 = true;
                    "$PID7".to_string()
                } else if gen.chance(1, 4) {
                    "all".to_string()
                } else {
                    format!("$PID{}", gen.usize(3, 7))
                };
                ops.push(json!({"k": "req", "c": CLIENT_ADMIN, "line": request_line(id, "pair.revoke", Some(json!({"id": target})), Some("$ADMIN".into()))}));
                id += 1;
            } else if roll < 16 {
                let params = if gen.chance(1, 5) {
                    json!({"control.auth_token": null})
                } else {
                    rot += 1;
                    json!({"control.auth_token": format!("adm-token-{rot}")})
                };
                ops.push(json!({"k": "req", "c": CLIENT_ADMIN, "line": request_line(id, "config.set", Some(params), Some("$ADMIN".into()))}));
                id += 1;
            } else if roll < 19 {
                let params = if gen.chance(2, 3) { json!({"control.debug_enabled": gen.bool()}) } else { json!({"control.mode": *gen.pick(&["debug", "production"])}) };
                ops.push(json!({"k": "req", "c": CLIENT_ADMIN, "line": request_line(id, "config.set", Some(params), Some("$ADMIN".into()))}));
                id += 1;
            } else {
                let c = *gen.pick_weighted(&[
                    (15, CLIENT_NONE),
                    (12, CLIENT_WRONG),
                    (16, CLIENT_ADMIN),
                    (10, 3usize),
                    (10, 4usize),
                    (12, 5usize),
                    (6, 6usize),
                    (9, 7usize),
                    (10, CLIENT_STALE),
                ]);
                let ty = *gen.pick(&weighted);
                let params = if gen.chance(13, 20) { valid_params(&mut gen, ty, eval_hang_ok, &mut rot) } else { Some(invalid_params(&mut gen)) };
                let auth = auth_for_client(&mut gen, c);
                let rid = if gen.chance(1, 30) { *gen.pick(&[0u64, u64::MAX, 1 << 53]) } else { id };
                let mut line = request_line(rid, ty, params, auth);
                id += 1;
                let mut form = "well-formed";
                if gen.chance(3, 20) {
                    let (l, f) = mangle(&mut gen, &line, ty);
                    line = l;
                    form = f;
                }
                let mut op = json!({"k": "req", "c": c, "line": line, "form": form});
                if ty == "pair.claim" && gen.bool() {
                    op["assign"] = json!(gen.usize(3, 7));
                }
                let twice = gen.chance(1, 25);
                ops.push(op.clone());
                if twice {
                    ops.push(op);
                }
            }
        }
        json!({"config": config, "ops": ops})
    }

    fn run(&self, case: &Json, stats: &mut Stats) -> Result<(), Violation> {
        for p in [
            "probe.effect_by_authorised_client",
            "probe.refused_insufficient_role",
            "probe.refused_unauthenticated",
            "probe.expired_token_used",
            "probe.expiry_boundary_token_still_valid",
            "probe.revoked_token_used",
            "probe.stale_admin_token_used_after_rotation",
            "probe.auth_token_removed_at_runtime",
            "probe.debug_class_refused_while_disabled",
            "probe.debug_enabled_at_runtime_then_used",
            "probe.pairing_id_collision",
            "probe.hmi_write_queued",
            "probe.alarm_acknowledged",
            "probe.descriptor_files_written",
            "probe.bytecode_reload_reached_resource",
            "probe.shutdown_effect",
            "probe.case_variant_type_refused_or_harmless",
            "probe.oversized_line",
            "probe.claim_by_operator_level_client",
            "fault.line.garbled",
            "fault.line.truncated",
            "fault.line.duplicated",
            "fault.line.oversized",
            "fault.line.unknown_type",
            "fault.line.type_variant",
            "fault.line.non_request_json",
            "fault.line.bad_field_type",
            "fault.credential.expired",
            "fault.credential.revoked",
            "fault.credential.rotated",
            "fault.credential.wrong",
            "fault.clock_jump",
        ] {
            stats.add(p, 0);
        }
        if let Err(e) = type_list_selftest() {
            let sig = if e.starts_with("scan-unavailable") { "harness/request-type-scan-unavailable" } else { "harness/unknown-request-type-list-stale" };
            return Err(Violation::new(sig, e.clone()));
        }
        let w = World::build(&case["config"]).map_err(|e| Violation::new("harness/world-build", e))?;

        // world priming (harness-issued, not part of the history): raise the alarm, learn its id and a valid descriptor
        let admin0 = w.state.auth_token.lock().unwrap().clone().map(|t| t.to_string());
        let prime = |ty: &str| -> Result<Json, Violation> {
            let reply = w.send(&request_line(0, ty, None, admin0.clone()))?.unwrap_or_default();
            Ok(serde_json::from_str(&reply).unwrap_or(Json::Null))
        };
        let alarms = prime("hmi.alarms.get")?;
        let alarm_id = alarms["result"]["active"][0]["id"].as_str().unwrap_or("no-alarm").to_string();
        if alarm_id == "no-alarm" {
            return Err(Violation::new("harness/no-alarm-raised", format!("{alarms}")));
        }
        let descriptor = prime("hmi.descriptor.get")?["result"].clone();
        if !descriptor.is_object() {
            return Err(Violation::new("harness/no-descriptor", format!("{descriptor}")));
        }
        let descriptor_text = descriptor.to_string();
        let _ = w.fence_and_take_commands()?;
        let _ = w.state.resource.verif_take_stop_requested();

        let mut tokens: Vec<TokenRec> = vec![];
        let mut client_token: BTreeMap<usize, usize> = BTreeMap::new(); // client -> index into tokens
        let mut stale_admin: Option<String> = None;
        let mut debug_enabled_at_runtime = false;
        let mut before = probe(&w);
        let ops = case["ops"].as_array().cloned().unwrap_or_default();
        let mut sampled = false;

        for (opi, op) in ops.iter().enumerate() {
            match op["k"].as_str().unwrap_or("") {
                "clock" => {
                    let now = w.now();
                    let target = if let Some(c) = op["to_expiry_of"].as_u64() {
                        match client_token.get(&(c as usize)) {
                            Some(i) => (tokens[*i].expires_at as i64 + op["plus"].as_i64().unwrap_or(0)).max(now as i64) as u64,
                            None => now,
                        }
                    } else {
                        now.saturating_add(op["dt"].as_u64().unwrap_or(0))
                    };
                    if target > now {
                        w.clock.store(target, Ordering::SeqCst);
                        stats.sim_time_ns += u128::from(target - now) * 1_000_000_000;
                        stats.inc("fault.clock_jump");
                        // the endpoint may be restarted at any time, e.g. long after a token expired
                        restart_check(&w, &tokens, opi, "after a clock jump", stats)?;
                    }
                    before = probe(&w);
                    stats.log(&format!("{opi}:clock:{}", target - CLOCK_START));
                    continue;
                }
                "req" => {}
                _ => continue,
            }
            let template = op["line"].as_str().unwrap_or("");
            let form = op["form"].as_str().unwrap_or("well-formed");
            // ---- resolve placeholders (tokens and codes are random: they never reach the log)
            let configured: Option<String> = w.state.auth_token.lock().unwrap().clone().map(|t| t.to_string());
            let mut line = template.to_string();
            if line.contains('$') {
                line = line.replace("$ADMIN", configured.as_deref().unwrap_or("adm-token-0"));
                line = line.replace("$STALE", stale_admin.as_deref().unwrap_or("adm-token-never"));
                for k in 3..=7usize {
                    let tok = client_token.get(&k).map(|i| tokens[*i].token.clone()).unwrap_or_else(|| format!("unclaimed-{k}"));
                    line = line.replace(&format!("$TOK{k}"), &tok);
                    let pid = client_token.get(&k).map(|i| tokens[*i].id.clone()).unwrap_or_else(|| "pair-none".into());
                    line = line.replace(&format!("$PID{k}"), &pid);
                }
                let code = w.pairing.verif_pending_code().map(|(c, _)| c).unwrap_or_else(|| "000000".into());
                line = line.replace("$CODE", &code);
                line = line.replace("$ALARM", &alarm_id);
                line = line.replace("\"$DESCRIPTOR\"", &descriptor_text);
            }
            // ---- the model's view of the request
            let parsed: Option<Json> = serde_json::from_str::<Json>(&line).ok().filter(Json::is_object);
            let ty: Option<String> = parsed.as_ref().and_then(|v| v["type"].as_str().map(str::to_string));
            let params: Option<Json> = parsed.as_ref().and_then(|v| v.get("params").cloned());
            let cred: Option<String> = parsed.as_ref().and_then(|v| v["auth"].as_str().map(str::to_string));
            let now = w.now();
            let (role, cred_kind) = model_role(cred.as_deref(), configured.as_deref(), &tokens, now);
            let cred_kind = if cred.is_some() && cred == stale_admin && cred != configured { "previous-admin-token" } else { cred_kind };
            let debug_on = w.state.debug_enabled.load(Ordering::SeqCst);
            let required = ty.as_deref().and_then(|t| required_role(t, params.as_ref()));

            // ---- the real endpoint
            let reply = w.send(&line).map_err(|mut v| {
                if v.detail == "hang" {
                    v.detail = format!(
                        "op {opi}: no reply to a `{}` request from a {cred_kind} client (debug {}): the handler never returned",
                        ty.as_deref().unwrap_or("?"),
                        if debug_on { "enabled" } else { "disabled" }
                    );
                    v.signature = format!("{}/{}", v.signature, ty.as_deref().unwrap_or("unparsed"));
                } else {
                    v.detail = format!("op {opi} ({form} `{}` line, {cred_kind}): {}", ty.as_deref().unwrap_or("?"), v.detail);
                }
                v
            })?;
            if std::env::var_os("C18_TRACE").is_some() {
                eprintln!("TRACE op {opi}: {} -> {:?}", clip(&line), reply.as_deref().map(clip));
            }
            let cmds = w.fence_and_take_commands()?;
            let stop = w.state.resource.verif_take_stop_requested();
            let after = probe(&w);
            let mut effects: Vec<&'static str> = diff(&before, &after);
            if !cmds.is_empty() {
                effects.push("resource_commands");
            }
            if stop {
                effects.push("stop_requested");
            }
            let tname = ty.clone().unwrap_or_else(|| "<unparsed>".into());
            let tsig = ty.as_deref().map(normalise_type).filter(|t| known(t).is_some()).unwrap_or_else(|| "other".into());

            // ---- rule: exactly one well-formed reply
            let Some(reply) = reply else {
                return Err(Violation::new(format!("reply/missing/{form}"), format!("op {opi}: the {form} line got no reply")));
            };
            let rj: Json = match serde_json::from_str(&reply) {
                Ok(v) => v,
                Err(e) => return Err(Violation::new(format!("reply/not-json/{form}"), format!("op {opi}: reply is not JSON ({e}): {}", clip(&reply)))),
            };
            let ok = rj["ok"].as_bool();
            let well_formed = rj.is_object()
                && rj["id"].is_u64()
                && !reply.contains('\n')
                && match ok {
                    Some(true) => rj.get("result").is_some() && rj.get("error").is_none(),
                    Some(false) => rj["error"].is_string() && rj.get("result").is_none(),
                    None => false,
                };
            if !well_formed {
                return Err(Violation::new(format!("reply/malformed/{form}"), format!("op {opi}: reply to the {form} line is not a well-formed response object: {}", clip(&reply))));
            }
            let ok = ok.unwrap_or(false);
            if parsed.is_none() && (ok || !effects.is_empty()) {
                return Err(Violation::new(
                    format!("malformed-line/executed/{form}"),
                    format!("op {opi}: a line that is not a JSON object was answered ok={ok} with effects {effects:?}"),
                ));
            }

            // ---- rule: effect => sufficient role
            if !effects.is_empty() {
                let detail = |what: &str| {
                    format!(
                        "op {opi}: `{tname}` ({form}) from a {cred_kind} client (model role {role:?}, token {}configured, debug {}) {what}; effects: {effects:?}{}; reply: {}",
                        if configured.is_some() { "" } else { "not " },
                        if debug_on { "enabled" } else { "disabled" },
                        if cmds.is_empty() { String::new() } else { format!(" commands {cmds:?}") },
                        clip(&reply)
                    )
                };
                match required {
                    None => return Err(Violation::new("effect/unknown-request-type", detail("changed state although the type is unknown to the property's table"))),
                    Some((req, _)) => {
                        if req == Viewer {
                            return Err(Violation::new(format!("meta/state-changing-type-needs-only-viewer/{tsig}"), detail("changed state, so it must require more than viewer")));
                        }
                        match role {
                            None => return Err(Violation::new(format!("effect/unauthenticated/{cred_kind}"), detail("changed state without a valid credential"))),
                            Some(r) if r < req => {
                                return Err(Violation::new(
                                    format!("effect/insufficient-role/{}-needs-{}/{tsig}", format!("{r:?}").to_lowercase(), format!("{req:?}").to_lowercase()),
                                    detail("changed state with an insufficient role"),
                                ))
                            }
                            Some(_) => stats.inc("probe.effect_by_authorised_client"),
                        }
                    }
                }
            }
            // ---- rule: unauthenticated under a configured token: nothing changes (above), nothing revealed
            if configured.is_some() && role.is_none() {
                if ok || rj.get("result").is_some() {
                    return Err(Violation::new(
                        format!("leak/unauthenticated-got-result/{cred_kind}"),
                        format!("op {opi}: `{tname}` from a {cred_kind} client was answered with data although a token is configured: {}", clip(&reply)),
                    ));
                }
                let err = rj["error"].as_str().unwrap_or("");
                let mut secrets: Vec<String> = SENTINELS.iter().map(|s| s.to_string()).collect();
                secrets.extend(tokens.iter().map(|t| t.token.clone()));
                secrets.push(alarm_id.clone());
                if let Some(hit) = secrets.iter().find(|s| err.contains(s.as_str()) && !line.contains(s.as_str())) {
                    return Err(Violation::new(
                        format!("leak/unauthenticated-error-reveals-data/{cred_kind}"),
                        format!("op {opi}: the error reply to an unauthenticated `{tname}` contains runtime data `{}`: {}", clip(hit), clip(&reply)),
                    ));
                }
                stats.inc("probe.refused_unauthenticated");
            }
            // ---- rule: debug gate
            if !debug_on {
                if let Some((_, true)) = required {
                    if ok || !effects.is_empty() {
                        return Err(Violation::new(
                            format!("debug-gate/executed-while-disabled/{tsig}"),
                            format!("op {opi}: debug-class `{tname}` from a {cred_kind} client was executed (ok={ok}, effects {effects:?}) while debugging is disabled: {}", clip(&reply)),
                        ));
                    }
                    stats.inc("probe.debug_class_refused_while_disabled");
                }
            }

            // ---- model bookkeeping from the observed reply
            let tnorm = ty.as_deref().unwrap_or("");
            if ok && tnorm == "pair.claim" {
                if let Some(tok) = rj["result"]["token"].as_str() {
                    let list = w.pairing.list();
                    let Some(last) = list.last() else {
                        return Err(Violation::new("pairing/claimed-token-not-listed", format!("op {opi}: claim acknowledged but the store lists no token")));
                    };
                    let Some(r) = parse_role(&format!("{:?}", last.role).to_lowercase()) else {
                        return Err(Violation::new("harness/unknown-role-name", format!("{:?}", last.role)));
                    };
                    if tokens.iter().any(|t| t.id == last.id && !t.revoked) {
                        stats.inc("probe.pairing_id_collision");
                    }
                    tokens.push(TokenRec { token: tok.to_string(), id: last.id.clone(), role: r, expires_at: last.expires_at, revoked: false, alias: tokens.len() });
                    if let Some(a) = op["assign"].as_u64() {
                        client_token.insert(a as usize, tokens.len() - 1);
                    }
                    if matches!(role, Some(Operator)) {
                        stats.inc("probe.claim_by_operator_level_client");
                    }
                }
            }
            if ok && tnorm == "pair.revoke" {
                if let Some(id) = params.as_ref().and_then(|p| p["id"].as_str()) {
                    for t in tokens.iter_mut() {
                        if id == "all" || t.id == id {
                            t.revoked = true;
                        }
                    }
                }
                restart_check(&w, &tokens, opi, "after an acknowledged pair.revoke", stats)?;
            }
            if ok && tnorm == "config.set" {
                // an acknowledged lock-down must be in force: the gates the later requests are judged by come from it
                if let Some(p) = params.as_ref().and_then(Json::as_object) {
                    if let Some(b) = p.get("control.debug_enabled").and_then(Json::as_bool) {
                        let real = w.state.debug_enabled.load(Ordering::SeqCst);
                        if real != b {
                            return Err(Violation::new(
                                "config/acknowledged-debug-flag-not-applied",
                                format!("op {opi}: config.set {} was acknowledged, control.debug_enabled is {real}", Json::Object(p.clone())),
                            ));
                        }
                    }
                    if let Some(m) = p.get("control.mode").and_then(Json::as_str) {
                        let real = format!("{:?}", *w.state.control_mode.lock().unwrap()).to_ascii_lowercase();
                        if (m == "debug" || m == "production") && real != m {
                            return Err(Violation::new(
                                "config/acknowledged-mode-not-applied",
                                format!("op {opi}: config.set {} was acknowledged, control.mode is {real}", Json::Object(p.clone())),
                            ));
                        }
                    }
                    stats.inc("probe.acknowledged_config_read_back");
                }
            }
            let configured_after: Option<String> = w.state.auth_token.lock().unwrap().clone().map(|t| t.to_string());
            if configured_after != configured {
                if let Some(old) = configured.clone() {
                    stale_admin = Some(old);
                }
                if configured_after.is_none() {
                    stats.inc("probe.auth_token_removed_at_runtime");
                }
            }
            if !debug_on && w.state.debug_enabled.load(Ordering::SeqCst) {
                debug_enabled_at_runtime = true;
            }

            // ---- coverage
            if !ok {
                if let (Some(r), Some((req, _))) = (role, required) {
                    if r < req {
                        stats.inc("probe.refused_insufficient_role");
                    }
                }
            }
            match cred_kind {
                "pairing-expired" => {
                    stats.inc("probe.expired_token_used");
                    stats.inc("fault.credential.expired");
                }
                "pairing-revoked" => {
                    stats.inc("probe.revoked_token_used");
                    stats.inc("fault.credential.revoked");
                }
                "previous-admin-token" => {
                    stats.inc("probe.stale_admin_token_used_after_rotation");
                    stats.inc("fault.credential.rotated");
                }
                "unknown-token" => stats.inc("fault.credential.wrong"),
                k if k.starts_with("pairing-") => {
                    if cred.as_deref().and_then(|c| tokens.iter().find(|t| t.token == c)).is_some_and(|t| t.expires_at == now) {
                        stats.inc("probe.expiry_boundary_token_still_valid");
                    }
                }
                _ => {}
            }
            match form {
                "garbled" => stats.inc("fault.line.garbled"),
                "truncated" => stats.inc("fault.line.truncated"),
                "duplicated-object" | "duplicated-keys" => stats.inc("fault.line.duplicated"),
                "oversized-field" | "deep-nesting" => {
                    stats.inc("fault.line.oversized");
                    stats.inc("probe.oversized_line");
                }
                "unknown-type" => stats.inc("fault.line.unknown_type"),
                "case-variant" | "padded-type" | "nul-suffixed-type" => {
                    stats.inc("fault.line.type_variant");
                    if effects.is_empty() {
                        stats.inc("probe.case_variant_type_refused_or_harmless");
                    }
                }
                "non-request-json" => stats.inc("fault.line.non_request_json"),
                "negative-id" | "float-id" | "numeric-type" | "array-auth" => stats.inc("fault.line.bad_field_type"),
                _ => {}
            }
            if ok && debug_on && debug_enabled_at_runtime && matches!(required, Some((_, true))) {
                stats.inc("probe.debug_enabled_at_runtime_then_used");
            }
            if ok && tnorm == "hmi.write" && effects.contains(&"debugger") {
                stats.inc("probe.hmi_write_queued");
            }
            if effects.contains(&"alarm_acks") {
                stats.inc("probe.alarm_acknowledged");
            }
            if effects.contains(&"hmi_files") {
                stats.inc("probe.descriptor_files_written");
            }
            if cmds.iter().any(|c| c == "ReloadBytecode") {
                stats.inc("probe.bytecode_reload_reached_resource");
            }
            if stop {
                stats.inc("probe.shutdown_effect");
            }
            stats.inc("requests");
            let mut h = Fnv::new();
            h.str(&tsig).str(cred_kind).u64(u64::from(configured.is_some())).u64(u64::from(debug_on)).str(form);
            stats.nontrivial(h.finish());
            let mut sh = Fnv::new();
            sh.u64(u64::from(configured_after.is_some()))
                .u64(u64::from(w.state.debug_enabled.load(Ordering::SeqCst)))
                .str(&after["control_mode"])
                .str(&after["pending_restart"])
                .u64(tokens.iter().filter(|t| !t.revoked && now <= t.expires_at).count() as u64)
                .u64(tokens.iter().filter(|t| t.revoked).count() as u64)
                .u64(u64::from(after["pairing_code"] != "None"))
                .u64(after["debugger"].len() as u64)
                .str(&after["alarm_acks"]);
            stats.state(sh.finish());
            let err_class = if ok { String::new() } else { error_class(rj["error"].as_str().unwrap_or("")) };
            stats.log(&format!("{opi}:{tsig}:{form}:{cred_kind}:{}:{err_class}:{effects:?}:{cmds:?}", if ok { "ok" } else { "err" }));
            if !sampled && ok && !effects.is_empty() && opi > 12 {
                sampled = true;
                stats.sample(json!({"config": case["config"], "op": opi, "line_template": clip(template), "credential": cred_kind, "effects": effects}));
            }
            before = after;
            if w.state.debug.snapshot().is_none() {
                // the (stubbed) cycle thread reaches its next stop
                w.arm_snapshot();
                before = probe(&w);
            }
        }
        Ok(())
    }
}

fn clip(s: &str) -> String {
    let mut out: String = s.chars().take(400).collect();
    if s.chars().count() > 400 {
        out.push_str("...");
    }
    out
}
