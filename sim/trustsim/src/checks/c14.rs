//! C14 - language server keeps the same document text as the editor.
//!
//! Parties: a simulated editor (reference buffer, LSP position model: lines
//! end at `\n`, `\r\n` or `\r`, columns are UTF-16 code units, a column past
//! the line end means the line end) and the REAL `StLanguageServer` behind
//! `tower_lsp::LspService`, driven in-process by `Service::call` on a
//! current-thread tokio runtime without timer or IO drivers. The simulated
//! editor owns the client socket: it answers every server->client request with
//! a null result and records published diagnostics. A TWIN server only ever
//! sees the current texts through one `didOpen` per document; a PROJECTION
//! server sees the same texts with every non-ASCII character replaced by ASCII
//! letters of the same UTF-16 length and every line terminator replaced by
//! `\n` (so bytes = chars = UTF-16 units and every terminator model agrees).
use std::collections::BTreeMap;

use futures::{FutureExt, SinkExt, StreamExt};
use serde_json::{json, Value as Json};
use tower_lsp::jsonrpc::{Request, Response};
use tower_lsp::lsp_types::Url;
use tower_lsp::{ClientSocket, LspService};
use tower_service::Service;
use trust_lsp::StLanguageServer;

use crate::framework::{guard, Check, Stats, Tier, Violation};
use crate::rng::{Fnv, Rng};

pub struct C14Check;
pub static C14: C14Check = C14Check;

/// Documents live in a real (per worker process) scratch directory, so that file-watcher events can
/// refer to files that exist on disk. The directory name never reaches a log line or a signature.
fn base_dir() -> &'static std::path::PathBuf {
    static DIR: std::sync::OnceLock<std::path::PathBuf> = std::sync::OnceLock::new();
    DIR.get_or_init(|| {
        let d = crate::framework::scratch_dir().join(format!("c14-{}", std::process::id()));
        let _ = std::fs::remove_dir_all(&d);
        let _ = std::fs::create_dir_all(&d);
        d
    })
}

/// document slot of the file that is only ever on disk
const LIB_DOC: u64 = 90;

fn path_of(d: u64) -> std::path::PathBuf {
    base_dir().join(format!("doc{d}.st"))
}

fn uri_of(d: u64) -> String {
    format!("file://{}", path_of(d).display())
}

// ---------------------------------------------------------------------------
// the editor's position model (LSP 3.17, "Text Documents" / "Position")

#[derive(Clone, Copy, Debug)]
pub struct Line {
    pub start: usize,
    /// end of the line content (start of the terminator, or end of text)
    pub end: usize,
    /// start of the next line (after the terminator)
    pub next: usize,
}

pub fn lines_of(text: &str) -> Vec<Line> {
    let b = text.as_bytes();
    let mut out = Vec::new();
    let mut start = 0usize;
    let mut i = 0usize;
    while i < b.len() {
        match b[i] {
            b'\n' => {
                out.push(Line { start, end: i, next: i + 1 });
                i += 1;
                start = i;
            }
            b'\r' => {
                let n = if i + 1 < b.len() && b[i + 1] == b'\n' { 2 } else { 1 };
                out.push(Line { start, end: i, next: i + n });
                i += n;
                start = i;
            }
            _ => i += 1,
        }
    }
    out.push(Line { start, end: b.len(), next: b.len() });
    out
}

fn utf16_len(s: &str) -> u64 {
    s.chars().map(|c| c.len_utf16() as u64).sum()
}

#[derive(Clone, Copy, Debug, PartialEq, Eq)]
enum Resolved {
    At(usize),
    /// the column names the middle of a surrogate pair (no editor sends this)
    MidPair,
    /// the line does not exist (no editor sends this)
    NoSuchLine,
}

fn resolve(text: &str, lines: &[Line], line: u64, ch: u64) -> Resolved {
    let Some(l) = lines.get(line as usize) else { return Resolved::NoSuchLine };
    let mut col = 0u64;
    for (i, c) in text[l.start..l.end].char_indices() {
        if col == ch {
            return Resolved::At(l.start + i);
        }
        let w = c.len_utf16() as u64;
        if ch < col + w {
            return Resolved::MidPair;
        }
        col += w;
    }
    // at or past the line end: the line end
    Resolved::At(l.end)
}

/// LSP position of a byte offset (must be a char boundary; an offset inside a
/// `\r\n` pair has no position and is never asked for).
pub fn position_of(text: &str, lines: &[Line], off: usize) -> (u64, u64) {
    let idx = match lines.binary_search_by(|l| l.start.cmp(&off)) {
        Ok(i) => i,
        Err(i) => i.saturating_sub(1),
    };
    let l = lines[idx];
    let upto = off.min(l.end);
    (idx as u64, utf16_len(&text[l.start..upto]))
}

/// char boundaries that a position can denote (everything except inside `\r\n`)
fn boundaries(text: &str) -> Vec<usize> {
    let b = text.as_bytes();
    let mut out: Vec<usize> = text.char_indices().map(|(i, _)| i).collect();
    out.push(text.len());
    out.retain(|&o| !(o > 0 && o < b.len() && b[o - 1] == b'\r' && b[o] == b'\n'));
    out
}

/// One content change of a didChange notification as the editor means it.
/// Ok(new text) or Err(()) when the change uses a position the protocol leaves
/// undefined (no such line, middle of a surrogate pair, start after end).
fn editor_apply(text: &str, change: &Json) -> Result<String, ()> {
    let new_text = change["t"].as_str().unwrap_or("");
    let Some(r) = change["r"].as_array() else { return Ok(new_text.to_string()) };
    let g = |i: usize| r.get(i).and_then(Json::as_u64).unwrap_or(0);
    let lines = lines_of(text);
    let (Resolved::At(s), Resolved::At(e)) = (resolve(text, &lines, g(0), g(1)), resolve(text, &lines, g(2), g(3))) else {
        return Err(());
    };
    if s > e {
        return Err(());
    }
    let mut out = String::with_capacity(text.len() + new_text.len());
    out.push_str(&text[..s]);
    out.push_str(new_text);
    out.push_str(&text[e..]);
    Ok(out)
}

// ---------------------------------------------------------------------------
// in-process LSP session

struct Session {
    svc: LspService<StLanguageServer>,
    socket: ClientSocket,
    next_id: i64,
    /// uri -> last published diagnostics
    published: BTreeMap<String, Json>,
    server_requests: Vec<String>,
    notifications: u64,
    /// the position encoding the server selected in its initialize result (utf-16 when it names none)
    encoding: String,
}

/// The column of a UTF-16 position, re-expressed in the encoding the server selected (an editor sends what was negotiated).
fn recode_column(text: &str, line: u64, ch16: u64, encoding: &str) -> u64 {
    if encoding == "utf-16" {
        return ch16;
    }
    let lines = lines_of(text);
    let Some(l) = lines.get(line as usize) else { return ch16 };
    let unit = |c: char| if encoding == "utf-8" { c.len_utf8() as u64 } else { 1 };
    let (mut col16, mut col) = (0u64, 0u64);
    for c in text[l.start..l.end].chars() {
        if col16 >= ch16 {
            return col;
        }
        col16 += c.len_utf16() as u64;
        col += unit(c);
    }
    // at or past the line end: keep the distance
    col + ch16.saturating_sub(col16)
}

impl Session {
    fn new() -> Self {
        let (svc, socket) = LspService::new(StLanguageServer::verif_new);
        Session { svc, socket, next_id: 1, published: BTreeMap::new(), server_requests: vec![], notifications: 0, encoding: "utf-16".to_string() }
    }

    async fn handle(&mut self, msg: Request) {
        let (method, id, params) = msg.into_parts();
        if let Some(id) = id {
            // a minimal editor: every server->client request succeeds with null
            self.server_requests.push(method.to_string());
            let _ = self.socket.send(Response::from_ok(id, Json::Null)).await;
        } else {
            self.notifications += 1;
            if method == "textDocument/publishDiagnostics" {
                if let Some(p) = params {
                    if let Some(uri) = p["uri"].as_str() {
                        self.published.insert(uri.to_string(), p["diagnostics"].clone());
                    }
                }
            }
        }
    }

    /// Deliver one message and serve the client socket until the server is quiescent.
    async fn call(&mut self, req: Request) -> Option<Response> {
        let fut = self.svc.call(req);
        tokio::pin!(fut);
        let resp = loop {
            tokio::select! {
                biased;
                r = &mut fut => break r,
                msg = self.socket.next() => {
                    match msg {
                        Some(m) => self.handle(m).await,
                        None => tokio::task::yield_now().await,
                    }
                }
            }
        };
        // background tasks spawned by the handler (index/refresh) run on this
        // thread only while we yield; drain until nothing moves any more
        let mut idle = 0;
        while idle < 4 {
            tokio::task::yield_now().await;
            match self.socket.next().now_or_never() {
                Some(Some(m)) => {
                    self.handle(m).await;
                    idle = 0;
                }
                _ => idle += 1,
            }
        }
        resp.ok().flatten()
    }

    async fn request(&mut self, method: &'static str, params: Json) -> Json {
        let id = self.next_id;
        self.next_id += 1;
        let req = Request::build(method).params(params).id(id).finish();
        match self.call(req).await {
            Some(r) => match r.into_parts().1 {
                Ok(v) => v,
                Err(e) => json!({"error": e.code.code(), "message": e.message.to_string()}),
            },
            None => json!({"error": "no response"}),
        }
    }

    async fn notify(&mut self, method: &'static str, params: Json) {
        let req = Request::build(method).params(params).finish();
        let _ = self.call(req).await;
    }

    async fn start(pull: bool) -> Session {
        Session::start_offering(pull, 0).await
    }

    /// `offer`: 0 = no positionEncodings, 1 = [utf-16], 2 = [utf-8, utf-16], 3 = [utf-32, utf-16]
    async fn start_offering(pull: bool, offer: u64) -> Session {
        let mut s = Session::new();
        let mut workspace = json!({"semanticTokens": {"refreshSupport": true}});
        if pull {
            workspace["diagnostic"] = json!({"refreshSupport": true});
        }
        let params = json!({
            "processId": null,
            "rootUri": null,
            "capabilities": {
                "workspace": workspace,
                "textDocument": {
                    "synchronization": {"didSave": true},
                    "publishDiagnostics": {"relatedInformation": true},
                    "semanticTokens": {"requests": {"full": {"delta": true}}, "tokenTypes": [], "tokenModifiers": [], "formats": ["relative"]},
                },
            },
        });
        let mut params = params;
        match offer {
            1 => params["capabilities"]["general"] = json!({"positionEncodings": ["utf-16"]}),
            2 => params["capabilities"]["general"] = json!({"positionEncodings": ["utf-8", "utf-16"]}),
            3 => params["capabilities"]["general"] = json!({"positionEncodings": ["utf-32", "utf-16"]}),
            _ => {}
        }
        let init = s.request("initialize", params).await;
        s.encoding = init["capabilities"]["positionEncoding"].as_str().unwrap_or("utf-16").to_string();
        s.notify("initialized", json!({})).await;
        s
    }

    async fn open(&mut self, uri: &str, version: i64, text: &str) {
        self.notify(
            "textDocument/didOpen",
            json!({"textDocument": {"uri": uri, "languageId": "structured-text", "version": version, "text": text}}),
        )
        .await;
    }

    async fn close(&mut self, uri: &str) {
        self.notify("textDocument/didClose", json!({"textDocument": {"uri": uri}})).await;
    }

    fn text(&self, uri: &str) -> Option<String> {
        let url = Url::parse(uri).ok()?;
        self.svc.inner().verif_document_text(&url)
    }
}

/// The position-carrying answers for one document.
struct Answers {
    symbols: Json,
    tokens: Json,
    tokens_result_id: Option<String>,
    diagnostics: Json,
    published: Json,
    formatting: Json,
    highlight: Json,
    range_formatting: Json,
    tokens_range: Json,
}

/// positions the editor puts into its own requests at a query point
#[derive(Clone, Copy)]
struct Ask {
    highlight_at: (u64, u64),
    format_lines: (u64, u64),
    /// lines of the semanticTokens/range request: starts at line 0 in 7 of 8 queries, because a
    /// later start trips the open finding answers/tokens-range-relative-to-range-start
    token_lines: (u64, u64),
}

fn ask_for(text: &str, hl: u64, rf: (u64, u64)) -> Ask {
    let lines = lines_of(text);
    let spans = ident_spans(text);
    let highlight_at = if spans.is_empty() {
        (0, 0)
    } else {
        let k = ((hl.min(999) as usize) * spans.len()) / 1000;
        // a column inside the identifier (its second character when it has one)
        let (a, b) = spans[k];
        position_of(text, &lines, if b - a > 1 { a + 1 } else { a })
    };
    let n = lines.len() as u64;
    let l0 = rf.0.min(999) * n / 1000;
    let l1 = (rf.1.min(999) * n / 1000).max(l0);
    Ask { highlight_at, format_lines: (l0, l1), token_lines: (if hl % 8 == 0 { l0 } else { 0 }, l1) }
}

async fn answers(s: &mut Session, uri: &str, ask: Ask) -> Answers {
    let td = json!({"uri": uri});
    let symbols = s.request("textDocument/documentSymbol", json!({"textDocument": td})).await;
    let tok = s.request("textDocument/semanticTokens/full", json!({"textDocument": td})).await;
    let diag = s.request("textDocument/diagnostic", json!({"textDocument": td})).await;
    let formatting = s
        .request("textDocument/formatting", json!({"textDocument": td, "options": {"tabSize": 4, "insertSpaces": true}}))
        .await;
    let highlight = s
        .request(
            "textDocument/documentHighlight",
            json!({"textDocument": td, "position": {"line": ask.highlight_at.0, "character": ask.highlight_at.1}}),
        )
        .await;
    let range_formatting = s
        .request(
            "textDocument/rangeFormatting",
            json!({
                "textDocument": td,
                "range": {"start": {"line": ask.format_lines.0, "character": 0}, "end": {"line": ask.format_lines.1, "character": 4_294_967_295u64}},
                "options": {"tabSize": 4, "insertSpaces": true},
            }),
        )
        .await;
    let tr = s
        .request(
            "textDocument/semanticTokens/range",
            json!({
                "textDocument": td,
                "range": {"start": {"line": ask.token_lines.0, "character": 0}, "end": {"line": ask.token_lines.1, "character": 4_294_967_295u64}},
            }),
        )
        .await;
    Answers {
        tokens_range: if tr.get("data").is_some() { tr["data"].clone() } else { tr },
        highlight,
        range_formatting,
        symbols,
        tokens_result_id: tok["resultId"].as_str().map(str::to_string),
        tokens: if tok.get("data").is_some() { tok["data"].clone() } else { tok },
        diagnostics: if diag.get("items").is_some() { diag["items"].clone() } else { diag },
        published: s.published.get(uri).cloned().unwrap_or(Json::Null),
        formatting,
    }
}

// ---------------------------------------------------------------------------
// ASCII / LF projection

/// Same LSP positions for everything, but bytes = chars = UTF-16 units and
/// `\n` is the only terminator. None when a non-ASCII character sits outside
/// a string literal or comment, or when the projection lexes differently (then
/// the two texts are not the same program and nothing can be concluded).
fn project(text: &str) -> Option<String> {
    use trust_syntax::TokenKind as K;
    let toks = trust_syntax::lex(text);
    for t in &toks {
        let s = &text[usize::from(t.range.start())..usize::from(t.range.end())];
        if !s.is_ascii() && !matches!(t.kind, K::StringLiteral | K::WideStringLiteral | K::LineComment | K::BlockComment) {
            return None;
        }
    }
    let mut out = String::with_capacity(text.len());
    let mut it = text.chars().peekable();
    while let Some(c) = it.next() {
        if c == '\r' {
            if it.peek() == Some(&'\n') {
                it.next();
            }
            out.push('\n');
        } else if c.is_ascii() {
            out.push(c);
        } else {
            for _ in 0..c.len_utf16() {
                out.push('x');
            }
        }
    }
    let toks2 = trust_syntax::lex(&out);
    if toks.len() != toks2.len() {
        return None;
    }
    let (l1, l2) = (lines_of(text), lines_of(&out));
    for (a, b) in toks.iter().zip(&toks2) {
        if a.kind != b.kind
            || position_of(text, &l1, a.range.start().into()) != position_of(&out, &l2, b.range.start().into())
        {
            return None;
        }
    }
    Some(out)
}

/// semantic token data -> absolute (line, col, len, type, mods)
fn decode_tokens(data: &Json) -> Option<Vec<[u64; 5]>> {
    let arr = data.as_array()?;
    if arr.len() % 5 != 0 {
        return None;
    }
    let mut out = vec![];
    let (mut line, mut col) = (0u64, 0u64);
    for t in arr.chunks(5) {
        let v: Vec<u64> = t.iter().map(|x| x.as_u64().unwrap_or(u64::MAX)).collect();
        if v[0] > 0 {
            line += v[0];
            col = v[1];
        } else {
            col += v[1];
        }
        out.push([line, col, v[2], v[3], v[4]]);
    }
    Some(out)
}

fn line_len16(text: &str, lines: &[Line], line: u64) -> Option<u64> {
    lines.get(line as usize).map(|l| utf16_len(&text[l.start..l.end]))
}

/// character class of the text before a position on its line / before its line
fn cause_at(text: &str, line: u64, ch: u64) -> &'static str {
    let lines = lines_of(text);
    let b = text.as_bytes();
    let upto_line = (line as usize).min(lines.len() - 1);
    // a lone CR terminating an earlier line changes a `\n`-only line numbering
    if lines[..upto_line].iter().any(|l| l.next == l.end + 1 && b[l.end] == b'\r') {
        return "lone-cr-before";
    }
    let l = lines[upto_line];
    let mut col = 0u64;
    for c in text[l.start..l.end].chars() {
        if col >= ch {
            break;
        }
        if c.len_utf16() == 2 {
            return "astral-before-on-line";
        }
        col += c.len_utf16() as u64;
    }
    if ch > col && l.next == l.end + 2 {
        return "past-eol-on-crlf-line";
    }
    if ch > col && l.next == l.end + 1 && b[l.end] == b'\r' {
        return "past-eol-on-cr-line";
    }
    "other"
}

fn cause_of_changes(before: &str, changes: &[Json]) -> &'static str {
    let mut text = before.to_string();
    let mut best = "other";
    for ch in changes {
        if let Some(r) = ch["r"].as_array() {
            let g = |i: usize| r.get(i).and_then(Json::as_u64).unwrap_or(0);
            for (l, c) in [(g(0), g(1)), (g(2), g(3))] {
                let cause = cause_at(&text, l, c);
                if cause != "other" && best == "other" {
                    best = cause;
                }
            }
        }
        match editor_apply(&text, ch) {
            Ok(t) => text = t,
            Err(()) => break,
        }
    }
    best
}

fn first_diff(a: &str, b: &str) -> String {
    let n = a.bytes().zip(b.bytes()).take_while(|(x, y)| x == y).count();
    let mut s = n;
    while s > 0 && !a.is_char_boundary(s) {
        s -= 1;
    }
    let show = |t: &str| -> String {
        let mut st = s.min(t.len());
        while st > 0 && !t.is_char_boundary(st) {
            st -= 1;
        }
        let from = t[..st].char_indices().rev().nth(11).map_or(0, |(i, _)| i);
        let to = t[st..].char_indices().nth(12).map_or(t.len(), |(i, _)| st + i);
        format!("{:?}", &t[from..to])
    };
    format!("first difference at byte {s}: editor …{} server …{}", show(a), show(b))
}

fn short(j: &Json) -> String {
    let s = j.to_string();
    if s.len() > 600 {
        let mut e = 600;
        while !s.is_char_boundary(e) {
            e -= 1;
        }
        format!("{}…", &s[..e])
    } else {
        s
    }
}

// ---------------------------------------------------------------------------
// generator material

const TEMPLATES: &[&str] = &[
    "PROGRAM Main\nVAR\n    s : STRING := '{S}'; x : INT := 1; (* {C} *) y : INT;\n    w : WSTRING := \"{S}\";\nEND_VAR\n    x := x + 1; // {C}\n    (* {C} *) y := x * 2;\nEND_PROGRAM\n",
    "TYPE (* {C} *) Color : (Red, Green (* {C} *), Blue);\nEND_TYPE\n\nFUNCTION_BLOCK Motor\nVAR_INPUT\n    speed : REAL; (* {C} *)\nEND_VAR\nVAR_OUTPUT\n    running : BOOL;\nEND_VAR\nVAR\n    label : STRING := '{S}'; c : Color;\nEND_VAR\n    running := speed > 0.0;\nEND_FUNCTION_BLOCK\n",
    "FUNCTION Add : INT\nVAR_INPUT\n    a : INT;\n    b : INT;\nEND_VAR\n    Add := a + b; (* {C} *)\nEND_FUNCTION\n\n(* {C} *) PROGRAM P2\nVAR\n    r : INT; msg : STRING := '{S}';\nEND_VAR\n    r := Add(a := 1, b := 2);\n    IF r > 2 THEN msg := '{S}'; r := 0; END_IF;\nEND_PROGRAM\n",
    "TYPE\n    Point : STRUCT\n        x : REAL; (* {C} *)\n        y : REAL;\n    END_STRUCT;\nEND_TYPE\n\nPROGRAM Geo\nVAR\n    p : Point; names : ARRAY[0..2] OF STRING := ['{S}', '{S}', '{S}'];\n    i : INT;\nEND_VAR\n    FOR i := 0 TO 2 DO\n        p.x := p.x + 1.0; // {C}\n    END_FOR;\nEND_PROGRAM\n",
    "INTERFACE IRun\n    METHOD Run : BOOL (* {C} *)\n    END_METHOD\nEND_INTERFACE\n\nFUNCTION_BLOCK Runner IMPLEMENTS IRun\nVAR\n    tag : STRING := '{S}';\nEND_VAR\n    METHOD PUBLIC Run : BOOL\n        Run := TRUE; (* {C} *)\n    END_METHOD\nEND_FUNCTION_BLOCK\n",
    "NAMESPACE Plant\n    (* {C} *) FUNCTION_BLOCK Valve\n    VAR\n        open : BOOL; note : STRING := '{S}';\n    END_VAR\n        open := NOT open;\n    END_FUNCTION_BLOCK\nEND_NAMESPACE\n\nPROGRAM UseValve\nVAR\n    v : Plant.Valve; (* {C} *)\nEND_VAR\n    v();\nEND_PROGRAM\n",
    "PROGRAM A VAR s : STRING := '{S}'; n : INT; END_VAR n := n + 1; END_PROGRAM (* {C} *) PROGRAM B VAR t : INT; END_VAR t := 2; END_PROGRAM\n",
    "(* {C} *) TYPE Mode : (Off (* {C} *), Slow, Fast); END_TYPE (* {C} *) FUNCTION Twice : INT VAR_INPUT v : INT; END_VAR Twice := v * 2; END_FUNCTION\n",
    "PROGRAM K\nVAR s : STRING := '{S}'; q : BOOL; END_VAR\nq := s = '{S}'; (* {C} *) q := NOT q;\nEND_PROGRAM\n",
];

const ASCII_PIECES: &[&str] = &["abc", "motor 1", "x1", "ok", "T 42", "a-b"];
const LATIN1_PIECES: &[&str] = &["é", "größe", "ñandú", "Ærø", "±5°", "Ünïcödé"];
const CJK_PIECES: &[&str] = &["漢字", "変数", "温度", "한글", "ﾃｽﾄ", "Ωμ"];
const ASTRAL_PIECES: &[&str] = &["😀", "🚀", "𝒳", "𐍈", "🇸🇪", "👨\u{200d}👩\u{200d}👧", "𠀋", "😀😀"];
const ODD_PIECES: &[&str] = &["e\u{301}", "\u{2028}", "\u{85}", "\u{feff}", "\u{200b}", "\u{a0}"];

fn decoration(rng: &mut Rng, flavour: u64) -> String {
    let n = rng.usize(1, 3);
    let mut out = String::new();
    for i in 0..n {
        if i > 0 && rng.chance(2, 3) {
            out.push(' ');
        }
        // flavour: 0 ascii only, 1 latin1, 2 cjk, 3 astral-heavy, 4 mixed
        let class = match flavour {
            0 => 0,
            1 => *rng.pick(&[0, 1, 1]),
            2 => *rng.pick(&[0, 2, 2]),
            3 => *rng.pick(&[0, 3, 3, 3]),
            _ => rng.below(5),
        };
        let piece = match class {
            0 => *rng.pick(ASCII_PIECES),
            1 => *rng.pick(LATIN1_PIECES),
            2 => *rng.pick(CJK_PIECES),
            3 => *rng.pick(ASTRAL_PIECES),
            _ => *rng.pick(ODD_PIECES),
        };
        out.push_str(piece);
    }
    out
}

fn eol_of(style: u64, rng: &mut Rng) -> &'static str {
    match style {
        0 => "\n",
        1 => "\r\n",
        2 => "\r",
        _ => *rng.pick(&["\n", "\r\n", "\r", "\n"]),
    }
}

fn gen_text(rng: &mut Rng, flavour: u64, eol_style: u64) -> String {
    match rng.below(40) {
        0 => return String::new(),
        1 => return decoration(rng, flavour),
        2 => return format!("(* {} *)", decoration(rng, flavour)),
        3 => return eol_of(eol_style, rng).repeat(rng.usize(1, 3)),
        _ => {}
    }
    let mut src = String::new();
    let n = if rng.chance(1, 4) { 2 } else { 1 };
    for _ in 0..n {
        let t: &str = *rng.pick(TEMPLATES);
        src.push_str(t);
    }
    let mut out = String::new();
    let mut rest = src.as_str();
    while let Some(i) = rest.find('{') {
        out.push_str(&rest[..i]);
        out.push_str(&decoration(rng, flavour));
        rest = &rest[i + 3..];
    }
    out.push_str(rest);
    // line terminators
    let mut text = String::new();
    for c in out.chars() {
        if c == '\n' {
            text.push_str(eol_of(eol_style, rng));
        } else {
            text.push(c);
        }
    }
    if rng.chance(1, 3) {
        while text.ends_with('\n') || text.ends_with('\r') {
            text.pop();
        }
    }
    text
}

const IDENTS: &[&str] = &["x", "y", "Z", "speed", "Main", "cnt1", "Valve", "r", "INT", "BOOL", "END_VAR", "VAR", "Run", "tmp_2"];
const STATEMENTS: &[&str] = &["x := x + 1;", "y := 2 * x;", "q := NOT q;", "IF x > 0 THEN x := 0; END_IF;", "n : INT;", "s2 : STRING := '{S}';", "(* {C} *)", "// {C}", "r := Add(a := 1, b := 2);", "END_VAR", "VAR"];

fn pick_offset(rng: &mut Rng, text: &str, lines: &[Line], bounds: &[usize]) -> usize {
    // boundaries that have an astral / any non-ASCII character before them on the same line
    let mut after_astral = vec![];
    let mut after_nonascii = vec![];
    for l in lines {
        let (mut seen_a, mut seen_n) = (false, false);
        for (i, c) in text[l.start..l.end].char_indices() {
            if seen_a {
                after_astral.push(l.start + i);
            } else if seen_n {
                after_nonascii.push(l.start + i);
            }
            if c.len_utf16() == 2 {
                seen_a = true;
            } else if !c.is_ascii() {
                seen_n = true;
            }
        }
        if seen_a {
            after_astral.push(l.end);
        } else if seen_n {
            after_nonascii.push(l.end);
        }
    }
    match rng.below(100) {
        0..=34 if !after_astral.is_empty() => *rng.pick(&after_astral),
        35..=49 if !after_nonascii.is_empty() => *rng.pick(&after_nonascii),
        50..=61 => rng.pick(lines).end,
        62..=69 => text.len(),
        70..=73 => 0,
        _ => *rng.pick(bounds),
    }
}

/// LSP position for an offset; a line-end offset is sometimes written with a column past the end
fn encode_pos(rng: &mut Rng, text: &str, lines: &[Line], off: usize) -> (u64, u64) {
    let (l, c) = position_of(text, lines, off);
    if lines[l as usize].end == off && rng.chance(1, 4) {
        let extra = *rng.pick(&[1u64, 1, 2, 7, 1000, 2_147_483_647, 4_294_967_295]);
        return (l, (c + extra).min(4_294_967_295));
    }
    (l, c)
}

fn fill(rng: &mut Rng, pattern: &str, flavour: u64) -> String {
    let mut out = String::new();
    let mut rest = pattern;
    while let Some(i) = rest.find('{') {
        out.push_str(&rest[..i]);
        out.push_str(&decoration(rng, flavour));
        rest = &rest[i + 3..];
    }
    out.push_str(rest);
    out
}

fn ident_spans(text: &str) -> Vec<(usize, usize)> {
    let b = text.as_bytes();
    let mut out = vec![];
    let mut i = 0;
    while i < b.len() {
        if b[i].is_ascii_alphabetic() || b[i] == b'_' {
            let s = i;
            while i < b.len() && (b[i].is_ascii_alphanumeric() || b[i] == b'_') {
                i += 1;
            }
            out.push((s, i));
        } else {
            i += 1;
        }
    }
    out
}

/// One legal content change against `text` (range from real offsets).
fn gen_change(rng: &mut Rng, text: &str, flavour: u64, eol_style: u64, wild: bool) -> Json {
    let lines = lines_of(text);
    let bounds = boundaries(text);
    let kind = rng.below(100);
    if kind < 4 {
        // full-document sync
        let t = if rng.chance(1, 2) { gen_text(rng, flavour, eol_style) } else { text.to_string() };
        return json!({"t": t});
    }
    let (s, e, new_text): (usize, usize, String) = if kind < 30 {
        // insert
        let o = pick_offset(rng, text, &lines, &bounds);
        let snippet = match rng.below(10) {
            0 | 1 => "Z".to_string(),
            2 => (*rng.pick(IDENTS)).to_string(),
            3 => decoration(rng, flavour),
            4 => eol_of(eol_style, rng).to_string(),
            5 => format!("(* {} *)", decoration(rng, flavour)),
            6 => format!("'{}'", decoration(rng, flavour)),
            7 => " := 1;".to_string(),
            8 => format!("{}{}", rng.pick(IDENTS), eol_of(3, rng)),
            _ => rng.below(100).to_string(),
        };
        (o, o, snippet)
    } else if kind < 45 {
        // delete a short range
        let i = rng.usize(0, bounds.len() - 1);
        let j = (i + rng.usize(0, 6)).min(bounds.len() - 1);
        (bounds[i], bounds[j], String::new())
    } else if kind < 58 {
        // replace a range
        let a = pick_offset(rng, text, &lines, &bounds);
        let i = bounds.binary_search(&a).unwrap_or(0);
        let j = (i + rng.usize(0, 8)).min(bounds.len() - 1);
        let t = if rng.chance(1, 2) { decoration(rng, flavour) } else { (*rng.pick(IDENTS)).to_string() };
        (bounds[i], bounds[j], t)
    } else if kind < 70 {
        // rename an identifier occurrence
        let spans = ident_spans(text);
        if spans.is_empty() {
            (0, 0, "PROGRAM P END_PROGRAM".to_string())
        } else {
            let (a, b) = *rng.pick(&spans);
            (a, b, (*rng.pick(IDENTS)).to_string())
        }
    } else if kind < 82 {
        // insert a whole line
        let l = *rng.pick(&lines);
        let pattern: &'static str = *rng.pick(STATEMENTS);
        let stmt = fill(rng, pattern, flavour);
        (l.start, l.start, format!("    {stmt}{}", eol_of(eol_style, rng)))
    } else if kind < 90 {
        // edit inside a string literal or comment: right after a quote / comment opener
        let mut spots: Vec<usize> = vec![];
        for (i, c) in text.char_indices() {
            if c == '\'' || c == '"' {
                spots.push(i + 1);
            }
        }
        for (i, _) in text.match_indices("(*") {
            spots.push(i + 2);
        }
        let spots: Vec<usize> = spots.into_iter().filter(|o| bounds.binary_search(o).is_ok()).collect();
        if spots.is_empty() {
            (text.len(), text.len(), format!(" (* {} *)", decoration(rng, flavour)))
        } else {
            let o = *rng.pick(&spots);
            (o, o, decoration(rng, flavour))
        }
    } else if kind < 95 {
        // join two lines (delete a terminator) or delete a whole line
        let i = rng.usize(0, lines.len() - 1);
        let l = lines[i];
        if rng.bool() { (l.end, l.next, String::new()) } else { (l.start, l.next, String::new()) }
    } else if kind < 98 {
        // replace / delete everything through a range
        let t = if rng.bool() { String::new() } else { gen_text(rng, flavour, eol_style) };
        (0, text.len(), t)
    } else {
        // append at the very end
        (text.len(), text.len(), format!("{}(* {} *)", eol_of(eol_style, rng), decoration(rng, flavour)))
    };
    let (sl, sc) = encode_pos(rng, text, &lines, s);
    let (el, ec) = if e == s && rng.chance(3, 4) { (sl, sc) } else { encode_pos(rng, text, &lines, e) };
    let mut change = json!({"r": [sl, sc, el, ec], "t": new_text});
    if rng.chance(1, 6) {
        // deprecated optional rangeLength, as some editors still send it
        change["rl"] = json!(utf16_len(&text[s..e]));
    }
    if wild && rng.chance(1, 6) {
        // positions the protocol leaves undefined
        match rng.below(3) {
            0 => change["r"] = json!([lines.len() as u64 + rng.below(3), rng.below(4), lines.len() as u64 + 3, 0]),
            1 => {
                if let Some((i, _)) = text.char_indices().find(|(_, c)| c.len_utf16() == 2) {
                    let (l, c) = position_of(text, &lines, i);
                    change["r"] = json!([l, c + 1, l, c + 1]);
                }
            }
            _ => change["r"] = json!([el + 1, 0, sl, sc]),
        }
    }
    change
}

// ---------------------------------------------------------------------------

struct EdDoc {
    text: String,
    open: bool,
    version: i64,
    /// last semantic tokens the editor received (result id, data)
    tokens: Option<(String, Vec<Json>)>,
}

/// Violations that do not disturb the session are kept until the end of the
/// history (0: helper round trip, 1: the open range-formatting finding).
struct Deferred(Option<Violation>, Vec<(u8, Violation)>);

impl Deferred {
    fn set(&mut self, v: Violation) {
        if self.0.is_none() {
            self.0 = Some(v);
        }
    }
    /// open findings; the rarest (lowest rank) is the one reported for the case
    fn set_low(&mut self, rank: u8, v: Violation) {
        if !self.1.iter().any(|(r, _)| *r == rank) {
            self.1.push((rank, v));
        }
    }
    fn take(mut self) -> Option<Violation> {
        self.1.sort_by_key(|(r, _)| *r);
        self.0.or_else(|| self.1.into_iter().next().map(|(_, v)| v))
    }
}

fn fx(s: &str) -> u64 {
    Fnv::new().str(s).finish()
}

/// hash of an answer with the (per-process) document directory aliased away
fn fxa(s: &str) -> u64 {
    fx(&s.replace(&base_dir().display().to_string(), "BASE"))
}

impl Check for C14Check {
    fn id(&self) -> &'static str {
        "C14"
    }
    fn cases(&self, tier: Tier) -> u64 {
        match tier {
            Tier::Quick => 2_000,
            Tier::Thorough => 50_000,
        }
    }
    fn rule(&self) -> &'static str {
        "case = 1-3 documents built from 9 ST templates whose string literals and comments are filled from ASCII / Latin-1 / CJK / astral-plane / odd (combining, U+2028, NEL, BOM, ZWSP, NBSP) alphabets, with LF / CRLF / lone-CR / mixed terminators, with or without final terminator, plus empty and comment-only documents; history of 8-30 (quick) or 15-60 (thorough) editor operations: didOpen, didChange with 1-4 content changes each computed on the evolving buffer (insert, delete, replace, identifier rename, line insert, edit inside literal/comment, join/delete line, whole-range replace, append at EOF, full-text change, optional rangeLength, line-end positions written with a column past the end), didSave, didClose / re-open with other text, seeded query points (documentSymbol, semanticTokens/full, /full/delta against the editor's previous result, /range, pull diagnostic, formatting, rangeFormatting, documentHighlight at a seeded identifier - each for the server with history, the twin and the projection) plus one at the end of every history; 6% of cases also send positions the protocol leaves undefined (no such line, middle of a surrogate pair, start after end) followed by a full-text resync; later additions: reopen with a lower version, general.positionEncodings offered in 3 of 5 cases (columns are sent in the encoding the server selects), and in a third of the cases a file nobody has open that is created / changed (often back to an earlier content) / deleted on disk, whose documentSymbol / diagnostic / foldingRange answers must equal those of a fresh server. distinct non-trivial = distinct hash of the operation list of a case in which a change was applied after a non-ASCII character on the same line or a batch had >= 2 changes"
    }
    fn assumptions(&self) -> Vec<&'static str> {
        vec![
            "LSP 3.17 position model with the default UTF-16 encoding (the server negotiates none): line terminators are \\n, \\r\\n and \\r; a column past the line end means the line end; U+2028, U+0085 are not terminators",
            "an offset between \\r and \\n has no LSP position, so the offset->position->offset identity is demanded on every other character boundary",
            "positions the protocol leaves undefined (line beyond the last one, middle of a surrogate pair, start after end) may have any outcome short of a panic or hang; the editor then resynchronises with a full-text change and equality is demanded again",
            "after didClose nothing is demanded about the retained copy; on re-open the server text must be the re-opened text",
            "twin: a fresh server given each document's current text once (didOpen, plus didClose for documents the editor has closed) in first-open order with the same version numbers; result ids are not compared",
            "ASCII/LF projection is only compared when the product lexer puts every non-ASCII character inside a string literal or comment and lexes the projection into the same token kinds at the same LSP positions; diagnostics are only compared when code/severity/message sequences agree, formatting only when the edit counts agree (ranges only)",
            "semanticTokens/range must equal the tokens of semanticTokens/full that start on the requested lines, decoded from the start of the document as the LSP relative encoding prescribes (7 of 8 requests start at line 0 to stay clear of the open finding about that encoding)",
            "the two open findings (rangeFormatting line table, semanticTokens/range origin) are recorded when seen and reported at the end of the history, so they never hide a later divergence",
            "published (push) diagnostics are compared with the twin only while one document has ever been opened, because they are per-notification snapshots of a cross-file analysis",
            "the tokio runtime has no timer or IO driver: any timer use by the server in these flows would panic; no workspace folder is announced so the background indexer returns immediately",
        ]
    }
    fn components(&self) -> (Vec<&'static str>, Vec<&'static str>) {
        (
            vec![
                "tower_lsp::LspService routing + JSON (de)serialisation of every message",
                "StLanguageServer handlers: initialize/initialized, didOpen/didChange/didSave/didClose, documentSymbol, semanticTokens/full, /full/delta and /range, diagnostic (pull) and publishDiagnostics (push), formatting, rangeFormatting, documentHighlight",
                "ServerState documents + trust_hir Project/Database behind it",
                "handlers/lsp_utils position_to_offset / offset_to_position (also called directly through H8)",
            ],
            vec!["editor (reference buffer, client socket: null result to every server request)", "stdio transport (Service::call in-process instead)", "workspace indexer (no folders announced)"],
        )
    }

    fn generate(&self, rng: &mut Rng, tier: Tier, _index: u64) -> Json {
        let mut cfg = rng.fork("config");
        let mut ops_rng = rng.fork("ops");
        let pull = cfg.chance(1, 2);
        let n_docs = *cfg.pick(&[1u64, 1, 1, 2, 2, 3]);
        // per-case flavour so that a good share of cases is astral-heavy
        let flavour = *cfg.pick(&[0u64, 1, 2, 3, 3, 3, 4, 4]);
        let eol_style = *cfg.pick(&[0u64, 0, 0, 1, 1, 2, 3]);
        let wild = cfg.chance(6, 100);
        let n_ops = match tier {
            Tier::Quick => ops_rng.usize(8, 30),
            Tier::Thorough => ops_rng.usize(15, 60),
        };
        // the generator keeps its own copy of every buffer so that ranges are real
        let mut bufs: Vec<Option<String>> = vec![None; n_docs as usize];
        let mut versions = vec![0i64; n_docs as usize];
        let mut ops = vec![];
        let mut extra = rng.fork("extra");
        let reopen_low = extra.bool();
        let with_lib = extra.chance(1, 3);
        let mut lib_hist: Vec<u64> = vec![];
        for _ in 0..n_ops {
            if with_lib && extra.chance(1, 8) {
                // a file nobody has open changes on disk (file watcher): often back to an earlier content
                let variant = if lib_hist.len() >= 2 && extra.bool() { lib_hist[lib_hist.len() - 2] } else { extra.below(5) };
                lib_hist.push(variant);
                ops.push(json!({"k": "lib", "variant": variant}));
            }
            let d = ops_rng.below(n_docs) as usize;
            match bufs[d].clone() {
                None => {
                    // a reopened document often restarts its version numbering (a new editor buffer)
                    if versions[d] > 0 && reopen_low {
                        versions[d] = ops_rng.range(0, versions[d] - 1);
                    } else {
                        versions[d] += ops_rng.range(1, 3);
                    }
                    let text = gen_text(&mut ops_rng, flavour, eol_style);
                    ops.push(json!({"k": "open", "d": d, "v": versions[d], "text": text}));
                    bufs[d] = Some(text);
                }
                Some(mut text) => {
                    let r = ops_rng.below(100);
                    if r < 6 {
                        ops.push(json!({"k": "close", "d": d}));
                        bufs[d] = None;
                    } else if r < 10 {
                        ops.push(json!({"k": "save", "d": d, "with_text": ops_rng.bool()}));
                    } else if r < 13 {
                        // the file watcher reports the file of an OPEN document (created / changed on disk with other
                        // content): the editor's buffer stays the truth
                        ops.push(json!({"k": "watched", "d": d, "type": ops_rng.range(1, 3), "disk": ops_rng.below(3)}));
                    } else if r < 18 {
                        ops.push(json!({"k": "query", "hl": ops_rng.below(1000), "rf": [ops_rng.below(1000), ops_rng.below(1000)]}));
                    } else {
                        let n_changes = *ops_rng.pick(&[1usize, 1, 1, 1, 2, 2, 3, 4, 0]);
                        let mut changes = vec![];
                        let mut undefined = false;
                        for _ in 0..n_changes {
                            let ch = gen_change(&mut ops_rng, &text, flavour, eol_style, wild);
                            let applied = editor_apply(&text, &ch);
                            changes.push(ch);
                            match applied {
                                Ok(t) => text = t,
                                Err(()) => {
                                    undefined = true;
                                    break;
                                }
                            }
                        }
                        versions[d] += ops_rng.range(1, 2);
                        ops.push(json!({"k": "change", "d": d, "v": versions[d], "changes": changes}));
                        if undefined {
                            // the run keeps the editor buffer and resynchronises with one more version
                            versions[d] += 1;
                        } else {
                            bufs[d] = Some(text);
                        }
                    }
                }
            }
        }
        // what the editor offers in general.positionEncodings (the editor then uses whatever the server selects)
        let offer = *extra.pick(&[0u64, 0, 1, 2, 3]);
        json!({"pull": pull, "final_hl": cfg.below(1000), "final_rf": [cfg.below(1000), cfg.below(1000)], "offer": offer, "ops": ops})
    }

    fn shrink(&self, case: &Json) -> Vec<Json> {
        let mut out = crate::framework::shrink_generic(case);
        let Some(ops) = case["ops"].as_array() else { return out };
        // drop single changes from batches, then shorten opened texts line by line
        for (i, op) in ops.iter().enumerate() {
            if let Some(changes) = op["changes"].as_array() {
                if changes.len() > 1 {
                    for j in 0..changes.len() {
                        let mut c = changes.clone();
                        c.remove(j);
                        let mut o = ops.clone();
                        o[i]["changes"] = Json::Array(c);
                        let mut n = case.clone();
                        n["ops"] = Json::Array(o);
                        out.push(n);
                    }
                }
            }
        }
        // fold a document's history up to some change into one didOpen of the editor's text at that point
        let mut doc_ids: Vec<u64> = ops.iter().filter_map(|o| o["d"].as_u64()).collect();
        doc_ids.sort_unstable();
        doc_ids.dedup();
        for d in doc_ids {
            let mut text: Option<String> = None;
            let mut version = 1i64;
            let mut first: Option<usize> = None;
            let mut folds: Vec<(usize, String, i64)> = vec![];
            for (i, op) in ops.iter().enumerate() {
                if op["d"].as_u64() != Some(d) {
                    continue;
                }
                first.get_or_insert(i);
                match op["k"].as_str().unwrap_or("") {
                    "open" if text.is_none() => {
                        text = Some(op["text"].as_str().unwrap_or("").to_string());
                        version = op["v"].as_i64().unwrap_or(1);
                    }
                    "change" => {
                        let Some(t) = text.clone() else { continue };
                        let mut cur = Some(t);
                        for ch in op["changes"].as_array().into_iter().flatten() {
                            cur = cur.and_then(|t| editor_apply(&t, ch).ok());
                        }
                        match cur {
                            Some(t) => {
                                version = op["v"].as_i64().unwrap_or(version + 1);
                                folds.push((i, t.clone(), version));
                                text = Some(t);
                            }
                            None => break, // undefined position: the resync makes later folds meaningless
                        }
                    }
                    "close" => break,
                    _ => {}
                }
            }
            let Some(first) = first else { continue };
            for (i, t, v) in folds.into_iter().rev() {
                let mut o: Vec<Json> = vec![];
                for (j, op) in ops.iter().enumerate() {
                    if j == first {
                        o.push(json!({"k": "open", "d": d, "v": v, "text": t}));
                    }
                    if j <= i && op["d"].as_u64() == Some(d) && op["k"] != "query" {
                        continue;
                    }
                    o.push(op.clone());
                }
                let mut n = case.clone();
                n["ops"] = Json::Array(o);
                out.push(n);
            }
        }
        for (i, op) in ops.iter().enumerate() {
            if op["k"] == "open" {
                let text = op["text"].as_str().unwrap_or("");
                let lines = lines_of(text);
                if lines.len() > 1 {
                    // keep only the last line, then try removing trailing lines
                    for keep_from in [lines.len() - 1, lines.len() / 2] {
                        let mut o = ops.clone();
                        o[i]["text"] = json!(&text[lines[keep_from].start..]);
                        let mut n = case.clone();
                        n["ops"] = Json::Array(o);
                        out.push(n);
                    }
                    for keep_to in [1, lines.len() / 2, lines.len() - 1] {
                        let mut o = ops.clone();
                        o[i]["text"] = json!(&text[..lines[keep_to.max(1) - 1].end]);
                        let mut n = case.clone();
                        n["ops"] = Json::Array(o);
                        out.push(n);
                    }
                }
            }
        }
        out
    }

    fn run(&self, case: &Json, stats: &mut Stats) -> Result<(), Violation> {
        for p in [
            "probe.astral_before_edit_same_line",
            "probe.bmp_nonascii_before_edit_same_line",
            "probe.multi_change_batch",
            "probe.full_text_change_inside_batch",
            "probe.edit_at_eof",
            "probe.column_past_line_end",
            "probe.range_spans_terminator",
            "probe.edit_in_crlf_document",
            "probe.edit_after_lone_cr",
            "probe.reopen_with_other_text",
            "probe.two_documents_open",
            "probe.empty_document",
            "probe.undefined_position_then_resync",
            "probe.symbol_after_astral_same_line",
            "probe.token_after_astral_same_line",
            "probe.projection_compared",
            "probe.projection_not_applicable",
            "probe.tokens_delta_applied",
            "probe.push_diagnostics_compared",
            "probe.twin_comparison_with_diagnostics",
            "probe.formatting_edit_compared",
            "probe.highlight_compared",
            "probe.range_formatting_edit_compared",
            "probe.tokens_range_compared",
        ] {
            stats.add(p, 0);
        }
        let rt = match tokio::runtime::Builder::new_current_thread().build() {
            Ok(rt) => rt,
            Err(e) => return Err(Violation::new("harness/runtime", e.to_string())),
        };
        let pull = case["pull"].as_bool().unwrap_or(false);
        let ops = case["ops"].as_array().cloned().unwrap_or_default();
        let offer = case["offer"].as_u64().unwrap_or(0);
        let mut primary = guard("initialize", || rt.block_on(Session::start_offering(pull, offer)))?;
        stats.inc(&format!("negotiated.{}", primary.encoding));
        if primary.encoding != "utf-16" {
            stats.inc("probe.server_selected_other_encoding");
        }
        let mut lib_known = false;
        let mut lib_session: Option<Session> = None;
        let mut lib_hist_seen: Vec<u64> = vec![];
        let _ = std::fs::remove_file(path_of(LIB_DOC));
        if primary.server_requests.is_empty() {
            return Err(Violation::new("harness/no-server-request-seen", "initialized did not register capabilities through the client socket"));
        }
        let mut docs: BTreeMap<u64, EdDoc> = BTreeMap::new();
        let mut order: Vec<u64> = vec![];
        let mut deferred = Deferred(None, vec![]);
        let mut interesting = false;
        if stats.samples.len() < 2 {
            stats.sample(json!({"pull": pull, "ops": ops.iter().take(4).cloned().collect::<Vec<_>>()}));
        }

        for (opi, op) in ops.iter().enumerate() {
            let kind = op["k"].as_str().unwrap_or("");
            let d = op["d"].as_u64().unwrap_or(0);
            let uri = uri_of(d);
            match kind {
                "open" => {
                    if docs.get(&d).is_some_and(|e| e.open) {
                        continue;
                    }
                    let text = op["text"].as_str().unwrap_or("").to_string();
                    let version = op["v"].as_i64().unwrap_or(1);
                    let retained = docs.get(&d).map(|e| e.text.clone());
                    guard("didOpen", || rt.block_on(primary.open(&uri, version, &text)))?;
                    if !order.contains(&d) {
                        order.push(d);
                    }
                    if retained.as_ref().is_some_and(|r| *r != text) {
                        stats.inc("probe.reopen_with_other_text");
                    }
                    if text.is_empty() {
                        stats.inc("probe.empty_document");
                    }
                    docs.insert(d, EdDoc { text: text.clone(), open: true, version, tokens: None });
                    let server = primary.text(&uri);
                    if server.as_deref() != Some(text.as_str()) {
                        let sig = match (&server, &retained) {
                            (None, _) => "text/open-document-missing",
                            (Some(s), Some(r)) if s == r => "text/reopen-kept-old-text",
                            _ => "text/open-mismatch",
                        };
                        return Err(Violation::new(
                            sig,
                            format!("op {opi} didOpen doc{d}: {}", first_diff(&text, server.as_deref().unwrap_or(""))),
                        ));
                    }
                    stats.inc("notifications");
                    stats.log(&format!("{opi}:open:{d}:{}", fx(&text)));
                    check_roundtrip(&text, opi, &mut deferred, stats)?;
                }
                "change" => {
                    let Some(doc) = docs.get_mut(&d).filter(|e| e.open) else { continue };
                    let changes = op["changes"].as_array().cloned().unwrap_or_default();
                    let version = op["v"].as_i64().unwrap_or(doc.version + 1).max(doc.version + 1);
                    let before = doc.text.clone();
                    // the editor's own buffer
                    let mut after = Some(before.clone());
                    let mut wire = vec![];
                    for ch in &changes {
                        let after_before_this = after.clone();
                        if let Some(t) = &after {
                            coverage_of_change(t, ch, stats, &mut interesting);
                            after = editor_apply(t, ch).ok();
                        }
                        let mut w = json!({"text": ch["t"].as_str().unwrap_or("")});
                        if let Some(r) = ch["r"].as_array() {
                            let g = |i: usize| r.get(i).and_then(Json::as_u64).unwrap_or(0);
                            // columns in the negotiated encoding, computed on the buffer this change applies to
                            let basis = after_before_this.as_deref().unwrap_or("");
                            let (c0, c1) = (recode_column(basis, g(0), g(1), &primary.encoding), recode_column(basis, g(2), g(3), &primary.encoding));
                            w["range"] = json!({"start": {"line": g(0), "character": c0}, "end": {"line": g(2), "character": c1}});
                            if let Some(rl) = ch["rl"].as_u64() {
                                w["rangeLength"] = json!(rl);
                            }
                        } else if changes.len() >= 2 {
                            stats.inc("probe.full_text_change_inside_batch");
                        }
                        wire.push(w);
                    }
                    if changes.len() >= 2 {
                        stats.inc("probe.multi_change_batch");
                        interesting = true;
                    }
                    let params = json!({"textDocument": {"uri": uri, "version": version}, "contentChanges": wire});
                    guard("didChange", || rt.block_on(primary.notify("textDocument/didChange", params)))?;
                    doc.version = version;
                    stats.inc("notifications");
                    match after {
                        Some(after) => {
                            doc.text = after.clone();
                            let server = primary.text(&uri);
                            if server.as_deref() != Some(after.as_str()) {
                                let cause = cause_of_changes(&before, &changes);
                                let server = server.unwrap_or_default();
                                let what = if server == before && after != before {
                                    "text/change-dropped"
                                } else if changes.len() >= 2 && cause == "other" {
                                    "text/diverged/multi-change-batch"
                                } else {
                                    "text/diverged"
                                };
                                let sig = if what.ends_with("batch") { what.to_string() } else { format!("{what}/{cause}") };
                                return Err(Violation::new(
                                    sig,
                                    format!(
                                        "op {opi} didChange doc{d} v{version} ({} change(s): {}): {}",
                                        changes.len(),
                                        short(&Json::Array(changes.clone())),
                                        first_diff(&after, &server)
                                    ),
                                ));
                            }
                            stats.log(&format!("{opi}:change:{d}:{}", fx(&after)));
                            check_roundtrip(&after, opi, &mut deferred, stats)?;
                        }
                        None => {
                            // undefined position: any outcome; the editor keeps its buffer and resynchronises
                            stats.inc("probe.undefined_position_then_resync");
                            stats.inc("fault.undefined_position_in_change");
                            doc.version += 1;
                            let v = doc.version;
                            let params = json!({"textDocument": {"uri": uri, "version": v}, "contentChanges": [{"text": before}]});
                            guard("didChange(resync)", || rt.block_on(primary.notify("textDocument/didChange", params)))?;
                            let server = primary.text(&uri);
                            if server.as_deref() != Some(before.as_str()) {
                                return Err(Violation::new(
                                    "text/diverged/after-full-text-resync",
                                    format!("op {opi} doc{d}: {}", first_diff(&before, server.as_deref().unwrap_or(""))),
                                ));
                            }
                            stats.log(&format!("{opi}:resync:{d}:{}", fx(&before)));
                        }
                    }
                }
                "watched" => {
                    if !docs.get(&d).is_some_and(|e| e.open) {
                        continue;
                    }
                    let disk_text = match op["disk"].as_u64().unwrap_or(0) {
                        0 => "PROGRAM DiskOnly\nVAR\n  disk_counter : DINT;\nEND_VAR\ndisk_counter := disk_counter + 1;\nEND_PROGRAM\n",
                        1 => "FUNCTION DiskFn : INT\nDiskFn := 1;\nEND_FUNCTION\n",
                        _ => "",
                    };
                    let path = path_of(d);
                    let _ = std::fs::write(&path, disk_text);
                    let params = json!({"changes": [{"uri": uri, "type": op["type"].as_u64().unwrap_or(2)}]});
                    guard("didChangeWatchedFiles", || rt.block_on(primary.notify("workspace/didChangeWatchedFiles", params)))?;
                    // the file disappears again before anything else happens (a closed document must not be re-read from it)
                    let _ = std::fs::remove_file(&path);
                    stats.inc("notifications");
                    stats.inc("fault.watched_file_event_for_open_document");
                    stats.log(&format!("{opi}:watched:{d}"));
                    // the server's copy must still be the editor's buffer
                    if let Some(doc) = docs.get(&d) {
                        let server = primary.text(&uri);
                        if server.as_deref() != Some(doc.text.as_str()) {
                            return Err(Violation::new(
                                "text/diverged/after-watched-file-event",
                                format!("op {opi} doc{d}: after a file-watcher event the server holds {:?}", server.as_deref().map(|t| t.chars().take(60).collect::<String>())),
                            ));
                        }
                    }
                    // and so must the analysis: compare the answers with the twin right away
                    compare_all(&rt, &mut primary, &mut docs, &order, pull, opi, 0, (0, 999), &mut deferred, stats)?;
                }
                "lib" => {
                    // a file that no editor has open changes on disk; the server learns it from the file watcher only.
                    // Oracle: its symbols and diagnostics equal those of a fresh server that saw only the final content.
                    let lib = LIB_DOC;
                    let (luri, lpath) = (uri_of(lib), path_of(lib));
                    let variant = op["variant"].as_u64().unwrap_or(0);
                    let content: Option<&str> = match variant {
                        0 => Some("FUNCTION LibFn : INT\nLibFn := 1;\nEND_FUNCTION\n"),
                        1 => Some("FUNCTION LibOther : DINT\nVAR\n  x : DINT;\nEND_VAR\nLibOther := x + 2;\nEND_FUNCTION\n"),
                        2 => Some(""),
                        3 => Some("FUNCTION LibFn : INT\nLibFn := ;\nEND_FUNCTION\n"),
                        _ => None, // deleted
                    };
                    let ty = match content {
                        Some(c) => {
                            let _ = std::fs::write(&lpath, c);
                            if lib_known { 2 } else { 1 }
                        }
                        None => {
                            let _ = std::fs::remove_file(&lpath);
                            3
                        }
                    };
                    lib_known = content.is_some();
                    // a server of its own: a project-wide lint or a duplicate name caused by this file must not leak into
                    // what the editor documents' server answers (cross-file freshness of pushed diagnostics is not C14's subject)
                    if lib_session.is_none() {
                        lib_session = Some(guard("initialize", || rt.block_on(Session::start(pull)))?);
                    }
                    let Some(lib_primary) = lib_session.as_mut() else { continue };
                    guard("didChangeWatchedFiles", || rt.block_on(lib_primary.notify("workspace/didChangeWatchedFiles", json!({"changes": [{"uri": luri, "type": ty}]}))))?;
                    stats.inc("notifications");
                    stats.inc("fault.watched_file_event_for_closed_file");
                    stats.log(&format!("{opi}:lib:{variant}"));
                    let mut twin = guard("twin initialize", || rt.block_on(Session::start(pull)))?;
                    if content.is_some() {
                        guard("twin didChangeWatchedFiles", || rt.block_on(twin.notify("workspace/didChangeWatchedFiles", json!({"changes": [{"uri": luri, "type": 1}]}))))?;
                    }
                    let td = json!({"textDocument": {"uri": luri}});
                    for method in ["textDocument/documentSymbol", "textDocument/diagnostic", "textDocument/foldingRange"] {
                        let mut a = guard(method, || rt.block_on(lib_primary.request(method, td.clone())))?;
                        let mut b = guard(method, || rt.block_on(twin.request(method, td.clone())))?;
                        // the result id is a per-server counter, not an answer about the text
                        for j in [&mut a, &mut b] {
                            if let Some(o) = j.as_object_mut() {
                                o.remove("resultId");
                            }
                        }
                        if fxa(&a.to_string()) != fxa(&b.to_string()) {
                            return Err(Violation::new(
                                format!("watched/closed-file-analysis-stale/{}", method.rsplit('/').next().unwrap_or("")),
                                format!("op {opi}: after the file watcher reported content variant {variant} of a file nobody has open, {method} answers {} where a fresh server that saw only this content answers {}", a.to_string().chars().take(300).collect::<String>(), b.to_string().chars().take(300).collect::<String>()),
                            ));
                        }
                    }
                    if lib_hist_seen.contains(&variant) {
                        stats.inc("probe.closed_file_reverted_to_earlier_content");
                    }
                    lib_hist_seen.push(variant);
                }
                "save" => {
                    let Some(doc) = docs.get(&d).filter(|e| e.open) else { continue };
                    let mut params = json!({"textDocument": {"uri": uri}});
                    if op["with_text"].as_bool().unwrap_or(false) {
                        params["text"] = json!(doc.text);
                    }
                    guard("didSave", || rt.block_on(primary.notify("textDocument/didSave", params)))?;
                    stats.inc("notifications");
                    stats.log(&format!("{opi}:save:{d}"));
                }
                "close" => {
                    let Some(doc) = docs.get_mut(&d).filter(|e| e.open) else { continue };
                    guard("didClose", || rt.block_on(primary.close(&uri)))?;
                    doc.open = false;
                    doc.tokens = None;
                    stats.inc("notifications");
                    stats.log(&format!("{opi}:close:{d}"));
                }
                "query" => {
                    let rf = (op["rf"][0].as_u64().unwrap_or(0), op["rf"][1].as_u64().unwrap_or(999));
                    compare_all(&rt, &mut primary, &mut docs, &order, pull, opi, op["hl"].as_u64().unwrap_or(0), rf, &mut deferred, stats)?;
                }
                _ => {}
            }
            // every open document, after every notification
            for (dd, e) in docs.iter().filter(|(_, e)| e.open) {
                let server = primary.text(&uri_of(*dd));
                if server.as_deref() != Some(e.text.as_str()) {
                    return Err(Violation::new(
                        "text/other-document-changed",
                        format!("op {opi} ({kind} doc{d}): doc{dd} differs: {}", first_diff(&e.text, server.as_deref().unwrap_or(""))),
                    ));
                }
            }
            let open = docs.values().filter(|e| e.open).count();
            if open >= 2 {
                stats.inc("probe.two_documents_open");
            }
            let mut sh = Fnv::new();
            sh.u64(open as u64);
            for e in docs.values() {
                sh.u64(u64::from(e.open)).u64(abstract_text(&e.text));
            }
            sh.str(kind);
            stats.state(sh.finish());
        }
        let rf = (case["final_rf"][0].as_u64().unwrap_or(0), case["final_rf"][1].as_u64().unwrap_or(999));
        compare_all(&rt, &mut primary, &mut docs, &order, pull, ops.len(), case["final_hl"].as_u64().unwrap_or(0), rf, &mut deferred, stats)?;
        if interesting {
            stats.nontrivial(fx(&Json::Array(ops).to_string()));
        }
        if let Some(v) = deferred.take() {
            return Err(v);
        }
        Ok(())
    }
}

/// eol kinds, character classes, size bucket
fn abstract_text(text: &str) -> u64 {
    let b = text.as_bytes();
    let mut bits = 0u64;
    for (i, c) in text.char_indices() {
        match c {
            '\n' if i > 0 && b[i - 1] == b'\r' => bits |= 1,
            '\n' => bits |= 2,
            '\r' if i + 1 >= b.len() || b[i + 1] != b'\n' => bits |= 4,
            c if c.len_utf16() == 2 => bits |= 8,
            c if c.len_utf8() == 3 => bits |= 16,
            c if c.len_utf8() == 2 => bits |= 32,
            _ => {}
        }
    }
    if text.ends_with('\n') || text.ends_with('\r') {
        bits |= 64;
    }
    let size = match text.len() {
        0 => 0,
        1..=40 => 1,
        41..=200 => 2,
        201..=600 => 3,
        _ => 4,
    };
    bits | (size << 8) | ((lines_of(text).len().min(40) as u64) << 12)
}

fn coverage_of_change(text: &str, ch: &Json, stats: &mut Stats, interesting: &mut bool) {
    let Some(r) = ch["r"].as_array() else { return };
    let g = |i: usize| r.get(i).and_then(Json::as_u64).unwrap_or(0);
    let lines = lines_of(text);
    let b = text.as_bytes();
    if b.windows(2).any(|w| w == b"\r\n") {
        stats.inc("probe.edit_in_crlf_document");
    }
    for (l, c) in [(g(0), g(1)), (g(2), g(3))] {
        let Some(line) = lines.get(l as usize) else { continue };
        let len = utf16_len(&text[line.start..line.end]);
        if c > len {
            stats.inc("probe.column_past_line_end");
        }
        if let Resolved::At(o) = resolve(text, &lines, l, c) {
            let before = &text[line.start..o];
            if before.chars().any(|x| x.len_utf16() == 2) {
                stats.inc("probe.astral_before_edit_same_line");
                *interesting = true;
            } else if !before.is_ascii() {
                stats.inc("probe.bmp_nonascii_before_edit_same_line");
                *interesting = true;
            }
            if o == text.len() {
                stats.inc("probe.edit_at_eof");
            }
            if lines[..l as usize].iter().any(|p| p.next == p.end + 1 && b[p.end] == b'\r') {
                stats.inc("probe.edit_after_lone_cr");
            }
        }
    }
    if g(0) != g(2) {
        stats.inc("probe.range_spans_terminator");
    }
}

/// offset -> position -> offset through the server's own helpers (H8), on every
/// position-denotable character boundary; plus the column-past-line-end rule.
/// A failure is deferred to the end of the history so that a text divergence
/// with the same root is reported by its own, more direct signature.
fn check_roundtrip(text: &str, opi: usize, deferred: &mut Deferred, stats: &mut Stats) -> Result<(), Violation> {
    if deferred.0.is_some() {
        return Ok(());
    }
    let lines = lines_of(text);
    let mut bounds = boundaries(text);
    if bounds.len() > 500 {
        // long text: every boundary near a non-ASCII char or a terminator, and every 7th otherwise
        let b = text.as_bytes();
        let near = |o: usize| {
            let lo = o.saturating_sub(5);
            let hi = (o + 5).min(b.len());
            b[lo..hi].iter().any(|x| *x >= 0x80 || *x == b'\r' || *x == b'\n')
        };
        let mut k = 0;
        bounds.retain(|o| {
            k += 1;
            k % 7 == 0 || near(*o)
        });
    }
    stats.add("roundtrip_offsets", bounds.len() as u64);
    let text_owned = text.to_string();
    let found = guard("offset/position helpers", move || {
        let text = text_owned.as_str();
        for &o in &bounds {
            let want = position_of(text, &lines, o);
            let got = trust_lsp::verif_offset_to_position(text, o as u32);
            if (u64::from(got.0), u64::from(got.1)) != want {
                let cause = cause_at(text, want.0, want.1);
                return Some((
                    format!("roundtrip/offset-to-position/{cause}"),
                    format!("offset {o}: server position ({}, {}), editor (UTF-16) position ({}, {})", got.0, got.1, want.0, want.1),
                ));
            }
            let back = trust_lsp::verif_position_to_offset(text, want.0 as u32, want.1 as u32);
            if back != Some(o as u32) {
                let cause = cause_at(text, want.0, want.1);
                return Some((
                    format!("roundtrip/position-to-offset/{cause}"),
                    format!("position ({}, {}) is offset {o} in the editor, server says {back:?}", want.0, want.1),
                ));
            }
        }
        for (li, l) in lines.iter().enumerate() {
            let len = utf16_len(&text[l.start..l.end]);
            for extra in [1u64, 3, 4_294_967_295] {
                let ch = (len + extra).min(4_294_967_295) as u32;
                let got = trust_lsp::verif_position_to_offset(text, li as u32, ch);
                if got != Some(l.end as u32) {
                    let cause = cause_at(text, li as u64, u64::from(ch));
                    return Some((
                        format!("roundtrip/column-past-line-end/{cause}"),
                        format!("position ({li}, {ch}) on a line of {len} units must mean the line end (offset {}), server says {got:?}", l.end),
                    ));
                }
            }
        }
        None
    })?;
    if let Some((sig, detail)) = found {
        deferred.set(Violation::new(sig, format!("text after op {opi}: {detail}; text {:?}", clip(text))));
    }
    Ok(())
}

fn clip(text: &str) -> String {
    text.chars().take(160).collect()
}

fn strip_result_ids(v: &Json) -> Json {
    match v {
        Json::Object(m) => Json::Object(m.iter().filter(|(k, _)| k.as_str() != "resultId").map(|(k, v)| (k.clone(), strip_result_ids(v))).collect()),
        Json::Array(a) => Json::Array(a.iter().map(strip_result_ids).collect()),
        other => other.clone(),
    }
}

/// Compare the primary's answers for every open document with a twin and with the projection.
fn compare_all(
    rt: &tokio::runtime::Runtime,
    primary: &mut Session,
    docs: &mut BTreeMap<u64, EdDoc>,
    order: &[u64],
    pull: bool,
    opi: usize,
    hl: u64,
    rf: (u64, u64),
    deferred: &mut Deferred,
    stats: &mut Stats,
) -> Result<(), Violation> {
    if !docs.values().any(|e| e.open) {
        return Ok(());
    }
    // twin: current texts, one didOpen each
    let mut twin = guard("twin initialize", || rt.block_on(Session::start(pull)))?;
    for d in order {
        let e = &docs[d];
        guard("twin didOpen", || rt.block_on(twin.open(&uri_of(*d), e.version, &e.text)))?;
        if !e.open {
            guard("twin didClose", || rt.block_on(twin.close(&uri_of(*d))))?;
        }
    }
    // projection: same, with projected texts (only if every document projects)
    let projected: Option<BTreeMap<u64, String>> = order.iter().map(|d| project(&docs[d].text).map(|p| (*d, p))).collect();
    let mut proj = match &projected {
        Some(texts) if texts.iter().any(|(d, p)| *p != docs[d].text) => {
            let mut s = guard("projection initialize", || rt.block_on(Session::start(pull)))?;
            for d in order {
                guard("projection didOpen", || rt.block_on(s.open(&uri_of(*d), docs[d].version, &texts[d])))?;
                if !docs[d].open {
                    guard("projection didClose", || rt.block_on(s.close(&uri_of(*d))))?;
                }
            }
            Some(s)
        }
        Some(_) => None, // already ASCII + LF: the twin says it all
        None => {
            stats.inc("probe.projection_not_applicable");
            None
        }
    };
    let open: Vec<u64> = order.iter().copied().filter(|d| docs[d].open).collect();
    for d in open {
        let uri = uri_of(d);
        let text = docs[&d].text.clone();
        // incremental tokens first (uses the server's cache of the previous answer)
        if let Some((prev_id, prev_data)) = docs[&d].tokens.clone() {
            let params = json!({"textDocument": {"uri": uri}, "previousResultId": prev_id});
            let delta = guard("semanticTokens/full/delta", || rt.block_on(primary.request("textDocument/semanticTokens/full/delta", params)))?;
            let rebuilt: Option<Vec<Json>> = if let Some(edits) = delta["edits"].as_array() {
                let mut data = prev_data.clone();
                let mut ok = true;
                // edits are all expressed against the previous array: apply back to front
                let mut sorted: Vec<&Json> = edits.iter().collect();
                sorted.sort_by_key(|e| std::cmp::Reverse(e["start"].as_u64().unwrap_or(0)));
                for e in sorted {
                    let s = e["start"].as_u64().unwrap_or(0) as usize;
                    let n = e["deleteCount"].as_u64().unwrap_or(0) as usize;
                    if s + n > data.len() {
                        ok = false;
                        break;
                    }
                    let ins: Vec<Json> = e["data"].as_array().cloned().unwrap_or_default();
                    data.splice(s..s + n, ins);
                }
                stats.inc("probe.tokens_delta_applied");
                ok.then_some(data)
            } else {
                delta["data"].as_array().cloned()
            };
            let tw = guard("twin semanticTokens/full", || rt.block_on(twin.request("textDocument/semanticTokens/full", json!({"textDocument": {"uri": uri}}))))?;
            if rebuilt.as_ref() != tw["data"].as_array() {
                return Err(Violation::new(
                    "answers/tokens-delta-differs-from-twin",
                    format!("query at op {opi} doc{d}: tokens rebuilt from the delta answer {} != twin {}", short(&json!(rebuilt)), short(&tw["data"])),
                ));
            }
        }
        let ask = ask_for(&text, hl, rf);
        let a = guard("primary requests", || rt.block_on(answers(primary, &uri, ask)))?;
        let b = guard("twin requests", || rt.block_on(answers(&mut twin, &uri, ask)))?;
        if let (Some(id), Some(data)) = (&a.tokens_result_id, a.tokens.as_array()) {
            docs.get_mut(&d).unwrap().tokens = Some((id.clone(), data.clone()));
        }
        stats.log(&format!(
            "{opi}:query:{d}:{}:{}:{}:{}:{}:{}",
            fxa(&a.symbols.to_string()),
            fxa(&a.tokens.to_string()),
            fxa(&strip_result_ids(&a.diagnostics).to_string()),
            fxa(&a.formatting.to_string()),
            fxa(&a.highlight.to_string()),
            fxa(&a.range_formatting.to_string())
        ));
        for (what, x, y) in [
            ("symbols", &a.symbols, &b.symbols),
            ("tokens", &a.tokens, &b.tokens),
            ("diagnostics", &a.diagnostics, &b.diagnostics),
            ("formatting", &a.formatting, &b.formatting),
            ("highlights", &a.highlight, &b.highlight),
            ("range-formatting", &a.range_formatting, &b.range_formatting),
            ("tokens-range", &a.tokens_range, &b.tokens_range),
        ] {
            if strip_result_ids(x) != strip_result_ids(y) {
                return Err(Violation::new(
                    format!("answers/{what}-differs-from-twin"),
                    format!("query at op {opi} doc{d}: server with history {} != twin {}; text {:?}", short(x), short(y), clip(&text)),
                ));
            }
        }
        if a.diagnostics.as_array().is_some_and(|x| !x.is_empty()) {
            stats.inc("probe.twin_comparison_with_diagnostics");
        }
        if a.formatting.as_array().is_some_and(|x| !x.is_empty()) {
            stats.inc("probe.formatting_edit_compared");
        }
        if a.highlight.as_array().is_some_and(|x| !x.is_empty()) {
            stats.inc("probe.highlight_compared");
        }
        if a.range_formatting.as_array().is_some_and(|x| !x.is_empty()) {
            stats.inc("probe.range_formatting_edit_compared");
        }
        if order.len() == 1 && !pull {
            stats.inc("probe.push_diagnostics_compared");
            if a.published != b.published {
                return Err(Violation::new(
                    "answers/published-diagnostics-differ-from-twin",
                    format!("query at op {opi} doc{d}: last published {} != twin {}", short(&a.published), short(&b.published)),
                ));
            }
        }
        // semanticTokens/range must be the tokens of semanticTokens/full that start inside the
        // range, in the same encoding (the first token relative to the start of the document)
        if let (Some(full), Some(part)) = (decode_tokens(&a.tokens), decode_tokens(&a.tokens_range)) {
            let (l0, l1) = ask.token_lines;
            let want: Vec<[u64; 5]> = full.iter().copied().filter(|t| t[0] >= l0 && t[0] <= l1).collect();
            if !want.is_empty() {
                stats.inc("probe.tokens_range_compared");
            }
            if part != want {
                let relative_to_range = {
                    // what the answer means if it were relative to the range start
                    let mut shifted = part.clone();
                    for t in shifted.iter_mut() {
                        t[0] += l0;
                    }
                    shifted == want
                };
                let sig = if relative_to_range { "answers/tokens-range-relative-to-range-start" } else { "answers/tokens-range-differs-from-full" };
                let v = Violation::new(
                    sig,
                    format!(
                        "query at op {opi} doc{d}: semanticTokens/range for lines {l0}..={l1} decodes to (line,col,len,type,mods) {:?}, the tokens of semanticTokens/full in that range are {:?}",
                        part.iter().take(4).collect::<Vec<_>>(),
                        want.iter().take(4).collect::<Vec<_>>()
                    ),
                );
                if relative_to_range {
                    deferred.set_low(1, v);
                } else {
                    return Err(v);
                }
            }
        }
        // well-formedness against the editor's text: no answer may point into a surrogate pair or past the last line
        let lines = lines_of(&text);
        coverage_of_answers(&text, &lines, &a, stats);
        if let Some(p) = proj.as_mut() {
            let c = guard("projection requests", || rt.block_on(answers(p, &uri, ask)))?;
            stats.inc("probe.projection_compared");
            compare_projection(&text, &projected.as_ref().unwrap()[&d], &a, &c, opi, d, deferred)?;
        }
    }
    Ok(())
}

fn coverage_of_answers(text: &str, lines: &[Line], a: &Answers, stats: &mut Stats) {
    let astral_before = |line: u64, col: u64| -> bool {
        let Some(l) = lines.get(line as usize) else { return false };
        let mut c = 0u64;
        for ch in text[l.start..l.end].chars() {
            if c >= col {
                break;
            }
            if ch.len_utf16() == 2 {
                return true;
            }
            c += ch.len_utf16() as u64;
        }
        false
    };
    for s in a.symbols.as_array().into_iter().flatten() {
        let st = &s["location"]["range"]["start"];
        if astral_before(st["line"].as_u64().unwrap_or(0), st["character"].as_u64().unwrap_or(0)) {
            stats.inc("probe.symbol_after_astral_same_line");
        }
    }
    for t in decode_tokens(&a.tokens).unwrap_or_default() {
        if astral_before(t[0], t[1]) {
            stats.inc("probe.token_after_astral_same_line");
        }
    }
}

fn ranges_of(v: &Json, out: &mut Vec<Json>) {
    match v {
        Json::Object(m) => {
            for (k, x) in m {
                if k == "range" {
                    out.push(x.clone());
                } else {
                    ranges_of(x, out);
                }
            }
        }
        Json::Array(a) => a.iter().for_each(|x| ranges_of(x, out)),
        _ => {}
    }
}

/// The projection has the same LSP positions for every token, so every
/// position in the server's answers must be the same for both texts.
fn compare_projection(text: &str, ptext: &str, a: &Answers, c: &Answers, opi: usize, d: u64, deferred: &mut Deferred) -> Result<(), Violation> {
    let cause = |range: &Json| -> &'static str {
        let mut best = "other";
        for end in ["start", "end"] {
            let cse = cause_at(text, range[end]["line"].as_u64().unwrap_or(0), range[end]["character"].as_u64().unwrap_or(0));
            if cse != "other" {
                best = cse;
                break;
            }
        }
        if best == "other" && !text.is_ascii() {
            "non-ascii-elsewhere"
        } else {
            best
        }
    };
    // symbols: everything but nothing depends on literal content
    if a.symbols != c.symbols {
        let (mut ra, mut rc) = (vec![], vec![]);
        ranges_of(&a.symbols, &mut ra);
        ranges_of(&c.symbols, &mut rc);
        // classify by where the range really is (the projection's answer)
        let bad = ra.iter().zip(&rc).find(|(x, y)| x != y).map(|(_, y)| y.clone()).unwrap_or(Json::Null);
        return Err(Violation::new(
            format!("positions/symbol-range/{}", cause(&bad)),
            format!(
                "query at op {opi} doc{d}: documentSymbol {} but for the ASCII/LF projection (same LSP positions) {}; text {:?}",
                short(&a.symbols),
                short(&c.symbols),
                clip(text)
            ),
        ));
    }
    // tokens
    if let (Some(ta), Some(tc)) = (decode_tokens(&a.tokens), decode_tokens(&c.tokens)) {
        let plines = lines_of(ptext);
        if ta.len() != tc.len() {
            return Err(Violation::new(
                "positions/token-count",
                format!("query at op {opi} doc{d}: {} tokens, projection {}; text {:?}", ta.len(), tc.len(), clip(text)),
            ));
        }
        for (x, y) in ta.iter().zip(&tc) {
            let multiline = line_len16(ptext, &plines, y[0]).is_none_or(|len| y[1] + y[2] > len);
            let same_pos = x[0] == y[0] && x[1] == y[1] && x[3] == y[3] && x[4] == y[4];
            if !same_pos {
                let r = json!({"start": {"line": y[0], "character": y[1]}, "end": {"line": y[0], "character": y[1]}});
                return Err(Violation::new(
                    format!("positions/token-start/{}", cause(&r)),
                    format!(
                        "query at op {opi} doc{d}: token (line,col,len,type,mods) {x:?}, the ASCII/LF projection has {y:?}; text {:?}",
                        clip(text)
                    ),
                ));
            }
            if !multiline && x[2] != y[2] {
                return Err(Violation::new(
                    "positions/token-length-not-utf16",
                    format!(
                        "query at op {opi} doc{d}: token (line,col,len,type,mods) {x:?} but it is {} UTF-16 units long (projection {y:?}); text {:?}",
                        y[2],
                        clip(text)
                    ),
                ));
            }
        }
    }
    // diagnostics: only when they are the same diagnostics
    let key = |v: &Json| -> Vec<(Json, Json, Json)> {
        v.as_array().into_iter().flatten().map(|x| (x["code"].clone(), x["severity"].clone(), x["message"].clone())).collect()
    };
    if key(&a.diagnostics) == key(&c.diagnostics) {
        for (da, dc) in a.diagnostics.as_array().into_iter().flatten().zip(c.diagnostics.as_array().into_iter().flatten()) {
            let (mut ra, mut rc) = (vec![], vec![]);
            ranges_of(da, &mut ra);
            ranges_of(dc, &mut rc);
            if ra.len() != rc.len() {
                continue; // different related information (content-dependent hints)
            }
            if let Some((x, y)) = ra.iter().zip(&rc).find(|(x, y)| x != y) {
                return Err(Violation::new(
                    format!("positions/diagnostic-range/{}", cause(y)),
                    format!(
                        "query at op {opi} doc{d}: diagnostic {} {:?} has range {x} but for the ASCII/LF projection {y}; text {:?}",
                        da["code"],
                        da["message"].as_str().unwrap_or(""),
                        clip(text)
                    ),
                ));
            }
        }
    }
    // formatting, range formatting, highlights: ranges only
    for (what, fa, fc) in [
        ("formatting", &a.formatting, &c.formatting),
        ("range-formatting", &a.range_formatting, &c.range_formatting),
        ("highlight", &a.highlight, &c.highlight),
    ] {
        if let (Some(fa), Some(fc)) = (fa.as_array(), fc.as_array()) {
            if fa.len() == fc.len() {
                for (x, y) in fa.iter().zip(fc) {
                    if x["range"] != y["range"] {
                        // the formatter's line table is a separate site: name it by the document property that breaks it
                        let lone_cr = lines_of(text).iter().any(|l| l.next == l.end + 1 && text.as_bytes()[l.end] == b'\r');
                        let why = if what == "range-formatting" && lone_cr { "lone-cr-in-document" } else { cause(&y["range"]) };
                        let v = Violation::new(
                            format!("positions/{what}-range/{why}"),
                            format!(
                                "query at op {opi} doc{d}: {what} range {} but for the ASCII/LF projection {}; text {:?}",
                                x["range"],
                                y["range"],
                                clip(text)
                            ),
                        );
                        if what == "range-formatting" && lone_cr {
                            // open finding (formatting.rs line table): reported at the end of
                            // the history so that it does not hide anything that follows
                            deferred.set_low(0, v);
                            break;
                        }
                        return Err(v);
                    }
                }
            } else if what == "highlight" {
                return Err(Violation::new(
                    format!("positions/highlight-count/{}", cause(&json!({"start": {"line": 0, "character": 0}, "end": {"line": 0, "character": 0}}))),
                    format!(
                        "query at op {opi} doc{d}: documentHighlight {} but for the ASCII/LF projection (same request position) {}; text {:?}",
                        short(&a.highlight),
                        short(&c.highlight),
                        clip(text)
                    ),
                ));
            }
        }
    }
    Ok(())
}
