//! Engine B - real product threads under the shuttle controlled scheduler.
//!
//! One trustsim case = one shuttle execution: the world (runtimes compiled on
//! a normal stack outside the coroutines) is moved into the closure, the
//! scheduler is built from the explicit `sched` object of the case, so the
//! same case always yields the same schedule and the same outcome.
//!
//! Two schedulers, both written here on the framework's own PRNG (no
//! dependence on the value stability of `rand`):
//!
//! * `random` - uniform choice among the runnable tasks at every scheduling
//!   point, with an optional bias to stay on the current task;
//! * `pct`    - priority based in the spirit of PCT (Burckhardt et al.):
//!   random distinct priorities, the highest-priority runnable task runs,
//!   `depth-1` change points sampled over a step horizon demote the running
//!   task, an explicit yield (a thread that says "I am waiting") demotes it,
//!   and - because product loops that spin through lock/unlock without ever
//!   yielding exist (a `ManualClock` stays "interrupted" after the first
//!   wake) - a task that ran `slice` consecutive decisions while others were
//!   runnable is demoted too (an OS scheduler is not infinitely unfair).
//!   shuttle's own `PctScheduler` is not used: with one iteration per
//!   scheduler instance it runs its calibration pass only (priority = task id,
//!   no randomness at all).
//!
//! Deadlock and step-bound panics raised by shuttle are caught and classified;
//! product threads that panic are contained by the shim (`std` semantics) and
//! reported in the run report.
use std::cell::RefCell;
use std::collections::BTreeMap;
use std::sync::atomic::{AtomicU64, Ordering};
use std::sync::{Arc, Mutex};

use serde_json::{json, Value as Json};
use shuttle::scheduler::{Schedule, Scheduler, Task, TaskId};

use crate::framework::Violation;
use crate::rng::{mix, Fnv, Rng};

// ---------------------------------------------------------------------------
// scheduler description (part of the explicit case)

#[derive(Debug, Clone)]
pub struct SchedSpec {
    pub kind: String,
    pub seed: u64,
    /// pct: number of priority levels that matter (depth-1 change points)
    pub depth: usize,
    /// pct: fairness slice (consecutive decisions before the running task is demoted)
    pub slice: usize,
    /// pct: step horizon over which change points are sampled
    pub horizon: usize,
    /// random: probability (in 1/8) to stay on the current task when it is runnable
    pub stay: u64,
}

impl SchedSpec {
    pub fn generate(rng: &mut Rng) -> SchedSpec {
        let kind = if rng.chance(3, 5) { "random" } else { "pct" };
        SchedSpec {
            kind: kind.to_string(),
            seed: rng.next_u64() >> 11,
            depth: rng.usize(1, 5),
            slice: *rng.pick(&[4usize, 16, 48, 160]),
            horizon: *rng.pick(&[40usize, 150, 600, 2500]),
            stay: *rng.pick(&[0u64, 0, 4, 6, 7]),
        }
    }

    pub fn to_json(&self) -> Json {
        json!({"kind": self.kind, "seed": self.seed, "depth": self.depth, "slice": self.slice, "horizon": self.horizon, "stay": self.stay})
    }

    pub fn from_json(v: &Json) -> SchedSpec {
        SchedSpec {
            kind: v["kind"].as_str().unwrap_or("random").to_string(),
            seed: v["seed"].as_u64().unwrap_or(1),
            depth: v["depth"].as_u64().unwrap_or(3) as usize,
            slice: (v["slice"].as_u64().unwrap_or(64) as usize).max(1),
            horizon: (v["horizon"].as_u64().unwrap_or(600) as usize).max(2),
            stay: v["stay"].as_u64().unwrap_or(0).min(7),
        }
    }

    /// the same scheduler with a different seed (used by shrinking: a reduced
    /// script meets a different interleaving under the old seed)
    pub fn reseeded(&self, k: u64) -> SchedSpec {
        let mut s = self.clone();
        s.seed = mix(self.seed, "alt-schedule", k) >> 11;
        s
    }
}

#[derive(Default)]
struct SchedCounters {
    /// scheduling points at which more than one task was runnable
    decisions: AtomicU64,
    /// all scheduling points
    points: AtomicU64,
    switches: AtomicU64,
    max_tasks: AtomicU64,
    /// fnv of the chosen task sequence (the schedule itself)
    trace: AtomicU64,
}

struct SimScheduler {
    spec: SchedSpec,
    rng: Rng,
    executions: usize,
    counters: Arc<SchedCounters>,
    // pct state
    prio: Vec<u64>,
    next_low: u64,
    change_points: Vec<usize>,
    steps: usize,
    run_len: usize,
}

impl SimScheduler {
    fn new(spec: &SchedSpec, counters: Arc<SchedCounters>) -> Self {
        let mut rng = Rng::new(mix(spec.seed, "engine-b-schedule", 0));
        let mut change_points = vec![];
        if spec.kind == "pct" {
            for k in 0..spec.depth.saturating_sub(1) {
                // half of the change points early (set-up races), half over the whole horizon
                let hi = if k % 2 == 0 { spec.horizon } else { (spec.horizon / 8).max(2) };
                change_points.push(1 + rng.below(hi as u64) as usize);
            }
        }
        SimScheduler {
            spec: spec.clone(),
            rng,
            executions: 0,
            counters,
            prio: vec![],
            next_low: 1 << 40,
            change_points,
            steps: 0,
            run_len: 0,
        }
    }

    fn demote(&mut self, task: usize) {
        if let Some(p) = self.prio.get_mut(task) {
            *p = self.next_low;
            self.next_low += 1;
        }
    }
}

impl Scheduler for SimScheduler {
    fn new_execution(&mut self) -> Option<Schedule> {
        if self.executions >= 1 {
            return None;
        }
        self.executions += 1;
        Some(Schedule::new(self.spec.seed))
    }

    fn next_task(&mut self, runnable: &[&Task], current: Option<TaskId>, is_yielding: bool) -> Option<TaskId> {
        let c = self.counters.clone();
        c.points.fetch_add(1, Ordering::Relaxed);
        let current: Option<usize> = current.map(usize::from);
        let ids: Vec<usize> = runnable.iter().map(|t| usize::from(t.id())).collect();
        let max_id = ids.iter().copied().max().unwrap_or(0);
        c.max_tasks.fetch_max(max_id as u64 + 1, Ordering::Relaxed);
        let choice = if ids.len() == 1 {
            ids[0]
        } else if std::thread::panicking() && current.map_or(false, |c| ids.contains(&c)) {
            // safety net: an unwinding task is never descheduled (the shim makes no
            // scheduling point during an unwind; should one appear, stay on the task)
            current.unwrap()
        } else {
            c.decisions.fetch_add(1, Ordering::Relaxed);
            if self.spec.kind == "pct" {
                while self.prio.len() <= max_id {
                    // new task: random priority among the "high" band, ties broken by id
                    let p = (self.rng.below(1 << 20) << 8) | (self.prio.len() as u64 & 0xff);
                    self.prio.push(p);
                }
                let cur_runnable = current.map_or(false, |c| ids.contains(&c));
                if let Some(cur) = current {
                    let slice_over = cur_runnable && self.run_len >= self.spec.slice;
                    if is_yielding || self.change_points.contains(&self.steps) || slice_over {
                        self.demote(cur);
                    }
                }
                self.steps += 1;
                *ids.iter().min_by_key(|t| self.prio[**t]).unwrap()
            } else {
                let stay = match current {
                    Some(cur) if !is_yielding && ids.contains(&cur) && self.spec.stay > 0 => {
                        if self.rng.below(8) < self.spec.stay {
                            Some(cur)
                        } else {
                            None
                        }
                    }
                    _ => None,
                };
                match stay {
                    Some(cur) => cur,
                    None => ids[self.rng.below(ids.len() as u64) as usize],
                }
            }
        };
        if Some(choice) == current {
            self.run_len += 1;
        } else {
            self.run_len = 0;
            c.switches.fetch_add(1, Ordering::Relaxed);
        }
        let mut h = Fnv(c.trace.load(Ordering::Relaxed));
        h.u64(choice as u64);
        c.trace.store(h.0, Ordering::Relaxed);
        Some(TaskId::from(choice))
    }

    fn next_u64(&mut self) -> u64 {
        self.rng.next_u64()
    }
}

// ---------------------------------------------------------------------------
// panic log (every panic of the current OS thread since the last take)

thread_local! {
    static PANIC_LOG: RefCell<Vec<(String, String)>> = const { RefCell::new(Vec::new()) };
}

fn ensure_panic_log_hook() {
    static ONCE: std::sync::Once = std::sync::Once::new();
    ONCE.call_once(|| {
        let previous = std::panic::take_hook();
        std::panic::set_hook(Box::new(move |info| {
            let loc = info.location().map(|l| format!("{}:{}", l.file(), l.line())).unwrap_or_default();
            let msg = if let Some(s) = info.payload().downcast_ref::<&str>() {
                (*s).to_string()
            } else if let Some(s) = info.payload().downcast_ref::<String>() {
                s.clone()
            } else {
                "<non-string panic>".to_string()
            };
            PANIC_LOG.with(|p| {
                if let Ok(mut p) = p.try_borrow_mut() {
                    p.push((loc, msg));
                }
            });
            previous(info);
        }));
    });
}

pub fn take_panic_log() -> Vec<(String, String)> {
    PANIC_LOG.with(|p| std::mem::take(&mut *p.borrow_mut()))
}

pub fn is_harness_location(loc: &str) -> bool {
    loc.contains("trustsim/src") || loc.contains("verif-hooks/src")
}

/// signature for a product panic: file (no line numbers) + normalised message
pub fn panic_signature(loc: &str, msg: &str) -> String {
    let file = crate::framework::short_loc(loc);
    let file = file.split(':').next().unwrap_or("").to_string();
    let mut out = String::new();
    let mut last_digit = false;
    for ch in msg.chars().take(60) {
        if ch.is_ascii_digit() {
            if !last_digit {
                out.push('N');
            }
            last_digit = true;
        } else {
            last_digit = false;
            out.push(ch);
        }
    }
    format!("panic/{file}/{out}")
}

// ---------------------------------------------------------------------------
// observation log shared between the harness threads of one execution
// (a std mutex: never held across a scheduling point)

#[derive(Default)]
pub struct Obs {
    seq: u64,
    pub events: Vec<String>,
    pub counters: BTreeMap<String, u64>,
    pub violation: Option<Violation>,
    /// what the controller is doing right now (names the phase of a wedge)
    pub phase: String,
    pub sim_time_ns: u128,
}

#[derive(Clone, Default)]
pub struct SharedObs(pub Arc<Mutex<Obs>>);

impl SharedObs {
    pub fn new() -> Self {
        SharedObs::default()
    }
    fn with<T>(&self, f: impl FnOnce(&mut Obs) -> T) -> T {
        f(&mut self.0.lock().unwrap_or_else(|e| e.into_inner()))
    }
    /// ordered observable event (global sequence counter owned by the harness)
    pub fn ev(&self, text: impl AsRef<str>) {
        self.with(|o| {
            let line = format!("{}:{}", o.seq, text.as_ref());
            o.seq += 1;
            o.events.push(line);
        })
    }
    pub fn inc(&self, key: &str) {
        self.add(key, 1)
    }
    pub fn add(&self, key: &str, n: u64) {
        self.with(|o| *o.counters.entry(key.to_string()).or_insert(0) += n)
    }
    pub fn phase(&self, p: &str) {
        self.with(|o| {
            if o.phase != p {
                o.phase = p.to_string();
            }
        })
    }
    pub fn time(&self, ns: u128) {
        self.with(|o| o.sim_time_ns += ns)
    }
    /// record the first violation only
    pub fn violate(&self, v: Violation) {
        self.with(|o| {
            if o.violation.is_none() {
                o.violation = Some(v);
            }
        })
    }
    pub fn violated(&self) -> bool {
        self.with(|o| o.violation.is_some())
    }
}

// ---------------------------------------------------------------------------
// running one execution

#[derive(Debug, Clone)]
pub enum Outcome {
    Completed,
    Deadlock(String),
    StepBound,
    /// panic that ended the execution (main task, or shuttle internal)
    Panic { location: String, message: String },
}

pub struct RunReport {
    pub outcome: Outcome,
    pub decisions: u64,
    pub points: u64,
    pub switches: u64,
    pub tasks: u64,
    pub schedule_hash: u64,
    /// (thread name, message) of contained product-thread panics
    pub thread_panics: Vec<(String, String)>,
    /// every panic raised on this OS thread during the run (location, message)
    pub panic_log: Vec<(String, String)>,
    pub timed_waits: u64,
}

/// Run `body` as task 0 of one shuttle execution under the scheduler described by `spec`.
pub fn run_execution<F>(spec: &SchedSpec, max_steps: usize, body: F) -> RunReport
where
    F: FnOnce() + Send + 'static,
{
    ensure_panic_log_hook();
    let _ = take_panic_log();
    let _ = verif_hooks::sync_std::thread::verif_take_panics();
    let _ = verif_hooks::sync_std::verif_take_timed_waits();
    verif_hooks::sync_std::verif_reset();
    let counters = Arc::new(SchedCounters::default());
    counters.trace.store(Fnv::new().0, Ordering::Relaxed);
    let scheduler = SimScheduler::new(spec, counters.clone());
    let mut config = shuttle::Config::new();
    config.stack_size = 16 << 20;
    config.max_steps = shuttle::MaxSteps::FailAfter(max_steps);
    config.failure_persistence = shuttle::FailurePersistence::None;
    config.silence_warnings = true;
    let cell = Mutex::new(Some(body));
    let runner = shuttle::Runner::new(scheduler, config);
    let result = std::panic::catch_unwind(std::panic::AssertUnwindSafe(move || {
        runner.run(move || {
            let body = cell.lock().unwrap_or_else(|e| e.into_inner()).take();
            if let Some(body) = body {
                body();
            }
        })
    }));
    let panic_log = take_panic_log();
    let outcome = match result {
        Ok(_) => Outcome::Completed,
        Err(_) => {
            let (location, message) = panic_log.last().cloned().unwrap_or_default();
            if message.starts_with("deadlock!") {
                Outcome::Deadlock(message)
            } else if message.contains("exceeded max_steps bound") {
                Outcome::StepBound
            } else {
                // the panic that ended the run is the first one of a task that was not contained:
                // prefer the first product-located entry that is not a contained thread panic
                Outcome::Panic { location, message }
            }
        }
    };
    let _ = crate::framework::take_last_panic();
    RunReport {
        outcome,
        decisions: counters.decisions.load(Ordering::Relaxed),
        points: counters.points.load(Ordering::Relaxed),
        switches: counters.switches.load(Ordering::Relaxed),
        tasks: counters.max_tasks.load(Ordering::Relaxed),
        schedule_hash: Fnv(counters.trace.load(Ordering::Relaxed)).finish(),
        thread_panics: verif_hooks::sync_std::thread::verif_take_panics(),
        panic_log,
        timed_waits: verif_hooks::sync_std::verif_take_timed_waits(),
    }
}

/// Harness-side polling through the scheduler: evaluates `cond` up to `limit`
/// times with an explicit yield (this thread is waiting) in between.
pub fn poll_until(limit: usize, mut cond: impl FnMut() -> bool) -> bool {
    for _ in 0..limit {
        if cond() {
            return true;
        }
        shuttle::thread::yield_now();
    }
    cond()
}

/// Call product code from inside a shuttle task; a panic becomes a violation
/// (the task survives, so the controller can still tear the world down).
pub fn guard_in_task<T>(what: &str, f: impl FnOnce() -> T) -> Result<T, Violation> {
    match std::panic::catch_unwind(std::panic::AssertUnwindSafe(f)) {
        Ok(v) => Ok(v),
        Err(payload) => {
            verif_hooks::sync_std::verif_after_unwind();
            let msg = if let Some(s) = payload.downcast_ref::<&str>() {
                (*s).to_string()
            } else if let Some(s) = payload.downcast_ref::<String>() {
                s.clone()
            } else {
                "<non-string panic>".to_string()
            };
            // location: the latest log entry with this message (tasks share the log)
            let loc = PANIC_LOG.with(|p| p.borrow().iter().rev().find(|e| e.1 == msg).map(|e| e.0.clone())).unwrap_or_default();
            if is_harness_location(&loc) {
                eprintln!("HARNESS-PANIC at {loc}: {msg}");
                std::process::exit(2);
            }
            Err(Violation::new(panic_signature(&loc, &msg), format!("panic during {what} at {loc}: {msg}")))
        }
    }
}

/// Fold the observation log and the run report into the framework's `Stats`.
pub fn feed_stats(stats: &mut crate::framework::Stats, obs: &SharedObs, report: &RunReport) {
    let o = obs.0.lock().unwrap_or_else(|e| e.into_inner());
    let mut h = Fnv::new();
    for e in &o.events {
        stats.log(e);
        h.str(e);
    }
    stats.log(&format!("schedule={} points={}", report.schedule_hash, report.points));
    stats.state(h.finish());
    for (k, v) in &o.counters {
        stats.add(k, *v);
    }
    stats.sim_time_ns += o.sim_time_ns;
    stats.inc("schedules");
    stats.add("scheduling_points", report.points);
    stats.add("scheduling_decisions", report.decisions);
    stats.add("context_switches", report.switches);
    if report.timed_waits > 0 {
        stats.add("fault.timed-wait-expiry", report.timed_waits);
    }
    let bucket = match report.points {
        0..=999 => "schedule_len.lt_1k",
        1_000..=9_999 => "schedule_len.lt_10k",
        10_000..=99_999 => "schedule_len.lt_100k",
        100_000..=299_999 => "schedule_len.lt_300k",
        300_000..=999_999 => "schedule_len.lt_1m",
        _ => "schedule_len.ge_1m",
    };
    stats.inc(bucket);
}
