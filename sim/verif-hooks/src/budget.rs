//! H2 - simulator-owned statement budget.
//!
//! `tick()` is called from `eval::stmt::check_execution_budget` (every
//! statement entry and every loop iteration).  It counts budget points and,
//! when armed, reports exhaustion at an *exact* point, which the call site
//! turns into `RuntimeError::ExecutionTimeout`.  Thread-local so that every
//! simulated thread owns its own counter.
use std::cell::Cell;

thread_local! {
    static EXECUTED: Cell<u64> = const { Cell::new(0) };
    static ARMED_AT: Cell<u64> = const { Cell::new(u64::MAX) };
    static FIRED: Cell<u64> = const { Cell::new(0) };
    static STICKY: Cell<bool> = const { Cell::new(false) };
    static STATEMENTS: Cell<u64> = const { Cell::new(0) };
}

/// Called by the product at the start of every statement it executes (not at loop heads).
#[inline]
pub fn stmt() {
    STATEMENTS.with(|c| c.set(c.get() + 1));
}

/// Number of statements executed on this thread.
pub fn statements() -> u64 {
    STATEMENTS.with(Cell::get)
}

/// Called by the product. Returns true when the budget is exhausted.
#[inline]
pub fn tick() -> bool {
    let n = EXECUTED.with(|c| {
        let n = c.get();
        c.set(n + 1);
        n
    });
    let at = ARMED_AT.with(Cell::get);
    if n == at || (n > at && STICKY.with(Cell::get)) {
        FIRED.with(|c| c.set(c.get() + 1));
        true
    } else {
        false
    }
}

/// Number of budget points passed since `reset`.
pub fn executed() -> u64 {
    EXECUTED.with(Cell::get)
}

/// How often the armed budget fired since `reset`.
pub fn fired() -> u64 {
    FIRED.with(Cell::get)
}

/// Reset counter and disarm.
pub fn reset() {
    EXECUTED.with(|c| c.set(0));
    ARMED_AT.with(|c| c.set(u64::MAX));
    FIRED.with(|c| c.set(0));
    STICKY.with(|c| c.set(false));
}

/// Arm: the `k`-th budget point from now (0 = the next one) reports exhaustion.
/// `sticky`: every later point reports exhaustion too (a deadline that stays passed).
pub fn arm_in(k: u64, sticky: bool) {
    let now = EXECUTED.with(Cell::get);
    ARMED_AT.with(|c| c.set(now.saturating_add(k)));
    STICKY.with(|c| c.set(sticky));
}

pub fn disarm() {
    ARMED_AT.with(|c| c.set(u64::MAX));
    STICKY.with(|c| c.set(false));
}
