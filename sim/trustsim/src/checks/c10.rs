//! C10 - retain file: lossless codec and crash-atomic save.
//!
//! World: the real `FileRetainStore` over the logging fs shim (H3).  With
//! s_old durably stored, `store(s_new)` is run once under a fault plan (short
//! writes, EINTR) and its file-system call log is recorded; for EVERY prefix of
//! that log - and every sampled cut of the last write - the disk image a dying
//! process would leave is materialised in a fresh directory and `load()` is
//! called.  Plus: clean round trips, ENOSPC, and stored-byte corruption with a
//! counting allocator.
use std::collections::BTreeMap;
use std::path::{Path, PathBuf};

use serde_json::{json, Value as Json};

use trust_runtime::retain::{FileRetainStore, RetainStore};
use trust_runtime::value::{
    ArrayValue, DateTimeValue, DateValue, Duration, EnumValue, LDateTimeValue, LDateValue, LTimeOfDayValue, StructValue,
    TimeOfDayValue, Value,
};
use trust_runtime::RetainSnapshot;
use verif_hooks::fs_std::fs::{self as simfs, FaultPlan, FsOp};

use crate::framework::{guard, scratch_dir, Check, Stats, Tier, Violation};
use crate::rng::{Fnv, Rng};

pub struct C10Check;
pub static C10: C10Check = C10Check;

const LEAVES: &[&str] = &[
    "bool", "sint", "int", "dint", "lint", "usint", "uint", "udint", "ulint", "real", "lreal", "byte", "word", "dword", "lword", "time", "ltime", "date", "ldate",
    "tod", "ltod", "dt", "ldt", "string", "wstring", "char", "wchar", "enum", "null",
];

fn gen_value(r: &mut Rng, depth: u32) -> Json {
    if depth < 3 && r.chance(1, 4) {
        if r.bool() {
            let n = r.usize(0, 4);
            let dims = if r.chance(1, 4) { json!([[0, 1], [r.range(-2, 2), r.range(3, 5)]]) } else { json!([[r.range(-3, 3), r.range(4, 9)]]) };
            let e: Vec<Json> = (0..n).map(|_| gen_value(r, depth + 1)).collect();
            return json!({"t": "array", "dims": dims, "e": e});
        }
        let n = r.usize(0, 4);
        let f: Vec<Json> = (0..n).map(|i| json!([format!("f{i}"), gen_value(r, depth + 1)])).collect();
        return json!({"t": "struct", "name": if r.bool() { "Pt" } else { "Überstruct" }, "f": f});
    }
    let t = *r.pick(LEAVES);
    let bits = match r.below(6) {
        0 => 0,
        1 => u64::MAX,
        2 => 1u64 << 63,
        3 => 0x7ff8_0000_0000_0001, // NaN payload (LREAL); REAL takes the low 32 bits of another pattern
        4 => 0xffc0_0001_7fc0_0001,
        _ => r.next_u64(),
    };
    let s = match r.below(5) {
        0 => String::new(),
        1 => "abc".to_string(),
        2 => "zäöü\u{1F600}\u{0}x".to_string(),
        3 => "x".repeat(r.usize(1, 300)),
        _ => format!("s{}", r.below(1000)),
    };
    json!({"t": t, "b": bits, "s": s})
}

fn build_value(j: &Json) -> Value {
    let b = j["b"].as_u64().unwrap_or(0);
    let s = j["s"].as_str().unwrap_or("").to_string();
    match j["t"].as_str().unwrap_or("null") {
        "bool" => Value::Bool(b & 1 == 1),
        "sint" => Value::SInt(b as i8),
        "int" => Value::Int(b as i16),
        "dint" => Value::DInt(b as i32),
        "lint" => Value::LInt(b as i64),
        "usint" => Value::USInt(b as u8),
        "uint" => Value::UInt(b as u16),
        "udint" => Value::UDInt(b as u32),
        "ulint" => Value::ULInt(b),
        "real" => Value::Real(f32::from_bits(b as u32)),
        "lreal" => Value::LReal(f64::from_bits(b)),
        "byte" => Value::Byte(b as u8),
        "word" => Value::Word(b as u16),
        "dword" => Value::DWord(b as u32),
        "lword" => Value::LWord(b),
        "time" => Value::Time(Duration::from_nanos(b as i64)),
        "ltime" => Value::LTime(Duration::from_nanos(b as i64)),
        "date" => Value::Date(DateValue::new(b as i64)),
        "ldate" => Value::LDate(LDateValue::new(b as i64)),
        "tod" => Value::Tod(TimeOfDayValue::new(b as i64)),
        "ltod" => Value::LTod(LTimeOfDayValue::new(b as i64)),
        "dt" => Value::Dt(DateTimeValue::new(b as i64)),
        "ldt" => Value::Ldt(LDateTimeValue::new(b as i64)),
        "string" => Value::String(s.into()),
        "wstring" => Value::WString(s),
        "char" => Value::Char(b as u8),
        "wchar" => Value::WChar(b as u16),
        "enum" => Value::Enum(EnumValue { type_name: "Color".into(), variant_name: s.into(), numeric_value: b as i64 }),
        "array" => {
            let dimensions: Vec<(i64, i64)> =
                j["dims"].as_array().cloned().unwrap_or_default().iter().map(|d| (d[0].as_i64().unwrap_or(0), d[1].as_i64().unwrap_or(0))).collect();
            let elements = j["e"].as_array().cloned().unwrap_or_default().iter().map(build_value).collect();
            Value::Array(ArrayValue { elements, dimensions }.into())
        }
        "struct" => {
            let mut fields = indexmap::IndexMap::new();
            for f in j["f"].as_array().cloned().unwrap_or_default() {
                fields.insert(f[0].as_str().unwrap_or("f").into(), build_value(&f[1]));
            }
            Value::Struct(StructValue { type_name: j["name"].as_str().unwrap_or("S").into(), fields }.into())
        }
        _ => Value::Null,
    }
}

fn build_snapshot(j: &Json) -> RetainSnapshot {
    let mut s = RetainSnapshot::default();
    for e in j.as_array().cloned().unwrap_or_default() {
        s.insert(e[0].as_str().unwrap_or("v"), build_value(&e[1]));
    }
    s
}

/// NaN-proof, order-sensitive rendering
fn render(s: &RetainSnapshot) -> String {
    let mut out = String::new();
    for (k, v) in s.values() {
        out.push_str(&format!("{k}={};", render_value(v)));
    }
    out
}

fn render_value(v: &Value) -> String {
    match v {
        Value::Real(x) => format!("Real#{:08x}", x.to_bits()),
        Value::LReal(x) => format!("LReal#{:016x}", x.to_bits()),
        Value::Array(a) => format!("Array{:?}[{}]", a.dimensions, a.elements.iter().map(render_value).collect::<Vec<_>>().join(",")),
        Value::Struct(s) => format!("Struct:{}{{{}}}", s.type_name, s.fields.iter().map(|(k, v)| format!("{k}:{}", render_value(v))).collect::<Vec<_>>().join(",")),
        other => format!("{other:?}"),
    }
}

/// in-memory disk model
type Disk = BTreeMap<PathBuf, Vec<u8>>;

fn apply(disk: &mut Disk, op: &FsOp, cut: Option<usize>) {
    match op {
        FsOp::Create { path, truncate } => {
            let e = disk.entry(path.clone()).or_default();
            if *truncate {
                e.clear();
            }
        }
        FsOp::Write { path, offset, data } => {
            let data = match cut {
                Some(c) => &data[..c.min(data.len())],
                None => &data[..],
            };
            let e = disk.entry(path.clone()).or_default();
            let end = *offset as usize + data.len();
            if e.len() < end {
                e.resize(end, 0);
            }
            e[*offset as usize..end].copy_from_slice(data);
        }
        FsOp::SetLen { path, len } => {
            disk.entry(path.clone()).or_default().resize(*len as usize, 0);
        }
        FsOp::SyncFile { .. } | FsOp::CreateDir { .. } => {}
        FsOp::Rename { from, to } => {
            if let Some(d) = disk.remove(from) {
                disk.insert(to.clone(), d);
            }
        }
        FsOp::Remove { path } => {
            disk.remove(path);
        }
    }
}

fn op_name(op: &FsOp) -> &'static str {
    match op {
        FsOp::Create { .. } => "create",
        FsOp::Write { .. } => "write",
        FsOp::SetLen { .. } => "set_len",
        FsOp::SyncFile { .. } => "sync",
        FsOp::Rename { .. } => "rename",
        FsOp::Remove { .. } => "remove",
        FsOp::CreateDir { .. } => "mkdir",
    }
}

fn fresh_dir(tag: &str) -> PathBuf {
    static N: std::sync::atomic::AtomicU64 = std::sync::atomic::AtomicU64::new(0);
    let n = N.fetch_add(1, std::sync::atomic::Ordering::SeqCst);
    let d = scratch_dir().join(format!("c10-{}-{tag}-{n}", std::process::id()));
    let _ = std::fs::remove_dir_all(&d);
    std::fs::create_dir_all(&d).expect("scratch dir");
    d
}

/// write a disk model (paths relative to `from_dir`) into `to_dir`
fn materialise(disk: &Disk, from_dir: &Path, to_dir: &Path) {
    if let Ok(rd) = std::fs::read_dir(to_dir) {
        for e in rd.flatten() {
            let _ = std::fs::remove_file(e.path());
        }
    }
    for (p, data) in disk {
        let rel = p.strip_prefix(from_dir).unwrap_or(p);
        std::fs::write(to_dir.join(rel), data).expect("materialise");
    }
}

fn load_in(dir: &Path) -> Result<Result<RetainSnapshot, String>, Violation> {
    simfs::sim_disable();
    let store = FileRetainStore::new(dir.join("retain.bin"));
    let r = guard("FileRetainStore::load", || store.load())?;
    Ok(r.map_err(|e| format!("{e:?}")))
}

impl Check for C10Check {
    fn id(&self) -> &'static str {
        "C10"
    }
    fn level(&self) -> &'static str {
        "fault_enumeration"
    }
    fn cases(&self, tier: Tier) -> u64 {
        match tier {
            Tier::Quick => 800,
            Tier::Thorough => 8_000,
        }
    }
    fn hang_limit_s(&self) -> u64 {
        60
    }
    fn rule(&self) -> &'static str {
        "case = (s_old, s_new) snapshot pair over all 31 retainable value shapes (boundary bit patterns incl. NaN payloads, empty/long/non-ASCII strings, nested arrays/structs, empty snapshots) + fault plan (short writes, EINTR, ENOSPC) + corruption list; per case: clean round trip of both, then EVERY prefix of the recorded file-system call log of store(s_new) and up to 40 byte cuts of each write is materialised as the disk a dying process leaves and load() is judged; then every truncation (<= 600 bytes, else 200 seeded offsets) and the listed bit flips / length-field blow-ups / garbage of the stored bytes are loaded under a counting allocator; distinct non-trivial = distinct (pair shape hash, crash point kind) with a non-empty s_old differing from s_new"
    }
    fn assumptions(&self) -> Vec<&'static str> {
        vec![
            "crash = process death: every completed system call is visible to the next process (page cache survives); power-loss reordering of un-synced data is not judged",
            "a write system call may be torn at any byte (modelled as cuts of each logged write)",
            "allocation bound: largest single request during load <= 64 x file size + 64 KiB",
            "ENOSPC: only 'a failed store is reported as Err and the next load is Ok(old), Ok(new) or Err - never a panic' is judged",
        ]
    }
    fn components(&self) -> (Vec<&'static str>, Vec<&'static str>) {
        (
            vec!["FileRetainStore::store/load", "encode_snapshot/decode_snapshot", "encode_value/decode_value", "RetainReader"],
            vec!["file system calls (logging shim over real files; crash images materialised from the call log)", "process death (no real kill)"],
        )
    }

    fn generate(&self, rng: &mut Rng, _tier: Tier, _index: u64) -> Json {
        let mut g = rng.fork("snap");
        let mut f = rng.fork("faults");
        let mut snap = |g: &mut Rng| -> Json {
            let n = if g.chance(1, 10) { 0 } else { g.usize(1, 6) };
            Json::Array((0..n).map(|i| json!([if g.chance(1, 5) { format!("P1.v{i}") } else { format!("g{i}") }, gen_value(g, 0)])).collect())
        };
        let old = snap(&mut g);
        let new = if g.chance(1, 8) { old.clone() } else { snap(&mut g) };
        let mut corrupt = vec![];
        for _ in 0..f.usize(4, 16) {
            corrupt.push(match f.below(5) {
                0 => json!({"k": "flip", "pos": f.below(100_000), "bit": f.below(8)}),
                1 => json!({"k": "ff4", "pos": f.below(100_000)}),
                2 => json!({"k": "garbage", "len": f.below(64), "seed": f.next_u64()}),
                3 => json!({"k": "splice", "pos": f.below(100_000), "len": f.below(16), "seed": f.next_u64()}),
                _ => json!({"k": "deep", "depth": *f.pick(&[10u64, 1_000, 50_000, 200_000]), "tag": *f.pick(&[28u64, 29])}),
            });
        }
        json!({
            // first save ever: no previous file on the disk (the "old snapshot" is the empty one a missing file loads as)
            "first_save": f.chance(1, 5),
            "old": old,
            "new": new,
            "short_writes": (0..f.below(3)).map(|_| json!([f.below(3), f.range(1, 40)])).collect::<Vec<_>>(),
            "eintr": (0..f.below(3)).map(|_| f.below(4)).collect::<Vec<_>>(),
            "enospc_from": if f.chance(1, 6) { Json::from(f.below(3)) } else { Json::Null },
            "edits": corrupt,
        })
    }

    fn run(&self, case: &Json, stats: &mut Stats) -> Result<(), Violation> {
        for p in ["probe.crash_between_create_and_first_write", "probe.crash_mid_write", "probe.crash_before_rename", "probe.short_write_absorbed", "probe.eintr_absorbed", "probe.enospc_reported", "probe.corruption_rejected", "probe.corruption_accepted_as_other_snapshot", "probe.deep_nesting_survived", "probe.first_save_without_previous_file"] {
            stats.add(p, 0);
        }
        let first_save = case["first_save"].as_bool().unwrap_or(false);
        let old = if first_save { RetainSnapshot::default() } else { build_snapshot(&case["old"]) };
        let new = build_snapshot(&case["new"]);
        let (r_old, r_new) = (render(&old), render(&new));
        let work = fresh_dir("w");
        let crash = fresh_dir("c");
        let res = self.run_in(case, stats, &old, &new, &r_old, &r_new, &work, &crash);
        simfs::sim_disable();
        let _ = std::fs::remove_dir_all(&work);
        let _ = std::fs::remove_dir_all(&crash);
        res
    }
}

impl C10Check {
    #[allow(clippy::too_many_arguments)]
    fn run_in(
        &self,
        case: &Json,
        stats: &mut Stats,
        old: &RetainSnapshot,
        new: &RetainSnapshot,
        r_old: &str,
        r_new: &str,
        work: &Path,
        crash: &Path,
    ) -> Result<(), Violation> {
        let path = work.join("retain.bin");
        let store = FileRetainStore::new(path.clone());
        // ---- clean round trips
        for (name, snap, rendered) in [("new", new, r_new), ("old", old, r_old)] {
            simfs::sim_reset(FaultPlan::default());
            let r = guard("FileRetainStore::store", || store.store(snap))?;
            if let Err(e) = r {
                return Err(Violation::new("codec/store-error", format!("store({name}) failed without any fault: {e:?}")));
            }
            match load_in(work)? {
                Ok(back) => {
                    if render(&back) != rendered {
                        return Err(Violation::new("codec/roundtrip-differs", format!("stored {rendered} loaded {}", render(&back))));
                    }
                }
                Err(e) => return Err(Violation::new("codec/load-error", format!("load of a cleanly stored snapshot failed: {e}; snapshot {rendered}"))),
            }
        }
        stats.inc("roundtrips");
        if case["first_save"].as_bool().unwrap_or(false) {
            // state A = nothing saved yet
            for e in std::fs::read_dir(work).expect("read work dir").flatten() {
                let _ = std::fs::remove_file(e.path());
            }
            stats.inc("probe.first_save_without_previous_file");
        }
        // state A: s_old durably on disk (everything the directory holds)
        let mut disk_a: Disk = BTreeMap::new();
        for e in std::fs::read_dir(work).expect("read work dir").flatten() {
            disk_a.insert(e.path(), std::fs::read(e.path()).unwrap_or_default());
        }
        let old_bytes = disk_a.get(&path).cloned().unwrap_or_default();

        // ---- store(s_new) under the fault plan, recording the call log
        let plan = FaultPlan {
            short_writes: case["short_writes"].as_array().cloned().unwrap_or_default().iter().map(|p| (p[0].as_u64().unwrap_or(0), p[1].as_u64().unwrap_or(1) as usize)).collect(),
            eintr: case["eintr"].as_array().cloned().unwrap_or_default().iter().filter_map(Json::as_u64).collect(),
            enospc_from: case["enospc_from"].as_u64(),
            fail_rename: None,
            fail_sync: None,
        };
        let enospc = plan.enospc_from.is_some();
        simfs::sim_reset(plan);
        let r = guard("FileRetainStore::store", || store.store(new))?;
        let log = simfs::sim_take_log();
        let (short, eintr, nospc) = simfs::sim_fault_counts();
        simfs::sim_disable();
        stats.add("fault.short_write", short);
        stats.add("fault.eintr", eintr);
        stats.add("fault.enospc", nospc);
        stats.log(&format!("store:{}:{}", r.is_ok(), log.iter().map(op_name).collect::<Vec<_>>().join(",")));
        match (&r, nospc > 0) {
            (Ok(()), true) => {
                return Err(Violation::new("enospc/store-reported-ok", "a write failed with ENOSPC but store() returned Ok".to_string()));
            }
            (Err(e), false) => {
                return Err(Violation::new(
                    if short > 0 || eintr > 0 { "fault/short-write-or-eintr-not-absorbed" } else { "codec/store-error" },
                    format!("store failed: {e:?} (short writes fired {short}, EINTR fired {eintr})"),
                ));
            }
            (Err(_), true) => {
                stats.inc("probe.enospc_reported");
                // narrow judgement: the next load must not panic
                let _ = load_in(work)?;
            }
            (Ok(()), false) => {
                if short > 0 {
                    stats.inc("probe.short_write_absorbed");
                }
                if eintr > 0 {
                    stats.inc("probe.eintr_absorbed");
                }
                match load_in(work)? {
                    Ok(back) if render(&back) == r_new => {}
                    other => {
                        return Err(Violation::new(
                            "fault/stored-data-differs-after-absorbed-faults",
                            format!("after a successful store under short writes/EINTR load gives {:?}", other.map(|s| render(&s))),
                        ));
                    }
                }
            }
        }
        // ---- crash enumeration (only the atomicity verdict of a store that was not starved of space)
        if !enospc {
            let mut pair = Fnv::new();
            pair.str(r_old).str(r_new);
            let nontrivial = !old.values().is_empty() && r_old != r_new;
            let mut disk = disk_a.clone();
            let mut points = 0u64;
            for (i, op) in log.iter().enumerate() {
                // crash points inside this op (torn write), then after it
                let mut cuts: Vec<Option<usize>> = vec![];
                if let FsOp::Write { data, .. } = op {
                    let n = data.len();
                    let mut c: Vec<usize> = (0..n.min(16)).collect();
                    c.extend((n.saturating_sub(16)..n).filter(|x| *x >= 16));
                    if n > 32 {
                        let step = (n - 32) / 8 + 1;
                        c.extend((16..n - 16).step_by(step));
                    }
                    c.sort_unstable();
                    c.dedup();
                    cuts.extend(c.into_iter().filter(|c| *c > 0).map(Some));
                }
                cuts.push(None);
                for cut in cuts {
                    let mut d = disk.clone();
                    apply(&mut d, op, cut);
                    materialise(&d, work, crash);
                    points += 1;
                    let kind = match (op, cut) {
                        (FsOp::Write { .. }, Some(_)) => "mid-write".to_string(),
                        _ => format!("after-{}", op_name(op)),
                    };
                    if matches!(op, FsOp::Create { .. }) {
                        stats.inc("probe.crash_between_create_and_first_write");
                    }
                    if cut.is_some() {
                        stats.inc("probe.crash_mid_write");
                    }
                    if log.get(i + 1).is_some_and(|n| matches!(n, FsOp::Rename { .. })) && cut.is_none() {
                        stats.inc("probe.crash_before_rename");
                    }
                    if nontrivial {
                        let mut h = pair;
                        h.str(&kind);
                        stats.nontrivial(h.finish());
                    }
                    let verdict = load_in(crash)?;
                    let narrowed = || {
                        let mut c = case.clone();
                        c["crash_at"] = json!({"op": i, "cut": cut});
                        c
                    };
                    match verdict {
                        Ok(s) => {
                            let r = render(&s);
                            if r != r_old && r != r_new {
                                let sig = if s.values().is_empty() { "crash/empty-snapshot" } else { "crash/mixture" };
                                return Err(Violation::new(
                                    format!("{sig}/{kind}"),
                                    format!("process death {kind} (call {i} of {}, cut {cut:?}): load returned {r}; old {r_old}; new {r_new}", log.len()),
                                )
                                .narrowed(narrowed()));
                            }
                        }
                        Err(e) => {
                            return Err(Violation::new(
                                format!("crash/load-error/{kind}"),
                                format!("process death {kind} (call {i} of {}, cut {cut:?}): next load fails with {e}; calls: {}", log.len(), log.iter().map(op_name).collect::<Vec<_>>().join(",")),
                            )
                            .narrowed(narrowed()));
                        }
                    }
                }
                apply(&mut disk, op, None);
            }
            stats.add("crash_points", points);
            let mut sh = Fnv::new();
            sh.u64(log.len() as u64).str(&log.iter().map(op_name).collect::<Vec<_>>().join(","));
            stats.state(sh.finish());
        }
        // `crash_at` (present in narrowed replays) needs no special handling: the enumeration covers it.

        // ---- corruption of the stored bytes
        let base = if old_bytes.len() > 10 { old_bytes.clone() } else { std::fs::read(&path).unwrap_or_default() };
        let mut variants: Vec<(String, Vec<u8>)> = vec![];
        let n = base.len();
        if n <= 600 {
            for cut in 0..n {
                variants.push(("truncate".into(), base[..cut].to_vec()));
            }
        } else {
            let mut r = Rng::new(n as u64);
            for _ in 0..200 {
                let cut = r.below(n as u64) as usize;
                variants.push(("truncate".into(), base[..cut].to_vec()));
            }
        }
        for e in case["edits"].as_array().cloned().unwrap_or_default() {
            let mut b = base.clone();
            let pos = if n == 0 { 0 } else { (e["pos"].as_u64().unwrap_or(0) as usize) % n };
            match e["k"].as_str().unwrap_or("") {
                "flip" if n > 0 => {
                    b[pos] ^= 1 << (e["bit"].as_u64().unwrap_or(0) % 8);
                    variants.push(("bitflip".into(), b));
                }
                "ff4" if n > 0 => {
                    for k in 0..4 {
                        if pos + k < n {
                            b[pos + k] = 0xff;
                        }
                    }
                    variants.push(("length-blowup".into(), b));
                }
                "garbage" => {
                    let mut r = Rng::new(e["seed"].as_u64().unwrap_or(0));
                    let g: Vec<u8> = (0..e["len"].as_u64().unwrap_or(0)).map(|_| r.below(256) as u8).collect();
                    variants.push(("garbage".into(), g));
                }
                "splice" if n > 0 => {
                    let mut r = Rng::new(e["seed"].as_u64().unwrap_or(0));
                    for k in 0..e["len"].as_u64().unwrap_or(0) as usize {
                        if pos + k < n {
                            b[pos + k] = r.below(256) as u8;
                        }
                    }
                    variants.push(("splice".into(), b));
                }
                "deep" => {
                    // header + one entry whose value is `depth` nested one-element containers
                    let depth = e["depth"].as_u64().unwrap_or(10) as usize;
                    let tag = e["tag"].as_u64().unwrap_or(28) as u8;
                    let mut d = Vec::with_capacity(depth * 16 + 32);
                    d.extend_from_slice(b"STRN");
                    d.extend_from_slice(&1u16.to_le_bytes());
                    d.extend_from_slice(&1u32.to_le_bytes());
                    d.extend_from_slice(&1u32.to_le_bytes());
                    d.push(b'x');
                    for _ in 0..depth {
                        d.push(tag);
                        if tag == 28 {
                            d.extend_from_slice(&1u32.to_le_bytes()); // elements
                            d.extend_from_slice(&0u32.to_le_bytes()); // dims
                        } else {
                            d.extend_from_slice(&1u32.to_le_bytes());
                            d.push(b'S');
                            d.extend_from_slice(&1u32.to_le_bytes()); // fields
                            d.extend_from_slice(&1u32.to_le_bytes());
                            d.push(b'f');
                        }
                    }
                    d.push(31); // Null
                    variants.push(("deep-nesting".into(), d));
                }
                _ => {}
            }
        }
        let cpath = crash.join("retain.bin");
        if let Ok(rd) = std::fs::read_dir(crash) {
            for e in rd.flatten() {
                let _ = std::fs::remove_file(e.path());
            }
        }
        for (kind, bytes) in &variants {
            std::fs::write(&cpath, bytes).expect("write corrupt file");
            crate::alloc_probe::reset_max();
            let verdict = load_in(crash)?;
            let peak = crate::alloc_probe::max_single();
            stats.inc(&format!("fault.corrupt_{kind}"));
            let bound = bytes.len() * 64 + (64 << 10);
            if peak > bound {
                return Err(Violation::new(
                    format!("alloc/oversized-request/{kind}"),
                    format!("loading a {}-byte file requested a single allocation of {peak} bytes (bound {bound})", bytes.len()),
                )
                .narrowed(json!({"old": [], "new": [], "raw_hex": hex(bytes), "raw_kind": kind, "edits": []})));
            }
            match verdict {
                Err(_) => stats.inc("probe.corruption_rejected"),
                Ok(s) => {
                    if render(&s) != r_old {
                        stats.inc("probe.corruption_accepted_as_other_snapshot");
                    }
                }
            }
            if kind == "deep-nesting" {
                stats.inc("probe.deep_nesting_survived");
            }
        }
        // raw file given explicitly (narrowed replays of corruption findings)
        if let Some(h) = case["raw_hex"].as_str() {
            let bytes = unhex(h);
            std::fs::write(&cpath, &bytes).expect("write raw file");
            crate::alloc_probe::reset_max();
            let _ = load_in(crash)?;
            let peak = crate::alloc_probe::max_single();
            let bound = bytes.len() * 64 + (64 << 10);
            if peak > bound {
                let kind = case["raw_kind"].as_str().unwrap_or("raw");
                return Err(Violation::new(format!("alloc/oversized-request/{kind}"), format!("loading a {}-byte file requested a single allocation of {peak} bytes", bytes.len())));
            }
        }
        Ok(())
    }
}

fn hex(b: &[u8]) -> String {
    b.iter().take(4096).map(|x| format!("{x:02x}")).collect()
}

fn unhex(s: &str) -> Vec<u8> {
    (0..s.len() / 2).filter_map(|i| u8::from_str_radix(&s[2 * i..2 * i + 2], 16).ok()).collect()
}
