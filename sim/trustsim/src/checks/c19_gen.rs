//! C19 case generator: explicit JSON cases (project fixture, sessions, ops).
use serde_json::{json, Value as Json};

use super::c19_world::default_project_files;
use crate::framework::Tier;
use crate::rng::Rng;

pub const FILES_EXISTING: &[&str] = &["main.st", "lib.st", "src/util.st", "src/deep/leaf.st", "docs/readme.txt", "inlink.st", "indir/util.st", "Main.st", "src/Util.st"];
pub const DIRS_EXISTING: &[&str] = &["src", "src/deep", "docs", "empty", "indir"];

/// (class, path strings).  `${S}` = sentinel root, `${P}` = project root (absolute).
pub fn hostile_paths() -> Vec<(&'static str, Vec<String>)> {
    let s = |v: &[&str]| v.iter().map(|x| x.to_string()).collect::<Vec<_>>();
    vec![
        ("dotdot", s(&["..", "../peer.st", "../../secret.st", "src/../../peer.st", "a/../../x", "src/../main.st", "../proj/main.st", "src/deep/../../../peer.st", "../../sibling/notes.txt", "../newpeer.st", "../../newtop"])),
        ("absolute", s(&["${S}/secret.st", "${P}/main.st", "/etc/hostname", "/", "${S}/sibling", "${S}/abs_new.st", "${P}/../peer.st"])),
        ("curdir", s(&["./main.st", "./src/./util.st", "././../secret.st", ".", "./", "./.secret", "src/./deep/./leaf.st"])),
        ("slashes", s(&["src//util.st", "//etc/passwd", "src/", "src/deep//", "main.st/", "src///deep////leaf.st", "empty/"])),
        ("backslash", s(&["..\\secret.st", "src\\util.st", "..\\..\\secret.st", "\\etc\\passwd", "src\\..\\..\\peer.st", "..\\/secret.st"])),
        ("encoded", s(&["%2e%2e/secret.st", "%2e%2e%2fsecret.st", "..%2fsecret.st", "src/%2e%2e/%2e%2e/peer.st", "%2fetc%2fhostname", "%2esecret"])),
        ("unicode", s(&["\u{2024}\u{2024}/secret.st", "\u{2025}/secret.st", "\u{ff0e}\u{ff0e}/secret.st", "..\u{ff0f}secret.st", "..\u{2215}secret.st", "src/\u{ff55}til.st", "ma\u{0301}in.st", "\u{202e}ts.niam", "\u{ff0e}secret", "\u{feff}../secret.st", "\u{200b}.secret"])),
        ("hidden", s(&[".secret", ".git/config", ".git", ".hidden/nmq22z_x.st", ".hidden", "src/.nmq23z_inner.st", ".newhidden", ".newdir/x.st", "src/.newhidden.st", " .secret", ".secret ", "docs/.new/y.st", "..secret", "...", ".st"])),
        ("symlink-dir", s(&["outdir/nmq03z_other.st", "outdir", "outdir/newfile.st", "outdir/deep/nmq05z_inner.st", "outdir/newsub/x.st", "outdir/notes.txt", "outdir/.sibhidden", "hid/nmq22z_x.st", "hid", "hid/new.st", "outdir/deep", "indir/deep/leaf.st", "vault/nmq08z_vault.st", "vault", "vault/new.st", "vault/keys.txt", "vaultfile.st"])),
        ("symlink-file", s(&["link.st", "alias.st", "abslink.st", "inlink.st", "loop.st", "link.st/x.st"])),
        ("symlink-dangling", s(&["dangle.st", "dangledir/x.st", "dangledir", "dangledir/sub/y.st"])),
        ("trailing", s(&["main.st/", "src/util.st/.", "src/..", "src/deep/../../..", "src/deep/..", "main.st/.."])),
        ("empty", s(&["", " ", "\t", "\n", "   "])),
        ("long", vec![format!("{}.st", "a".repeat(300)), format!("{}f.st", "d/".repeat(300)), "x".repeat(5000), format!("../{}", "y".repeat(300)), format!("{}../../secret.st", "src/../".repeat(200))]),
        ("nul", s(&["main.st\0.txt", "\0", "src/\0/x.st", "..\0/secret.st", "main.st\0", "\0../secret.st"])),
        ("whitespace", s(&[" ../secret.st", "main.st ", " main.st", "src/ util.st", "src /util.st", "\tmain.st\n"])),
    ]
}

pub const SETPROJ_TARGETS: &[&str] =
    &["${P}", "${P}", "${P}/src", "${S}/sibling", "${P}/outdir", "${P}/main.st", "${P}/no-such-dir", "", "no-such-dir-c19", "${P}/.hidden", "${S}/ws", "${S}/ws/proj-secrets"];
pub const BROWSE_TARGETS: &[&str] = &["${P}", "${S}", "${S}/sibling", "${P}/.git", "${P}/no-such", "${P}/main.st", "/proc"];
pub const QUERIES: &[&str] = &["mkq", "MKQ", "program", "nmq", "SharedFn", "secret", "", "  ", "z"];
pub const GLOBS: &[&str] = &["**/*.st", "outdir/**", "../**", "[", "*", "**/.*", "link.st", "**/*.txt"];
pub const TICKS: &[u64] = &[1, 1, 2, 3, 60, 449, 450, 451, 899, 900, 901, 1800];
pub const BOGUS: &[&str] = &["!empty", "!garbage", "!prefix8:e0", "!case:e0", "!pad:e0", "!nosuch", "!prefix8:v0", "!nul:e0"];

struct Gen<'a> {
    rng: &'a mut Rng,
    hostile: Vec<(&'static str, Vec<String>)>,
    next_cid: u64,
    next_new: u64,
}

impl Gen<'_> {
    fn cid(&mut self) -> u64 {
        self.next_cid += 1;
        self.next_cid
    }
    fn new_path(&mut self) -> String {
        self.next_new += 1;
        let n = self.next_new;
        match self.rng.below(5) {
            0 => format!("new{n}.st"),
            1 => format!("newdir{n}/sub/f{n}.st"),
            2 => format!("src/n{n}.st"),
            3 => format!("empty/e{n}.txt"),
            _ => format!("docs/d{n}/n{n}.st"),
        }
    }
    /// (class, path)
    fn hostile(&mut self) -> (String, String) {
        let i = self.rng.below(self.hostile.len() as u64) as usize;
        let (cls, list) = &self.hostile[i];
        let p = list[self.rng.below(list.len() as u64) as usize].clone();
        (cls.to_string(), p)
    }
    fn file_path(&mut self, hostile_num: u64) -> (String, String) {
        if self.rng.chance(hostile_num, 100) {
            self.hostile()
        } else if self.rng.chance(4, 5) {
            ("plain".into(), self.rng.pick(FILES_EXISTING).to_string())
        } else {
            ("plain-new".into(), self.new_path())
        }
    }
    fn any_path(&mut self, hostile_num: u64) -> (String, String) {
        if self.rng.chance(1, 4) && !self.rng.chance(hostile_num, 100) {
            ("plain-dir".into(), self.rng.pick(DIRS_EXISTING).to_string())
        } else {
            self.file_path(hostile_num)
        }
    }
    fn session(&mut self, editors: &[String], others: &[String]) -> String {
        match self.rng.below(100) {
            0..=54 => self.rng.pick(editors).clone(),
            55..=84 if !others.is_empty() => self.rng.pick(others).clone(),
            85..=94 => self.rng.pick(BOGUS).to_string(),
            _ => self.rng.pick(editors).clone(),
        }
    }
    fn we(&mut self) -> bool {
        !self.rng.chance(1, 10)
    }
    fn exp(&mut self) -> Json {
        match self.rng.below(100) {
            0..=74 => json!({"m": "seen", "d": 0}),
            75..=84 => json!({"m": "seen", "d": -1}),
            85..=88 => json!({"m": "seen", "d": 1}),
            89..=91 => json!({"m": "seen", "d": -2}),
            _ => json!({"m": "abs", "v": *self.rng.pick(&[0u64, 1, 2, 3, u64::MAX])}),
        }
    }
}

pub fn generate(rng: &mut Rng, tier: Tier) -> Json {
    let mut shape = rng.fork("shape");
    let mut ops_rng = rng.fork("ops");
    let chain_profile = shape.chance(45, 100);
    // ---- fixture: all default entries, a few dropped
    let mut files = default_project_files();
    files.retain(|_| !shape.chance(1, 12));
    // ---- sessions
    let n_editors = if chain_profile { shape.usize(2, 4) } else { shape.usize(1, 3) };
    let n_viewers = shape.usize(1, 2);
    let mut sessions = vec![];
    let mut editors = vec![];
    let mut others = vec![];
    for i in 0..n_editors {
        sessions.push(json!({"id": format!("e{i}"), "role": "editor"}));
        editors.push(format!("e{i}"));
    }
    for i in 0..n_viewers {
        sessions.push(json!({"id": format!("v{i}"), "role": "viewer"}));
        others.push(format!("v{i}"));
    }
    // an editor that stays idle most of the time (expires when the clock moves)
    sessions.push(json!({"id": "idle", "role": "editor"}));
    others.push("idle".to_string());

    let n_ops = match (tier, chain_profile) {
        (Tier::Quick, false) => ops_rng.usize(25, 50),
        (Tier::Quick, true) => ops_rng.usize(25, 60),
        (Tier::Thorough, _) => ops_rng.usize(40, 120),
    };
    let mut g = Gen { rng: &mut ops_rng, hostile: hostile_paths(), next_cid: 0, next_new: 0 };
    let mut ops: Vec<Json> = vec![];
    let chain_files: Vec<&str> = if chain_profile {
        let mut v = vec!["main.st"];
        if shape.chance(1, 2) {
            v.push("src/util.st");
        }
        if shape.chance(1, 3) {
            v.push("inlink.st");
        }
        v
    } else {
        vec![]
    };
    let resets = shape.chance(1, 2);
    // ---- scripted skeleton (1 chain case in 5): A observes, B writes, the API's
    // memory of the file is reset in one of the known ways, A writes with what it saw
    if chain_profile && shape.chance(1, 5) {
        let f = shape.pick(&["main.st", "src/util.st", "src/deep/leaf.st"]).to_string();
        let a = editors[0].clone();
        let b = editors[1 % editors.len()].clone();
        let top = f.split('/').next().unwrap_or("").to_string();
        let has_dir = f.contains('/');
        let wr = |g: &mut Gen, s: &str| json!({"k": "write", "s": s, "p": f, "cls": "plain", "exp": {"m": "seen", "d": 0}, "c": g.cid(), "we": true});
        let op = |s: &str| json!({"k": "open", "s": s, "p": f, "cls": "plain"});
        ops.push(op(&a));
        if shape.bool() {
            let w = wr(&mut g, &a);
            ops.push(w);
        }
        if shape.chance(3, 4) {
            ops.push(op(&b));
            let w = wr(&mut g, &b);
            ops.push(w);
        }
        match shape.below(9) {
            7 => {
                // the file vanishes behind the IDE; the analysis cache notices and forgets the document
                let other = if f == "lib.st" { "main.st" } else { "lib.st" };
                let diag = json!({"k": "analysis", "fn": "diagnostics", "s": b, "p": other, "cls": "plain", "c": Json::Null, "line": 0, "ch": 0});
                ops.push(diag.clone());
                ops.push(json!({"k": "extdel", "p": f}));
                ops.push(json!({"k": "tick", "dt": 3}));
                ops.push(diag);
                ops.push(json!({"k": "create", "s": b, "p": f, "cls": "plain", "dir": false, "c": g.cid(), "we": true}));
            }
            0 => {
                ops.push(json!({"k": "delete", "s": b, "p": f, "cls": "plain", "we": true}));
                ops.push(json!({"k": "create", "s": b, "p": f, "cls": "plain", "dir": false, "c": g.cid(), "we": true}));
            }
            1 if has_dir => {
                ops.push(json!({"k": "delete", "s": b, "p": top, "cls": "plain", "we": true}));
                ops.push(json!({"k": "create", "s": b, "p": f, "cls": "plain", "dir": false, "c": g.cid(), "we": true}));
            }
            2 => {
                ops.push(json!({"k": "rename", "s": b, "p": f, "cls": "plain", "to": "parked.st", "cls2": "plain-new", "we": true}));
                ops.push(json!({"k": "rename", "s": b, "p": "parked.st", "cls": "plain", "to": f, "cls2": "plain", "we": true}));
            }
            3 if has_dir => {
                ops.push(json!({"k": "rename", "s": b, "p": top, "cls": "plain", "to": "parkeddir", "cls2": "plain-new", "we": true}));
                ops.push(json!({"k": "rename", "s": b, "p": "parkeddir", "cls": "plain", "to": top, "cls2": "plain", "we": true}));
            }
            4 => ops.push(json!({"k": "setproj", "s": others[0], "to": "${P}"})),
            5 => {
                ops.push(json!({"k": "extdel", "p": f}));
                ops.push(json!({"k": "create", "s": b, "p": f, "cls": "plain", "dir": false, "c": g.cid(), "we": true}));
            }
            6 => {
                ops.push(json!({"k": "setproj", "s": b, "to": "${S}/sibling"}));
                ops.push(json!({"k": "setproj", "s": b, "to": "${P}"}));
            }
            _ => {
                ops.push(json!({"k": "rename", "s": b, "p": f, "cls": "plain", "to": "parked.st", "cls2": "plain-new", "we": true}));
                ops.push(json!({"k": "create", "s": b, "p": f, "cls": "plain", "dir": false, "c": g.cid(), "we": true}));
            }
        }
        if shape.bool() {
            ops.push(op(&b));
            let w = wr(&mut g, &b);
            ops.push(w);
        }
        let w = wr(&mut g, &a);
        ops.push(w);
    }
    while ops.len() < n_ops {
        if chain_profile {
            let f = g.rng.pick(&chain_files).to_string();
            let s = if g.rng.chance(9, 10) { g.rng.pick(&editors).clone() } else { g.session(&editors, &others) };
            match g.rng.below(100) {
                0..=29 => ops.push(json!({"k": "open", "s": s, "p": f, "cls": "plain"})),
                30..=66 => {
                    // usually open first, then write with the version seen (other sessions interleave)
                    if g.rng.chance(1, 3) {
                        ops.push(json!({"k": "open", "s": s, "p": f, "cls": "plain"}));
                    }
                    let (exp, c, we) = (g.exp(), g.cid(), g.we());
                    ops.push(json!({"k": "write", "s": s, "p": f, "cls": "plain", "exp": exp, "c": c, "we": we}));
                }
                67..=73 => {
                    let c = g.cid();
                    ops.push(json!({"k": "ext", "p": f, "c": c}));
                }
                74..=77 => ops.push(json!({"k": "tick", "dt": *g.rng.pick(TICKS)})),
                78..=82 => {
                    let c = g.cid();
                    let fun = *g.rng.pick(&["diagnostics", "hover", "completion", "definition", "references", "fsymbols"]);
                    ops.push(json!({"k": "analysis", "fn": fun, "s": s, "p": f, "cls": "plain", "c": if g.rng.bool() { json!(c) } else { Json::Null }, "line": g.rng.below(6), "ch": g.rng.below(12)}));
                }
                83..=86 if resets => {
                    // delete the file itself, or the directory it lives in
                    let victim = match f.rsplit_once('/') {
                        Some((dir, _)) if g.rng.bool() => dir.split('/').next().unwrap_or(dir).to_string(),
                        _ => f.clone(),
                    };
                    ops.push(json!({"k": "delete", "s": s, "p": victim, "cls": "plain", "we": true}));
                    let c = g.cid();
                    ops.push(json!({"k": "create", "s": s, "p": f, "cls": "plain", "dir": false, "c": c, "we": true}));
                }
                87..=88 if resets => ops.push(json!({"k": "setproj", "s": s, "to": "${P}"})),
                89..=90 if resets => {
                    // move the file (or its top-level directory) away, often back again
                    let (from, to) = match f.split_once('/') {
                        Some((top, _)) if g.rng.bool() => (top.to_string(), format!("moved{}", g.cid())),
                        _ => (f.clone(), g.new_path()),
                    };
                    ops.push(json!({"k": "rename", "s": s, "p": from, "cls": "plain", "to": to, "cls2": "plain-new", "we": true}));
                    if g.rng.chance(2, 3) {
                        ops.push(json!({"k": "rename", "s": s, "p": to, "cls": "plain", "to": from, "cls2": "plain", "we": true}));
                    }
                }
                91..=92 => ops.push(json!({"k": "extdel", "p": f})),
                93..=94 => {
                    let c = g.cid();
                    ops.push(json!({"k": "create", "s": s, "p": f, "cls": "plain", "dir": false, "c": c, "we": true}));
                }
                95 => ops.push(json!({"k": "rensym", "s": s, "p": "lib.st", "cls": "plain", "line": 0, "ch": 10, "name": format!("Shared{}", g.cid()), "c": Json::Null, "we": true})),
                96 => ops.push(json!({"k": "list", "s": s})),
                97 => ops.push(json!({"k": "format", "s": s, "p": f, "cls": "plain", "c": Json::Null})),
                _ => ops.push(json!({"k": "open", "s": s, "p": f, "cls": "plain"})),
            }
            continue;
        }
        let s = g.session(&editors, &others);
        match g.rng.below(100) {
            0..=12 => {
                let (cls, p) = g.file_path(55);
                ops.push(json!({"k": "open", "s": s, "p": p, "cls": cls}));
            }
            13..=26 => {
                let (cls, p) = if g.rng.chance(1, 2) { g.hostile() } else { ("plain-new".into(), g.new_path()) };
                let dir = g.rng.chance(1, 3);
                let c = if dir || g.rng.chance(1, 5) { Json::Null } else { json!(g.cid()) };
                ops.push(json!({"k": "create", "s": s, "p": p, "cls": cls, "dir": dir, "c": c, "we": g.we()}));
            }
            27..=38 => {
                let (cls, p) = g.file_path(50);
                if g.rng.chance(1, 2) {
                    ops.push(json!({"k": "open", "s": s, "p": p, "cls": cls}));
                }
                let (exp, c, we) = (g.exp(), g.cid(), g.we());
                ops.push(json!({"k": "write", "s": s, "p": p, "cls": cls, "exp": exp, "c": c, "we": we}));
            }
            39..=52 => {
                let (cls, p) = g.any_path(35);
                let (cls2, to) = if g.rng.chance(1, 2) { g.hostile() } else { ("plain-new".into(), g.new_path()) };
                if g.rng.chance(1, 6) {
                    // onto an existing file, in particular one whose name differs in letter case only
                    let (from, onto) = *g.rng.pick(&[("Main.st", "main.st"), ("main.st", "Main.st"), ("src/Util.st", "src/util.st"), ("lib.st", "main.st"), ("src/util.st", "src/Util.st")]);
                    ops.push(json!({"k": "rename", "s": s, "p": from, "cls": "plain", "to": onto, "cls2": "plain", "we": true}));
                } else {
                    ops.push(json!({"k": "rename", "s": s, "p": p, "cls": cls, "to": to, "cls2": cls2, "we": g.we()}));
                }
            }
            53..=62 => {
                let (cls, p) = g.any_path(60);
                ops.push(json!({"k": "delete", "s": s, "p": p, "cls": cls, "we": g.we()}));
            }
            63..=65 => ops.push(json!({"k": "list", "s": s})),
            66..=68 => ops.push(json!({"k": "tree", "s": s})),
            69..=73 => {
                let inc = if g.rng.chance(1, 3) { json!(*g.rng.pick(GLOBS)) } else { Json::Null };
                let exc = if g.rng.chance(1, 5) { json!(*g.rng.pick(GLOBS)) } else { Json::Null };
                ops.push(json!({"k": "search", "s": s, "q": *g.rng.pick(QUERIES), "inc": inc, "exc": exc, "limit": *g.rng.pick(&[1u64, 50, 500])}));
            }
            74..=76 => {
                let (cls, p) = g.file_path(55);
                let c = if g.rng.bool() { json!(g.cid()) } else { Json::Null };
                ops.push(json!({"k": "format", "s": s, "p": p, "cls": cls, "c": c}));
            }
            77..=83 => {
                let (cls, p) = g.file_path(50);
                let c = if g.rng.chance(1, 3) { json!(g.cid()) } else { Json::Null };
                let fun = *g.rng.pick(&["diagnostics", "hover", "completion", "definition", "references", "fsymbols"]);
                let (line, ch) = if g.rng.bool() { (0, 10) } else { (g.rng.below(7), g.rng.below(14)) };
                ops.push(json!({"k": "analysis", "fn": fun, "s": s, "p": p, "cls": cls, "c": c, "line": line, "ch": ch, "q": *g.rng.pick(&["", "mkq", "shared"])}));
            }
            84..=85 => ops.push(json!({"k": "wsymbols", "s": s, "q": *g.rng.pick(&["", "mkq", "Shared", "main"])})),
            86..=88 => {
                let (cls, p, line, ch) = match g.rng.below(4) {
                    0 => ("plain".to_string(), "lib.st".to_string(), 0, 10),
                    1 => ("plain".to_string(), "main.st".to_string(), 2, 3),
                    2 => ("symlink-file".to_string(), "link.st".to_string(), 4, 6),
                    _ => {
                        let (c, p) = g.file_path(50);
                        (c, p, g.rng.below(6), g.rng.below(12))
                    }
                };
                let name = match g.rng.below(6) {
                    0 => " ".to_string(),
                    1 => "END_IF".to_string(),
                    2 => "a b".to_string(),
                    _ => format!("Ren{}", g.cid()),
                };
                ops.push(json!({"k": "rensym", "s": s, "p": p, "cls": cls, "line": line, "ch": ch, "name": name, "c": Json::Null, "we": g.we()}));
            }
            89..=90 => ops.push(json!({"k": "setproj", "s": s, "to": *g.rng.pick(SETPROJ_TARGETS)})),
            91 => ops.push(json!({"k": "browse", "s": s, "to": *g.rng.pick(BROWSE_TARGETS)})),
            92..=93 => ops.push(json!({"k": "meta", "s": s, "fn": *g.rng.pick(&["health", "audit", "selection", "telemetry", "require_editor"])})),
            94..=96 => ops.push(json!({"k": "tick", "dt": *g.rng.pick(TICKS)})),
            97..=98 => {
                let c = g.cid();
                ops.push(json!({"k": "ext", "p": *g.rng.pick(FILES_EXISTING), "c": c}));
            }
            _ => ops.push(json!({"k": "login", "sid": format!("n{}", g.cid()), "role": if g.rng.bool() { "editor" } else { "viewer" }})),
        }
    }
    json!({"profile": if chain_profile { "chain" } else { "confine" }, "files": files, "sessions": sessions, "ops": ops})
}
