//! C01 - every scan cycle ends in success or a value-dependent fault, never a
//! crash (partial: fault / time / input clauses over a generated workload).
//!
//! World: ProgGen project compiled by the real compiler; the simulator owns
//! the clock, the %I image (boundary-biased), the statement budget (H2) and
//! the fault latch.  Invariants after every cycle: outcome in {Ok,
//! value-dependent fault}, no panic, no frame left, bounded statement count.
use serde_json::{json, Value as Json};

use trust_runtime::value::{Duration, Value};

use crate::framework::{guard, Check, Stats, Tier, Violation};
use crate::proggen::{self, Knobs, Ty};
use crate::rng::{Fnv, Rng};
use crate::world;

pub struct C01Check;
pub static C01: C01Check = C01Check;

/// statement cap per cycle: generated loops are bounded (<= 3 nested levels of <= 8 trips, calls nest <= 3),
/// a healthy cycle stays far below
const STATEMENT_CAP: u64 = 3_000_000;
/// budget for cycles of programs with a busy-wait loop (the budget is their only way out)
const BUSY_CAP: u64 = 60_000;

pub fn gen_inputs(r: &mut Rng) -> Vec<u64> {
    let mut bytes = vec![0u8; proggen::INPUT_LEN];
    for (_, ty, _, off, w) in proggen::input_layout() {
        let v: u64 = match ty {
            Ty::Bool => r.below(2),
            t if t.is_int() => {
                let (lo, hi) = t.range();
                let pick: i128 = match r.below(10) {
                    0 => lo,
                    1 => lo + 1,
                    2 => (-1i128).max(lo),
                    3 => 0,
                    4 => 1,
                    5 => hi - 1,
                    6 => hi,
                    _ => i128::from(r.range(-30, 30)).clamp(lo, hi),
                };
                pick as u64
            }
            Ty::Real => u64::from(match r.below(6) {
                0 => 0f32.to_bits(),
                1 => f32::NAN.to_bits(),
                2 => f32::INFINITY.to_bits(),
                3 => f32::MAX.to_bits(),
                4 => (-1.5f32).to_bits(),
                _ => (r.range(-100, 100) as f32).to_bits(),
            }),
            _ => r.next_u64(),
        };
        for i in 0..w {
            bytes[off + i] = ((v >> (8 * i)) & 0xff) as u8;
        }
    }
    bytes.into_iter().map(u64::from).collect()
}

pub fn variant_name(e: &trust_runtime::error::RuntimeError) -> String {
    let t = format!("{e:?}");
    t.split(|c: char| !c.is_alphanumeric()).next().unwrap_or("").to_string()
}

impl Check for C01Check {
    fn id(&self) -> &'static str {
        "C01"
    }
    fn cases(&self, tier: Tier) -> u64 {
        match tier {
            Tier::Quick => 5_000,
            Tier::Thorough => 60_000,
        }
    }
    fn hang_limit_s(&self) -> u64 {
        // a case takes milliseconds; a machine stall is told apart by re-running the case alone (framework)
        40
    }
    fn rule(&self) -> &'static str {
        "case = ProgGen project (0-3 functions, 0-2 stateful FBs with RETURN, 1-3 programs in 1-2 tasks + background; typed expressions over all integer widths, REAL/LREAL, bit strings, TIME, STRING, enum, arrays with computed indices, struct fields, conversions, std functions and FBs; IF/CASE/FOR/WHILE/REPEAT/EXIT/CONTINUE; swarm knobs for boundary literals, widening, exotic CASE selectors, extreme FOR bounds) x history of cycles with boundary-biased %I images, clock stalls/jumps up to i64::MAX, budget faults at chosen or ALL statement points of a cycle, fault clearing and restarts; rejected programs are counted and skipped; later knobs: power operator with zero/small/run-time/negative exponents, VAR_TEMP initialisers that fault for some inputs, FB calls binding two outputs to one variable, busy-wait loops with an empty body that only the execution budget ends (a budget is armed for every cycle); round 3: namespaced function library (sibling calls, nested namespace, a function named like the standard LIMIT) with USING in programs and FBs, retentive variable blocks and globals, REPEAT exit conditions reading array elements indexed by the loop counter, three-level class / FB inheritance chains writing inherited variables; distinct non-trivial = distinct (program hash, outcome class, fault kind) where a fault fired or a boundary input reached the program"
    }
    fn assumptions(&self) -> Vec<&'static str> {
        vec![
            "only the fault/time/input clauses are claimed; agreement of checker and interpreter over the whole grammar is exercised as a by-product, not promised (DESIGN 3 C01)",
            "value-dependent fault set = DivisionByZero, ModuloByZero, Overflow, IndexOutOfBounds, NullReference, ForStepZero, DateTimeRange, ExecutionTimeout",
            "generated loops are bounded by construction; a cycle passing 3,000,000 budget points counts as non-terminating",
        ]
    }
    fn components(&self) -> (Vec<&'static str>, Vec<&'static str>) {
        (
            vec!["compiler front end + type checker + lowering", "interpreter (eval::*)", "stdlib functions and FBs", "Runtime::execute_cycle", "I/O latching", "fault latch, clear_fault, restart"],
            vec!["clock", "%I image (written directly)", "statement budget (H2 hook instead of the wall-clock deadline)"],
        )
    }

    fn generate(&self, rng: &mut Rng, tier: Tier, index: u64) -> Json {
        let mut kr = rng.fork("knobs");
        let mut pr = rng.fork("project");
        let mut or = rng.fork("ops");
        let mut knobs = Knobs::swarm(&mut kr);
        // loops that wait for an input with an empty body: only the execution budget ends them (every cycle here runs under one)
        knobs.busy_wait = kr.chance(1, 6);
        let size = (pr.usize(0, 3), pr.usize(0, 2), pr.usize(1, 3));
        let mut project = proggen::gen_project(&mut pr, knobs, size);
        if pr.chance(1, 3) {
            // OOP units (classes, interfaces, inherited methods, FB methods, references): budget faults land inside
            // method calls as well
            let nb = pr.usize(1, 3);
            project["bulk"] = proggen::gen_bulk(&mut pr, nb);
        }
        let n_ops = match tier {
            Tier::Quick => or.usize(3, 12),
            Tier::Thorough => or.usize(5, 30),
        };
        let mut ops = vec![];
        for _ in 0..n_ops {
            match or.below(14) {
                0 => ops.push(json!({"k": "budget", "at": or.below(200)})),
                1 => ops.push(json!({"k": "jump", "to": *or.pick(&[i64::MAX, i64::MAX - 1, i64::MAX / 2, 1i64 << 62])})),
                2 => ops.push(json!({"k": "advance", "by": *or.pick(&[0i64, 1, 1_000_000_000, i64::MAX / 2, i64::MAX])})),
                3 => ops.push(json!({"k": "restart", "mode": if or.bool() { "warm" } else { "cold" }})),
                4 => ops.push(json!({"k": "set", "sel": or.range(-2, 8), "a": or.range(-3, 3)})),
                _ => ops.push(json!({"k": "cycle", "dt": *or.pick(&[0i64, 1, 10_000_000, 10_000_000, 20_000_000, 3_600_000_000_000]), "in": gen_inputs(&mut or)})),
            }
        }
        json!({"project": project, "budget_all": index % 10 == 0, "ops": ops})
    }

    fn shrink(&self, case: &Json) -> Vec<Json> {
        let mut out = crate::framework::shrink_generic(case);
        for p in proggen::shrink_project(&case["project"]) {
            let mut c = case.clone();
            c["project"] = p;
            out.push(c);
        }
        // zero the inputs of single cycles
        if let Some(ops) = case["ops"].as_array() {
            for (i, op) in ops.iter().enumerate() {
                if op["k"] == "cycle" && op["in"].as_array().is_some_and(|a| a.iter().any(|b| b.as_u64() != Some(0))) {
                    let mut c = case.clone();
                    c["ops"][i]["in"] = Json::Array(vec![Json::from(0); proggen::INPUT_LEN]);
                    out.push(c);
                }
            }
        }
        out
    }

    fn run(&self, case: &Json, stats: &mut Stats) -> Result<(), Violation> {
        for p in ["probe.value_fault", "probe.budget_fault_in_nested_call", "probe.full_budget_enumeration", "probe.clock_near_i64_max", "probe.fault_then_continue", "probe.rejected_by_compiler", "probe.drift_attributed_by_twin", "fault.budget_ends_busy_wait"] {
            stats.add(p, 0);
        }
        let src = proggen::render(&case["project"]);
        match self.run_src(case, &src, stats) {
            Err(mut v) if v.signature.starts_with("static-fault/") && !v.signature.ends_with("/with-tag-drift") => {
                // a drifted slot in a function's frame is gone when the fault surfaces: decide by the twin in which
                // every implicit widening assignment is an explicit conversion (same program by the language rules)
                if let Some(twin) = proggen::explicit_widening(&src) {
                    let mut scratch = Stats::default();
                    let twin_static = matches!(self.run_src(case, &twin, &mut scratch), Err(t) if t.signature.starts_with("static-fault/"));
                    if !twin_static {
                        stats.inc("probe.drift_attributed_by_twin");
                        v.signature.push_str("/with-tag-drift");
                        v.detail.push_str("; no drifted slot is left in storage, but the fault disappears when the implicit widening assignments are written as explicit conversions");
                    }
                }
                Err(v)
            }
            r => r,
        }
    }
}

impl C01Check {
    fn run_src(&self, case: &Json, src: &str, stats: &mut Stats) -> Result<(), Violation> {
        let src = src.to_string();
        let mut ph = Fnv::new();
        ph.str(&src);
        let phash = ph.finish();
        let compiled = guard("compile", || world::compile(&src))?;
        let mut rt = match compiled {
            Ok(rt) => rt,
            Err(e) => {
                stats.inc("probe.rejected_by_compiler");
                let first = e.lines().next().unwrap_or("").to_string();
                // rejection classes feed generator tuning; not a verdict
                let class: String = first.split(" (at").next().unwrap_or("").chars().take(60).collect();
                stats.inc(&format!("rejected.{class}"));
                return Ok(());
            }
        };
        stats.inc("accepted");
        rt.io_mut().resize(proggen::INPUT_LEN, 8, 0);
        // tags right after the build (initialisers are coerced to the declared type at compile time)
        let declared_tags = world::tag_walk(&rt);
        let ops = case["ops"].as_array().cloned().unwrap_or_default();
        if stats.samples.len() < 2 {
            stats.sample(json!({"source": src, "ops": ops.iter().take(4).cloned().collect::<Vec<_>>()}));
        }

        // ---- optional: budget fault at EVERY point of the first cycle (fresh world per point)
        // a program that waits for an input in an empty loop ends its cycle only through the budget
        let busy = src.contains("(*busy*)");
        let cap = if busy { BUSY_CAP } else { STATEMENT_CAP };
        if case["budget_all"].as_bool().unwrap_or(false) && !busy {
            let first_in: Vec<u8> = ops
                .iter()
                .find(|o| o["k"] == "cycle")
                .and_then(|o| o["in"].as_array().cloned())
                .unwrap_or_default()
                .iter()
                .map(|b| b.as_u64().unwrap_or(0) as u8)
                .collect();
            let mut k = 0u64;
            loop {
                let mut w = match world::compile(&src) {
                    Ok(w) => w,
                    Err(_) => break,
                };
                w.io_mut().resize(proggen::INPUT_LEN, 8, 0);
                if first_in.len() == proggen::INPUT_LEN {
                    w.io_mut().inputs_mut().copy_from_slice(&first_in);
                }
                w.set_current_time(Duration::from_nanos(10_000_000));
                let fired0 = verif_hooks::budget::fired();
                verif_hooks::budget::arm_in(k, false);
                let r = guard("execute_cycle", || w.execute_cycle()).map_err(|v| {
                    let mut c = case.clone();
                    c["budget_all"] = Json::from(false);
                    c["ops"] = json!([{"k": "budget", "at": k}, {"k": "cycle", "dt": 10_000_000, "in": first_in.iter().map(|b| u64::from(*b)).collect::<Vec<_>>()}]);
                    v.narrowed(c)
                })?;
                verif_hooks::budget::disarm();
                let fired = verif_hooks::budget::fired() > fired0;
                let narrowed = |v: Violation| {
                    let mut c = case.clone();
                    c["budget_all"] = Json::from(false);
                    c["ops"] = json!([{"k": "budget", "at": k}, {"k": "cycle", "dt": 10_000_000, "in": first_in.iter().map(|b| u64::from(*b)).collect::<Vec<_>>()}]);
                    v.narrowed(c)
                };
                if !w.storage().frames().is_empty() {
                    return Err(narrowed(Violation::new(
                        if fired { "frames/left-after-budget-fault".to_string() } else { format!("frames/left-after-{}", r.as_ref().err().map(variant_name).unwrap_or_else(|| "ok".into())) },
                        format!("budget fault at point {k}: {} frame(s) left ({:?})", w.storage().frames().len(), w.storage().frames().iter().map(|f| f.owner.to_string()).collect::<Vec<_>>()),
                    )));
                }
                if let Err(e) = &r {
                    if !world::is_value_dependent_fault(e) {
                        let drift = world::tag_drift(&w, &declared_tags);
                        let sig = if drift.is_empty() { format!("static-fault/{}", variant_name(e)) } else { format!("static-fault/{}/with-tag-drift", variant_name(e)) };
                        return Err(narrowed(Violation::new(sig, format!("budget fault at point {k}: cycle reported {e:?}; slots holding a tag other than declared: {:?}", drift.iter().take(4).collect::<Vec<_>>()))));
                    }
                }
                if !fired {
                    break;
                }
                stats.inc("fault.budget_enumerated");
                k += 1;
                if k > 400 {
                    break;
                }
            }
            stats.inc("probe.full_budget_enumeration");
        }

        let mut now: i64 = 0;
        let mut boundary_seen = false;
        for (opi, op) in ops.iter().enumerate() {
            match op["k"].as_str().unwrap_or("cycle") {
                "budget" => {
                    verif_hooks::budget::arm_in(op["at"].as_u64().unwrap_or(0), false);
                }
                "jump" => {
                    now = now.max(op["to"].as_i64().unwrap_or(0));
                    stats.inc("probe.clock_near_i64_max");
                }
                "advance" => {
                    let by = op["by"].as_i64().unwrap_or(0).max(0);
                    rt.set_current_time(Duration::from_nanos(now));
                    guard("advance_time", || rt.advance_time(Duration::from_nanos(by)))?;
                    let t = rt.current_time().as_nanos();
                    if t < now {
                        return Err(Violation::new("clock/advance-went-backwards", format!("op {opi}: advance_time({by}) moved the clock from {now} to {t}")));
                    }
                    now = t;
                    stats.inc("fault.clock_advance");
                }
                "restart" => {
                    let mode = if op["mode"] == "warm" { trust_runtime::RestartMode::Warm } else { trust_runtime::RestartMode::Cold };
                    let r = guard("restart", || rt.restart(mode))?;
                    if let Err(e) = r {
                        return Err(Violation::new(format!("restart/error/{}", variant_name(&e)), format!("op {opi}: {e:?}")));
                    }
                    now = 0;
                    stats.inc("fault.restart");
                }
                "set" => {
                    rt.storage_mut().set_global("g_sel", Value::DInt(op["sel"].as_i64().unwrap_or(0) as i32));
                    rt.storage_mut().set_global("g_a", Value::DInt(op["a"].as_i64().unwrap_or(0) as i32));
                }
                _ => {
                    let dt = op["dt"].as_i64().unwrap_or(0).max(0);
                    now = now.saturating_add(dt);
                    stats.sim_time_ns += dt as u128;
                    if dt == 0 {
                        stats.inc("fault.clock_stall");
                    }
                    if let Some(bytes) = op["in"].as_array() {
                        if bytes.len() == proggen::INPUT_LEN {
                            let b: Vec<u8> = bytes.iter().map(|x| x.as_u64().unwrap_or(0) as u8).collect();
                            rt.io_mut().inputs_mut().copy_from_slice(&b);
                            boundary_seen |= b.iter().any(|x| *x == 0xff || *x == 0x80 || *x == 0x7f);
                        }
                    }
                    rt.set_current_time(Duration::from_nanos(now));
                    let armed = verif_hooks::budget::fired();
                    let exec0 = verif_hooks::budget::executed();
                    // termination guard: a deadline that stays passed once the cap is reached
                    let explicit_budget = ops.get(opi.wrapping_sub(1)).is_some_and(|p| p["k"] == "budget") && opi > 0;
                    if !explicit_budget {
                        verif_hooks::budget::arm_in(cap, true);
                    }
                    let r = guard("execute_cycle", || rt.execute_cycle())?;
                    let fired = verif_hooks::budget::fired() > armed;
                    verif_hooks::budget::disarm();
                    let ran = verif_hooks::budget::executed() - exec0;
                    stats.inc("cycles");
                    stats.log(&format!("op{opi}:{:?}:{ran}", r.as_ref().err().map(variant_name)));
                    if !rt.storage().frames().is_empty() {
                        return Err(Violation::new(
                            format!("frames/left-after-{}", r.as_ref().err().map(variant_name).unwrap_or_else(|| "ok".into())),
                            format!("op {opi}: {} call frame(s) left after the cycle: {:?}", rt.storage().frames().len(), rt.storage().frames().iter().map(|f| f.owner.to_string()).collect::<Vec<_>>()),
                        ));
                    }
                    match &r {
                        Ok(()) => {}
                        Err(e) => {
                            let name = variant_name(e);
                            if name == "ResourceFaulted" {
                                return Err(Violation::new("harness/cycle-on-faulted-resource", format!("op {opi}")));
                            }
                            if !world::is_value_dependent_fault(e) {
                                // a slot already holding a value of another type than declared (C03's subject) can
                                // make a later strictly-typed operation fail: attribute such follow-up faults
                                let drift = world::tag_drift(&rt, &declared_tags);
                                let sig = if drift.is_empty() { format!("static-fault/{name}") } else { format!("static-fault/{name}/with-tag-drift") };
                                return Err(Violation::new(
                                    sig,
                                    format!("op {opi}: an accepted program failed with the static-class error {e:?}; slots holding a tag other than declared: {:?}", drift.iter().take(4).collect::<Vec<_>>()),
                                ));
                            }
                            if name == "ExecutionTimeout" {
                                if !explicit_budget && fired && busy {
                                    stats.inc("fault.budget_ends_busy_wait");
                                } else if !explicit_budget && fired {
                                    return Err(Violation::new("termination/statement-cap", format!("op {opi}: cycle passed {STATEMENT_CAP} budget points")));
                                }
                                if explicit_budget {
                                    stats.inc("fault.budget");
                                }
                            } else {
                                stats.inc("probe.value_fault");
                                stats.inc(&format!("fault.value.{name}"));
                            }
                            let mut h = Fnv::new();
                            h.u64(phash).str(&name);
                            stats.nontrivial(h.finish());
                            // keep exploring from the state the fault left behind
                            rt.clear_fault();
                            stats.inc("probe.fault_then_continue");
                        }
                    }
                    if r.is_ok() && boundary_seen {
                        let mut h = Fnv::new();
                        h.u64(phash).str("ok-boundary");
                        stats.nontrivial(h.finish());
                    }
                    let mut sh = Fnv::new();
                    sh.u64(phash).u64(ran.min(64)).str(&r.as_ref().err().map(variant_name).unwrap_or_default());
                    stats.state(sh.finish());
                }
            }
        }
        Ok(())
    }
}
