//! C17 program corpus: hand-written ST templates with seeded parameters.
//! Every template has nested FUNCTION -> FUNCTION_BLOCK -> method calls, loops
//! and a CONFIGURATION with at least two tasks; every PROGRAM type is bound
//! exactly once, so a top-level statement location determines its task.
use serde_json::Value as Json;

pub const TEMPLATES: usize = 7;

fn p(params: &Json, key: &str, default: i64) -> i64 {
    params[key].as_i64().unwrap_or(default)
}

/// (source text, number of tasks, has background program)
pub fn source(template: usize, params: &Json) -> (String, usize, bool) {
    let n1 = p(params, "n1", 2).clamp(0, 6);
    let n2 = p(params, "n2", 3).clamp(0, 6);
    let c1 = p(params, "c1", 5).clamp(1, 50);
    let c2 = p(params, "c2", 3).clamp(1, 50);
    let i0 = p(params, "i0", 10).clamp(1, 1000);
    let i1 = p(params, "i1", 20).clamp(1, 1000);
    let i2 = p(params, "i2", 30).clamp(1, 1000);
    let pr0 = p(params, "pr0", 0).clamp(0, 3);
    let pr1 = p(params, "pr1", 1).clamp(0, 3);
    let pr2 = p(params, "pr2", 1).clamp(0, 3);
    let globals = "VAR_GLOBAL\n  g_acc : DINT := 0;\n  g_cnt : DINT := 0;\n  g_aux : DINT := 0;\n  g_flag : BOOL := FALSE;\nEND_VAR\n";
    let leaf = format!(
        "FUNCTION Leaf : DINT\nVAR_INPUT\n  x : DINT;\nEND_VAR\nVAR\n  t : DINT;\nEND_VAR\nt := x * 2;\nIF t > {c1} THEN\n  t := t - {c1};\nEND_IF;\nLeaf := t + 1;\nEND_FUNCTION\n\n"
    );
    let mid = "FUNCTION Mid : DINT\nVAR_INPUT\n  x : DINT;\n  n : DINT;\nEND_VAR\nVAR\n  i : DINT;\n  s : DINT;\nEND_VAR\ns := 0;\nFOR i := 1 TO n DO\n  s := s + Leaf(x + i);\nEND_FOR;\nMid := s;\nEND_FUNCTION\n\n";
    let acc = format!(
        "FUNCTION_BLOCK Acc\nVAR_INPUT\n  amount : DINT;\nEND_VAR\nVAR_OUTPUT\n  total : DINT;\nEND_VAR\nVAR\n  calls : DINT;\nEND_VAR\nMETHOD PUBLIC Bump : DINT\nVAR_INPUT\n  delta : DINT;\nEND_VAR\ntotal := total + Leaf(delta);\nBump := total;\nEND_METHOD\ncalls := calls + 1;\ntotal := total + Mid(amount, {n1});\nEND_FUNCTION_BLOCK\n\n"
    );
    match template % TEMPLATES {
        // 0: call ladder FUNCTION -> FUNCTION -> FB body -> method, two tasks
        0 => {
            let s = format!(
                "CONFIGURATION C\n{globals}TASK T0 (INTERVAL := T#{i0}ms, PRIORITY := {pr0});\nTASK T1 (INTERVAL := T#{i1}ms, PRIORITY := {pr1});\nPROGRAM P0 WITH T0 : Main;\nPROGRAM P1 WITH T1 : Aux;\nEND_CONFIGURATION\n\n{leaf}{mid}{acc}PROGRAM Main\nVAR_EXTERNAL\n  g_acc : DINT;\n  g_cnt : DINT;\nEND_VAR\nVAR\n  fb : Acc;\n  k : DINT;\n  r : DINT;\nEND_VAR\ng_cnt := g_cnt + 1;\nFOR k := 1 TO {n2} DO\n  r := Mid(k, 2);\n  g_acc := g_acc + r;\nEND_FOR;\nfb(amount := g_cnt);\nr := fb.Bump(delta := {c2});\ng_acc := g_acc + fb.total;\nEND_PROGRAM\n\nPROGRAM Aux\nVAR_EXTERNAL\n  g_aux : DINT;\n  g_flag : BOOL;\nEND_VAR\nVAR\n  w : DINT;\nEND_VAR\nw := 0;\nWHILE w < {n1} DO\n  g_aux := g_aux + Leaf(w);\n  w := w + 1;\nEND_WHILE;\ng_flag := NOT g_flag;\nEND_PROGRAM\n"
            );
            (s, 2, false)
        }
        // 1: nested loops with IF/ELSIF/CASE and calls in conditions
        1 => {
            let s = format!(
                "CONFIGURATION C\n{globals}TASK T0 (INTERVAL := T#{i0}ms, PRIORITY := {pr0});\nTASK T1 (INTERVAL := T#{i1}ms, PRIORITY := {pr1});\nPROGRAM P0 WITH T0 : Main;\nPROGRAM P1 WITH T1 : Aux;\nEND_CONFIGURATION\n\n{leaf}{mid}PROGRAM Main\nVAR_EXTERNAL\n  g_acc : DINT;\n  g_cnt : DINT;\nEND_VAR\nVAR\n  i : DINT;\n  j : DINT;\n  sel : DINT;\nEND_VAR\ng_cnt := g_cnt + 1;\ni := 0;\nWHILE i < {n1} DO\n  FOR j := 0 TO {n2} DO\n    sel := (i + j + g_cnt) MOD 3;\n    CASE sel OF\n      0:\n        g_acc := g_acc + 1;\n      1:\n        g_acc := g_acc + Leaf(j);\n    ELSE\n      g_acc := g_acc - 1;\n    END_CASE;\n    IF Leaf(j) > {c2} THEN\n      g_acc := g_acc + 2;\n    ELSIF j = 1 THEN\n      g_acc := g_acc + 3;\n    ELSE\n      g_acc := g_acc + 4;\n    END_IF;\n  END_FOR;\n  i := i + 1;\nEND_WHILE;\nEND_PROGRAM\n\nPROGRAM Aux\nVAR_EXTERNAL\n  g_aux : DINT;\n  g_flag : BOOL;\nEND_VAR\nVAR\n  q : DINT;\nEND_VAR\nq := 0;\nREPEAT\n  g_aux := g_aux + Mid(q, 1);\n  q := q + 1;\nUNTIL q >= {n1}\nEND_REPEAT;\ng_flag := g_aux > {c1};\nEND_PROGRAM\n"
            );
            (s, 2, false)
        }
        // 2: FB containing an FB, methods calling functions, program calls the outer FB twice
        2 => {
            let s = format!(
                "CONFIGURATION C\n{globals}TASK T0 (INTERVAL := T#{i0}ms, PRIORITY := {pr0});\nTASK T1 (INTERVAL := T#{i1}ms, PRIORITY := {pr1});\nPROGRAM P0 WITH T0 : Main;\nPROGRAM P1 WITH T1 : Aux;\nEND_CONFIGURATION\n\n{leaf}{mid}{acc}FUNCTION_BLOCK Outer\nVAR_INPUT\n  seed : DINT;\nEND_VAR\nVAR_OUTPUT\n  res : DINT;\nEND_VAR\nVAR\n  inner : Acc;\n  m : DINT;\nEND_VAR\ninner(amount := seed);\nm := inner.Bump(delta := seed + 1);\nIF m > {c1} THEN\n  res := inner.total - m;\nELSE\n  res := inner.total + m;\nEND_IF;\nEND_FUNCTION_BLOCK\n\nPROGRAM Main\nVAR_EXTERNAL\n  g_acc : DINT;\n  g_cnt : DINT;\nEND_VAR\nVAR\n  o1 : Outer;\n  o2 : Outer;\nEND_VAR\ng_cnt := g_cnt + 1;\no1(seed := g_cnt);\no2(seed := o1.res);\no1(seed := {c2});\ng_acc := o1.res + o2.res;\nEND_PROGRAM\n\nPROGRAM Aux\nVAR_EXTERNAL\n  g_aux : DINT;\nEND_VAR\nVAR\n  a : Acc;\n  n : DINT;\nEND_VAR\nFOR n := 1 TO {n2} DO\n  a(amount := n);\nEND_FOR;\ng_aux := a.total;\nEND_PROGRAM\n"
            );
            (s, 2, false)
        }
        // 3: three tasks with different intervals/priorities and a background program
        3 => {
            let s = format!(
                "CONFIGURATION C\n{globals}TASK T0 (INTERVAL := T#{i0}ms, PRIORITY := {pr0});\nTASK T1 (INTERVAL := T#{i1}ms, PRIORITY := {pr1});\nTASK T2 (INTERVAL := T#{i2}ms, PRIORITY := {pr2});\nPROGRAM P0 WITH T0 : Main;\nPROGRAM P1 WITH T1 : Aux;\nPROGRAM P2 WITH T2 : Slow;\nPROGRAM P3 : Back;\nEND_CONFIGURATION\n\n{leaf}{mid}PROGRAM Main\nVAR_EXTERNAL\n  g_acc : DINT;\n  g_cnt : DINT;\nEND_VAR\ng_cnt := g_cnt + 1;\ng_acc := g_acc + Mid(g_cnt, {n1});\nEND_PROGRAM\n\nPROGRAM Aux\nVAR_EXTERNAL\n  g_aux : DINT;\n  g_cnt : DINT;\nEND_VAR\nVAR\n  i : DINT;\nEND_VAR\nFOR i := 1 TO {n2} DO\n  g_aux := g_aux + Leaf(i + g_cnt);\nEND_FOR;\nEND_PROGRAM\n\nPROGRAM Slow\nVAR_EXTERNAL\n  g_flag : BOOL;\n  g_aux : DINT;\nEND_VAR\ng_flag := g_aux > {c2};\nIF g_flag THEN\n  g_aux := g_aux - Leaf({c1});\nEND_IF;\nEND_PROGRAM\n\nPROGRAM Back\nVAR_EXTERNAL\n  g_acc : DINT;\nEND_VAR\nVAR\n  b : DINT;\nEND_VAR\nb := b + 1;\ng_acc := g_acc + Leaf(b);\nEND_PROGRAM\n"
            );
            (s, 3, true)
        }
        // 4: EXIT / CONTINUE / RETURN shapes
        4 => {
            let s = format!(
                "CONFIGURATION C\n{globals}TASK T0 (INTERVAL := T#{i0}ms, PRIORITY := {pr0});\nTASK T1 (INTERVAL := T#{i1}ms, PRIORITY := {pr1});\nPROGRAM P0 WITH T0 : Main;\nPROGRAM P1 WITH T1 : Aux;\nEND_CONFIGURATION\n\n{leaf}FUNCTION_BLOCK Gate\nVAR_INPUT\n  v : DINT;\nEND_VAR\nVAR_OUTPUT\n  passed : DINT;\nEND_VAR\nMETHOD PUBLIC Check : BOOL\nVAR_INPUT\n  lim : DINT;\nEND_VAR\nIF v > lim THEN\n  Check := TRUE;\nELSE\n  Check := Leaf(v) > lim;\nEND_IF;\nEND_METHOD\nIF (v MOD 3) = 0 THEN\n  RETURN;\nEND_IF;\npassed := passed + 1;\nEND_FUNCTION_BLOCK\n\nPROGRAM Main\nVAR_EXTERNAL\n  g_acc : DINT;\n  g_cnt : DINT;\nEND_VAR\nVAR\n  g : Gate;\n  i : DINT;\nEND_VAR\ng_cnt := g_cnt + 1;\nFOR i := 0 TO {n2} + 2 DO\n  IF i = 1 THEN\n    CONTINUE;\n  END_IF;\n  g(v := i - 1 + g_cnt);\n  IF g.Check(lim := {c2}) THEN\n    g_acc := g_acc + 10;\n    EXIT;\n  END_IF;\n  g_acc := g_acc + 1;\nEND_FOR;\nEND_PROGRAM\n\nPROGRAM Aux\nVAR_EXTERNAL\n  g_aux : DINT;\nEND_VAR\nVAR\n  w : DINT;\nEND_VAR\nw := 0;\nWHILE TRUE DO\n  w := w + 1;\n  IF w > {n1} THEN\n    EXIT;\n  END_IF;\n  g_aux := g_aux + Leaf(w);\nEND_WHILE;\nEND_PROGRAM\n"
            );
            (s, 2, false)
        }
        // 6: like 0, plus task-associated FB instances: one whose EN input stays FALSE (its body is skipped every
        // cycle) and one that runs
        6 => {
            let s = format!(
                "CONFIGURATION C\n{globals}TASK T0 (INTERVAL := T#{i0}ms, PRIORITY := {pr0});\nTASK T1 (INTERVAL := T#{i1}ms, PRIORITY := {pr1});\nPROGRAM P0 WITH T0 : Main (gate WITH T1, tick WITH T0);\nPROGRAM P1 WITH T1 : Aux;\nEND_CONFIGURATION\n\n{leaf}{mid}{acc}FUNCTION_BLOCK Gate\nVAR_INPUT\n  EN : BOOL;\nEND_VAR\nVAR_OUTPUT\n  ENO : BOOL;\nEND_VAR\nVAR\n  n : DINT;\nEND_VAR\nn := n + 1;\nEND_FUNCTION_BLOCK\n\nFUNCTION_BLOCK Tick\nVAR\n  n : DINT;\nEND_VAR\nn := n + Leaf(n);\nEND_FUNCTION_BLOCK\n\nPROGRAM Main\nVAR_EXTERNAL\n  g_acc : DINT;\n  g_cnt : DINT;\nEND_VAR\nVAR\n  fb : Acc;\n  gate : Gate;\n  tick : Tick;\n  k : DINT;\n  r : DINT;\nEND_VAR\ng_cnt := g_cnt + 1;\nFOR k := 1 TO {n2} DO\n  r := Mid(k, 2);\n  g_acc := g_acc + r;\nEND_FOR;\nfb(amount := g_cnt);\nr := fb.Bump(delta := {c2});\ng_acc := g_acc + fb.total;\nEND_PROGRAM\n\nPROGRAM Aux\nVAR_EXTERNAL\n  g_aux : DINT;\n  g_flag : BOOL;\nEND_VAR\nVAR\n  w : DINT;\nEND_VAR\nw := 0;\nWHILE w < {n1} DO\n  g_aux := g_aux + Leaf(w);\n  w := w + 1;\nEND_WHILE;\ng_flag := NOT g_flag;\nEND_PROGRAM\n"
            );
            (s, 2, false)
        }
        // 5: deep call chain (depth 4) inside loops
        _ => {
            let s = format!(
                "CONFIGURATION C\n{globals}TASK T0 (INTERVAL := T#{i0}ms, PRIORITY := {pr0});\nTASK T1 (INTERVAL := T#{i1}ms, PRIORITY := {pr1});\nPROGRAM P0 WITH T0 : Main;\nPROGRAM P1 WITH T1 : Aux;\nEND_CONFIGURATION\n\n{leaf}{mid}FUNCTION Deep3 : DINT\nVAR_INPUT\n  x : DINT;\nEND_VAR\nDeep3 := Mid(x, 2) + 1;\nEND_FUNCTION\n\nFUNCTION Deep4 : DINT\nVAR_INPUT\n  x : DINT;\nEND_VAR\nVAR\n  y : DINT;\nEND_VAR\ny := Deep3(x);\nIF y > {c1} THEN\n  y := Deep3(y - {c1});\nEND_IF;\nDeep4 := y;\nEND_FUNCTION\n\nPROGRAM Main\nVAR_EXTERNAL\n  g_acc : DINT;\n  g_cnt : DINT;\nEND_VAR\nVAR\n  i : DINT;\nEND_VAR\ng_cnt := g_cnt + 1;\nFOR i := 1 TO {n1} DO\n  L1: g_acc := g_acc + Deep4(i + g_cnt);\nEND_FOR;\ng_acc := g_acc + 1;\nEND_PROGRAM\n\nPROGRAM Aux\nVAR_EXTERNAL\n  g_aux : DINT;\n  g_flag : BOOL;\nEND_VAR\nL2: g_aux := g_aux + Deep3({c2});\ng_flag := NOT g_flag;\nEND_PROGRAM\n"
            );
            (s, 2, false)
        }
    }
}

/// byte ranges of the PROGRAM bodies (after the CONFIGURATION) with the
/// debugger thread id of the task the program type is bound to: tasks are
/// numbered 1.. in declaration order, the background "thread" comes next.
pub fn program_threads(src: &str, n_tasks: usize) -> Vec<(u32, u32, u32)> {
    let mut out = vec![];
    let body_from = src.find("END_CONFIGURATION").unwrap_or(0);
    // program type -> thread id from the configuration lines
    let mut binding: Vec<(String, u32)> = vec![];
    for line in src[..body_from].lines() {
        let line = line.trim();
        if let Some(rest) = line.strip_prefix("PROGRAM ") {
            // PROGRAM P0 WITH T0 : Main;   |   PROGRAM P3 : Back;
            let rest = rest.trim_end_matches(';');
            let (lhs, ty) = match rest.split_once(':') {
                Some((l, t)) => (l.trim(), t.split('(').next().unwrap_or(t).trim().to_string()),
                None => continue,
            };
            let thread = match lhs.split_once(" WITH T") {
                Some((_, t)) => t.trim().parse::<u32>().map(|t| t + 1).unwrap_or(0),
                None => n_tasks as u32 + 1,
            };
            binding.push((ty, thread));
        }
    }
    let mut pos = body_from;
    while let Some(off) = src[pos..].find("\nPROGRAM ") {
        let start = pos + off + 1;
        let name_end = src[start + 8..].find('\n').map(|e| start + 8 + e).unwrap_or(src.len());
        let name = src[start + 8..name_end].trim().to_string();
        let end = src[start..].find("END_PROGRAM").map(|e| start + e + 11).unwrap_or(src.len());
        if let Some((_, thread)) = binding.iter().find(|(ty, _)| *ty == name) {
            out.push((start as u32, end as u32, *thread));
        }
        pos = end;
    }
    out
}
