//! C09 - restart semantics: warm keeps exactly RETAIN data, cold equals a
//! fresh start; a power cycle preserves what a warm restart preserves.
//!
//! Oracle = differential twin: after every restart / power cycle a brand-new
//! runtime is built from the same sources, the variables the *model* says are
//! retained are copied into it, and from then on real and twin are driven with
//! the same operations and compared after every one (variables, output image,
//! time, cycle counter, fault latch, executed tasks, access-path reads).
use serde_json::{json, Value as Json};

use trust_runtime::debug::RuntimeEvent;
use trust_runtime::error::RuntimeError;
use trust_runtime::value::{Duration, Value};
use trust_runtime::{RestartMode, Runtime};

use crate::framework::{guard, Check, Stats, Tier, Violation};
use crate::rng::{Fnv, Rng};
use crate::world;

pub struct C09Check;
pub static C09: C09Check = C09Check;

const SHAPES: &[&str] = &["dint", "dint", "bool", "real", "lreal", "string", "time", "enum", "array", "struct", "sint", "uint", "lint", "date"];
const QUALS: &[&str] = &["retain", "non_retain", "none", "persistent"];

fn decl(shape: &str, init: i64) -> String {
    let i = init.rem_euclid(100);
    match shape {
        "dint" => format!("DINT := {i}"),
        "bool" => format!("BOOL := {}", if i % 2 == 0 { "FALSE" } else { "TRUE" }),
        "real" => format!("REAL := {i}.5"),
        "lreal" => format!("LREAL := {i}.25"),
        "string" => format!("STRING := 's{i}'"),
        "time" => format!("TIME := T#{i}ms"),
        "enum" => format!("Color := Color#{}", ["Red", "Green", "Blue"][(i % 3) as usize]),
        "array" => "ARRAY[0..2] OF INT".to_string(),
        "struct" => "Pt".to_string(),
        "sint" => format!("SINT := {}", i % 50),
        "uint" => format!("UINT := {i}"),
        "lint" => format!("LINT := {i}"),
        _ => format!("DATE := D#2020-01-{:02}", 1 + i % 28),
    }
}

fn update(shape: &str, v: &str) -> String {
    match shape {
        "dint" => format!("{v} := ({v} + 1 + in_w) MOD 100000;"),
        "bool" => format!("{v} := NOT {v};"),
        "real" => format!("{v} := {v} + 0.5;"),
        "lreal" => format!("{v} := {v} + 0.25;"),
        "string" => format!("IF in_b THEN {v} := 'J\u{fc}rgen M\u{fc}ller'; ELSE {v} := 'q'; END_IF;"),
        "time" => format!("{v} := ADD_TIME({v}, T#1ms);"),
        "enum" => format!("IF {v} = Color#Red THEN {v} := Color#Green; ELSE {v} := Color#Red; END_IF;"),
        "array" => format!("{v}[1] := {v}[1] + INT#1; {v}[2] := in_w;"),
        "struct" => format!("{v}.x := {v}.x + 2; {v}.y := {v}.y + 1.0;"),
        "sint" => format!("IF {v} < SINT#100 THEN {v} := {v} + SINT#1; END_IF;"),
        "uint" => format!("{v} := {v} + UINT#3;"),
        "lint" => format!("{v} := {v} + LINT#1000000;"),
        _ => format!("IF in_b THEN {v} := D#2021-02-03; END_IF;"),
    }
}

fn block(qual: &str, global: bool) -> &'static str {
    match (qual, global) {
        ("retain", true) => "VAR_GLOBAL RETAIN",
        ("non_retain", true) => "VAR_GLOBAL NON_RETAIN",
        ("persistent", true) => "VAR_GLOBAL PERSISTENT",
        (_, true) => "VAR_GLOBAL",
        ("retain", false) => "VAR RETAIN",
        ("non_retain", false) => "VAR NON_RETAIN",
        ("persistent", false) => "VAR PERSISTENT",
        _ => "VAR",
    }
}

struct VarSpec {
    name: String,
    global: bool,
    qual: String,
    shape: String,
    init: i64,
}

fn parse_vars(case: &Json) -> Vec<VarSpec> {
    case["vars"]
        .as_array()
        .cloned()
        .unwrap_or_default()
        .iter()
        .enumerate()
        .map(|(i, v)| VarSpec {
            name: format!("v{}", v["id"].as_u64().unwrap_or(i as u64)),
            global: v["global"].as_bool().unwrap_or(false),
            qual: v["qual"].as_str().unwrap_or("none").to_string(),
            shape: v["shape"].as_str().unwrap_or("dint").to_string(),
            init: v["init"].as_i64().unwrap_or(0),
        })
        .collect()
}

pub fn source_for(case: &Json) -> String {
    source_with(case, None)
}

/// `trig_override`: declared initial value of the SINGLE variable (used for the warm-restart twin, whose
/// task edge memory must be seeded from the retained value exactly as registration seeds it from the initial value)
pub fn source_with(case: &Json, trig_override: Option<bool>) -> String {
    let vars = parse_vars(case);
    let trig_init = trig_override.unwrap_or_else(|| case["trig_init"].as_bool().unwrap_or(false));
    let trig_retain = case["trig_retain"].as_bool().unwrap_or(false);
    let mut s = String::from(
        "TYPE Color : (Red, Green, Blue); END_TYPE\nTYPE Pt : STRUCT x : DINT; y : REAL; END_STRUCT END_TYPE\n\n\
FUNCTION_BLOCK Acc\nVAR_INPUT d : DINT; END_VAR\nVAR_OUTPUT sum : DINT; END_VAR\nVAR n : DINT; END_VAR\nn := n + 1;\nsum := sum + d + 1;\nEND_FUNCTION_BLOCK\n\n\
FUNCTION_BLOCK Gate\nVAR\n  sensor AT %IX3.0 : BOOL;\nEND_VAR\nVAR_OUTPUT\n  lamp AT %QX5.0 : BOOL;\n  hits : INT;\nEND_VAR\nlamp := sensor;\nIF sensor THEN hits := hits + INT#1; END_IF;\nEND_FUNCTION_BLOCK\n\nCONFIGURATION C\n",
    );
    // a configuration-level FB instance owning %I/%Q variables and the target of an access path
    s.push_str("VAR_GLOBAL\n  door : Gate;\nEND_VAR\n");
    // globals that live at a direct address and whose next value depends on the previous one
    s.push_str("VAR_GLOBAL\n  g_acc AT %QD20 : DINT;\nEND_VAR\nVAR_GLOBAL RETAIN\n  g_racc AT %QD24 : DINT;\nEND_VAR\n");
    s.push_str(&format!(
        "{}\n  trig : BOOL := {};\nEND_VAR\n",
        if trig_retain { "VAR_GLOBAL RETAIN" } else { "VAR_GLOBAL" },
        if trig_init { "TRUE" } else { "FALSE" }
    ));
    for v in vars.iter().filter(|v| v.global) {
        s.push_str(&format!("{}\n  {} : {};\nEND_VAR\n", block(&v.qual, true), v.name, decl(&v.shape, v.init)));
    }
    // no_tasks: the same programs without any TASK (all of them run as background programs)
    let no_tasks = case["no_tasks"].as_bool().unwrap_or(false);
    if !no_tasks {
        s.push_str("TASK Ev (SINGLE := trig, PRIORITY := 0);\nTASK Cy (INTERVAL := T#10ms, PRIORITY := 1);\n");
    }
    let inst = match case["inst_qual"].as_str().unwrap_or("none") {
        "retain" => "RETAIN ",
        "non_retain" => "NON_RETAIN ",
        _ => "",
    };
    if no_tasks {
        s.push_str(&format!("PROGRAM {inst}P1 : Main;\nPROGRAM P2 : Other;\nPROGRAM P3 : Bg;\n"));
    } else {
        s.push_str(&format!("PROGRAM {inst}P1 WITH Cy : Main (fb WITH Ev);\nPROGRAM P2 WITH Ev : Other;\nPROGRAM P3 : Bg;\n"));
    }
    s.push_str("VAR_ACCESS\n  A1 : P1.acc_d : DINT READ_WRITE;\n  A2 : P1.acc_a[1] : INT READ_WRITE;\n  A3 : door.hits : INT READ_WRITE;\nEND_VAR\nEND_CONFIGURATION\n\n");
    s.push_str("PROGRAM Main\nVAR_EXTERNAL\n  g_acc : DINT;\n  g_racc : DINT;\n");
    for v in vars.iter().filter(|v| v.global) {
        let ty = decl(&v.shape, 0);
        let ty = ty.split(" :=").next().unwrap_or("DINT").to_string();
        s.push_str(&format!("  {} : {};\n", v.name, ty));
    }
    s.push_str("END_VAR\n");
    for v in vars.iter().filter(|v| !v.global) {
        s.push_str(&format!("{}\n  {} : {};\nEND_VAR\n", block(&v.qual, false), v.name, decl(&v.shape, v.init)));
    }
    s.push_str(
        "VAR\n  fb : Acc;\n  acc_d : DINT;\n  acc_a : ARRAY[0..2] OF INT;\n  t : DINT;\n  seen : INT;\n  in_w AT %IW0 : INT;\n  in_b AT %IX2.0 : BOOL;\n  out_d AT %QD0 : DINT;\n  out_x AT %QX4.0 : BOOL;\n  out_fb AT %QD8 : DINT;\n  out_a AT %QW12 : INT;\nEND_VAR\n",
    );
    for v in &vars {
        s.push_str(&update(&v.shape, &v.name));
        s.push('\n');
    }
    s.push_str("door();\nseen := door.hits;\ng_acc := (g_acc + in_w + 1) MOD 100000;\ng_racc := (g_racc + 3) MOD 100000;\nt := 1000 / (in_w - 77);\n");
    let dints: Vec<&VarSpec> = vars.iter().filter(|v| v.shape == "dint").collect();
    let mut sum = String::from("acc_d");
    for v in &dints {
        sum.push_str(&format!(" + {}", v.name));
    }
    s.push_str(&format!("out_d := ({sum}) MOD 1000000;\n"));
    s.push_str("out_x := in_b;\nout_fb := fb.sum;\nout_a := acc_a[1];\nEND_PROGRAM\n\n");
    s.push_str("PROGRAM Other\nVAR\n  cnt : INT;\n  out_c AT %QW6 : INT;\nEND_VAR\ncnt := cnt + INT#1;\nout_c := cnt;\nEND_PROGRAM\n\n");
    s.push_str("PROGRAM Bg\nVAR_EXTERNAL trig : BOOL; END_VAR\nVAR\n  n : DINT;\n  out_n AT %QD16 : DINT;\nEND_VAR\nn := n + 1;\nout_n := n;\nEND_PROGRAM\n");
    s
}

const IN_LEN: usize = 4;
const OUT_LEN: usize = 28;

struct Side {
    rt: Runtime,
    debug: trust_runtime::debug::DebugControl,
}

fn build(src: &str) -> Result<Side, Violation> {
    let mut rt = match guard("compile", || world::compile(src))? {
        Ok(rt) => rt,
        Err(e) => return Err(Violation::new("harness/compile-rejected", format!("{e}\n{src}"))),
    };
    rt.io_mut().resize(IN_LEN, OUT_LEN, 0);
    let debug = rt.enable_debug();
    Ok(Side { rt, debug })
}

fn variant_name(e: &RuntimeError) -> String {
    let t = format!("{e:?}");
    t.split(|c: char| !c.is_alphanumeric()).next().unwrap_or("").to_string()
}

fn tasks_run(side: &Side) -> Vec<String> {
    side.debug
        .drain_runtime_events()
        .iter()
        .filter_map(|e| match e {
            RuntimeEvent::TaskStart { name, .. } => Some(name.to_string()),
            _ => None,
        })
        .collect()
}

fn get_var(rt: &Runtime, v: &VarSpec) -> Option<Value> {
    if v.global {
        rt.storage().get_global(&v.name).cloned()
    } else {
        world::instance_var(rt, "P1", &v.name)
    }
}

fn set_var(rt: &mut Runtime, v: &VarSpec, value: Value) {
    if v.global {
        rt.storage_mut().set_global(v.name.clone(), value);
    } else if let Some(Value::Instance(id)) = rt.storage().get_global("P1").cloned() {
        rt.storage_mut().set_instance_var(id, v.name.clone(), value);
    }
}

fn retained(v: &VarSpec) -> bool {
    v.qual == "retain" || v.qual == "persistent"
}

/// unqualified program-level variables of Main besides the generated ones (FB instances are never retainable)
const FIXED_UNQUALIFIED: &[&str] = &["acc_d", "acc_a", "t", "seen", "in_w", "in_b", "out_d", "out_x", "out_fb", "out_a"];

/// the model's retained set: (global?, name). `PROGRAM RETAIN P1 : Main` makes the *unqualified* program
/// variables retentive; explicit NON_RETAIN blocks keep their own qualifier.
fn retained_names(case: &Json, vars: &[VarSpec]) -> Vec<(bool, String)> {
    let inst_retain = case["inst_qual"] == "retain";
    let mut out = vec![];
    for v in vars {
        let keep = retained(v) || (inst_retain && !v.global && v.qual == "none");
        if keep {
            out.push((v.global, v.name.clone()));
        }
    }
    if inst_retain {
        out.extend(FIXED_UNQUALIFIED.iter().map(|n| (false, (*n).to_string())));
    }
    if case["trig_retain"].as_bool().unwrap_or(false) {
        out.push((true, "trig".to_string()));
    }
    out.push((true, "g_racc".to_string()));
    out
}

fn get_named(rt: &Runtime, global: bool, name: &str) -> Option<Value> {
    if global {
        rt.storage().get_global(name).cloned()
    } else {
        world::instance_var(rt, "P1", name)
    }
}

fn set_named(rt: &mut Runtime, global: bool, name: &str, value: Value) {
    if global {
        rt.storage_mut().set_global(name.to_string(), value);
    } else if let Some(Value::Instance(id)) = rt.storage().get_global("P1").cloned() {
        rt.storage_mut().set_instance_var(id, name.to_string(), value);
    }
}

/// mechanism-level class of a differing storage path
fn classify_path(path: &str, vars: &[VarSpec], trig_retain: bool) -> String {
    let leaf = path.rsplit('.').next().unwrap_or(path);
    let base = path.trim_start_matches("P1.");
    let name = base.split(|c| c == '.' || c == '[').next().unwrap_or(base);
    if let Some(v) = vars.iter().find(|v| v.name == name && (v.global == !path.starts_with("P1."))) {
        return format!("var/{}/{}", if v.global { "global" } else { "program" }, v.qual);
    }
    if path == "g_acc" || path == "g_racc" {
        return format!("var/global-at-direct-address/{}", if path == "g_racc" { "retain" } else { "none" });
    }
    if path == "trig" {
        return format!("var/global/{}", if trig_retain { "retain" } else { "none" });
    }
    if path.starts_with("P1.fb.") {
        return "task-fb-instance".to_string();
    }
    if path.starts_with("door.") {
        return "global-fb-instance".to_string();
    }
    if path.starts_with("P2.") {
        return "event-task-program".to_string();
    }
    if path.starts_with("P3.") {
        return "background-program".to_string();
    }
    if leaf.starts_with("out_") || leaf.starts_with("in_") {
        return "io-bound-variable".to_string();
    }
    if leaf.starts_with("acc_") {
        return "access-path-variable".to_string();
    }
    "other".to_string()
}

fn compare(real: &Side, twin: &Side, ctx: &str, vars: &[VarSpec], trig_retain: bool, what: &str, image: bool) -> Result<(), Violation> {
    let a = world::dump_storage(&real.rt);
    let b = world::dump_storage(&twin.rt);
    for (ra, tb) in a.iter().zip(b.iter()) {
        if ra.0 != tb.0 {
            return Err(Violation::new(format!("{ctx}/variable-set-differs"), format!("{what}: real has {} where the model has {}", ra.0, tb.0)));
        }
        if ra.1 != tb.1 {
            return Err(Violation::new(
                format!("{ctx}/{}", classify_path(&ra.0, vars, trig_retain)),
                format!("{what}: {} = {} but the model (fresh runtime + retained set) has {}", ra.0, ra.1, tb.1),
            ));
        }
    }
    if a.len() != b.len() {
        return Err(Violation::new(format!("{ctx}/variable-set-differs"), format!("{what}: {} vs {} variables", a.len(), b.len())));
    }
    // the image is compared once a cycle has published (what the image holds between a restart and the
    // first cycle is not stated by the property)
    if image && real.rt.io().outputs() != twin.rt.io().outputs() {
        return Err(Violation::new(
            format!("{ctx}/output-image"),
            format!("{what}: outputs {:?}, model {:?}", real.rt.io().outputs(), twin.rt.io().outputs()),
        ));
    }
    if real.rt.current_time() != twin.rt.current_time() {
        return Err(Violation::new(format!("{ctx}/time"), format!("{what}: time {:?} vs {:?}", real.rt.current_time(), twin.rt.current_time())));
    }
    if real.rt.cycle_counter() != twin.rt.cycle_counter() {
        return Err(Violation::new(format!("{ctx}/cycle-counter"), format!("{what}: {} vs {}", real.rt.cycle_counter(), twin.rt.cycle_counter())));
    }
    if real.rt.faulted() != twin.rt.faulted() {
        return Err(Violation::new(format!("{ctx}/fault-latch"), format!("{what}: faulted {} vs {}", real.rt.faulted(), twin.rt.faulted())));
    }
    if !real.rt.storage().frames().is_empty() {
        return Err(Violation::new(format!("{ctx}/frames-left"), format!("{what}: call frames left")));
    }
    Ok(())
}

impl Check for C09Check {
    fn id(&self) -> &'static str {
        "C09"
    }
    fn cases(&self, tier: Tier) -> u64 {
        match tier {
            Tier::Quick => 6_000,
            Tier::Thorough => 50_000,
        }
    }
    fn rule(&self) -> &'static str {
        "case = seeded program (3-10 variables of 13 retainable shapes, each global or program-level with qualifier RETAIN/NON_RETAIN/none/PERSISTENT, a SINGLE variable with seeded initial value and qualifier, event task + cyclic task + background program, task-bound FB instance, %I/%Q bindings in three programs, two VAR_ACCESS paths) x history of cycles with input bytes / SINGLE writes / access-path writes, warm and cold restarts, retain saves (explicit and periodic), power cycles, a value fault; after every restart or power cycle a fresh twin runtime + the model's retained set is driven in lock-step and compared after every operation; later additions: PROGRAM RETAIN/NON_RETAIN instance qualifiers, failing saves and the immediate retry (followed by a power cycle), a third of the cases with the real FileRetainStore behind the store seam, a configuration-level FB instance owning %I/%Q variables and an access path, warm restart through the resource loop's restart path; round 3: a sixth of the cases without any TASK, two globals at direct addresses (one RETAIN) that accumulate; distinct non-trivial = distinct (program shape, restart kind, state-changing cycles before it >= 1) hashes"
    }
    fn assumptions(&self) -> Vec<&'static str> {
        vec![
            "retained set = variables declared RETAIN or PERSISTENT at configuration (global) or program level (the generator never puts FB instances or references into them)",
            "the %I image is written explicitly before every cycle on both sides, so image contents surviving a restart are not judged; no %M bindings are generated",
            "power cycle = new runtime from the same sources + load from the store's durable copy; its expected content is the retained set as of the last observed save",
            "runner-style 'restart then load_retain_store' is not judged for cold restarts (whether a cold restart re-reads the retain file is left open by the property)",
            "the output image is compared once a successful cycle has published since the restart, not before (a restart does not clear the image; the property speaks of outputs for subsequent input traces)",
            "values compared modulo numeric type tag",
        ]
    }
    fn components(&self) -> (Vec<&'static str>, Vec<&'static str>) {
        (
            vec!["compiler", "Runtime::restart", "scheduler::restart_resource_runtime (restart path of the resource loop, via H4c)", "retain_snapshot/apply_retain_snapshot", "RetainManager", "execute_cycle incl. I/O bindings, task FB bindings, access map", "Runtime::read_access/write_access"],
            vec!["retain store (in-memory durable copy)", "clock", "process boundary of a power cycle (runtime dropped and rebuilt in-process)", "resource runner loop threads (its restart path itself is real: entered through hook H4c)"],
        )
    }

    fn generate(&self, rng: &mut Rng, tier: Tier, _index: u64) -> Json {
        let mut cfg = rng.fork("prog");
        let mut o = rng.fork("ops");
        let n = cfg.usize(3, 10);
        let vars: Vec<Json> = (0..n)
            .map(|i| json!({"id": i, "global": cfg.chance(2, 5), "qual": *cfg.pick(QUALS), "shape": *cfg.pick(SHAPES), "init": cfg.range(0, 99)}))
            .collect();
        let n_ops = match tier {
            Tier::Quick => o.usize(4, 30),
            Tier::Thorough => o.usize(8, 80),
        };
        let periodic_save = o.chance(1, 3);
        let mut ops = vec![];
        for _ in 0..n_ops {
            match o.below(20) {
                0 => ops.push(json!({"k": "restart", "mode": "warm"})),
                1 => ops.push(json!({"k": "restart", "mode": "warm", "runner": o.bool()})),
                2 | 3 => ops.push(json!({"k": "restart", "mode": "cold"})),
                4 => {
                    let fail = o.chance(1, 4);
                    ops.push(json!({"k": "save", "fail": fail}));
                    if fail && o.bool() {
                        // the retry right after a refused save, with nothing changed in between, must reach the medium
                        ops.push(json!({"k": "save", "fail": false}));
                        ops.push(json!({"k": "power_cycle"}));
                    }
                }
                5 => ops.push(json!({"k": "power_cycle"})),
                6 => ops.push(json!({"k": "access_write", "name": *o.pick(&["A1", "A2", "A3"]), "val": o.range(-100, 100)})),
                7 => ops.push(json!({"k": "cycle", "dt": 10_000_000, "in_w": 77, "in_b": false})), // value fault
                _ => {
                    let dt = *o.pick(&[0i64, 1_000_000, 10_000_000, 10_000_000, 25_000_000]);
                    let trig = match o.below(4) {
                        0 => Json::from(true),
                        1 => Json::from(false),
                        _ => Json::Null,
                    };
                    ops.push(json!({"k": "cycle", "dt": dt, "in_w": o.range(-50, 50), "in_b": o.bool(), "trig": trig}));
                }
            }
        }
        json!({
            "vars": vars,
            "inst_qual": *cfg.pick(&["none", "none", "retain", "non_retain"]),
            "trig_init": cfg.chance(1, 2),
            "trig_retain": cfg.chance(1, 3),
            "file_store": rng.fork("store").chance(1, 3),
            "no_tasks": rng.fork("tasks").chance(1, 6),
            "periodic_save_ms": if periodic_save { Json::from(*o.pick(&[0i64, 10, 30])) } else { Json::Null },
            "ops": ops,
        })
    }

    fn run(&self, case: &Json, stats: &mut Stats) -> Result<(), Violation> {
        for p in ["probe.warm_after_state_change", "probe.cold_after_state_change", "probe.power_cycle_with_saved_data", "probe.event_task_ran_after_restart", "probe.restart_with_single_true", "probe.access_write_after_restart", "probe.restart_while_faulted", "probe.periodic_save_observed", "probe.runner_style_warm_restart", "probe.file_retain_store"] {
            stats.add(p, 0);
        }
        let src = source_for(case);
        let vars = parse_vars(case);
        let trig_retain = case["trig_retain"].as_bool().unwrap_or(false);
        let trig_spec = VarSpec { name: "trig".into(), global: true, qual: if trig_retain { "retain".into() } else { "none".into() }, shape: "bool".into(), init: 0 };
        let mut real = build(&src)?;
        let store = world::SimRetainStore::new();
        if case["file_store"].as_bool().unwrap_or(false) {
            // the durable copy goes through the real codec and a real file (FileRetainStore)
            let dir = crate::framework::scratch_dir().join(format!("c09-{}", std::process::id()));
            let _ = std::fs::create_dir_all(&dir);
            let path = dir.join("retain.bin");
            let _ = std::fs::remove_file(&path);
            store.0.lock().unwrap().via_file = Some(path);
            stats.inc("probe.file_retain_store");
        }
        let save_interval = case["periodic_save_ms"].as_i64().map(Duration::from_millis);
        real.rt.set_retain_store(Some(Box::new(store.clone())), save_interval);
        let mut twin: Option<Side> = None;
        let mut ctx = String::from("initial");
        // the model's durable copy: retained set as of the last observed save
        let mut durable: Vec<(bool, String, Value)> = vec![];
        let mut store_calls_seen = 0u64;
        let mut now: i64 = 0;
        let mut changed_cycles = 0u64;
        // a successful cycle has published the outputs since the last restart / power cycle
        let mut published = false;
        let mut shape = Fnv::new();
        for v in &vars {
            shape.str(&v.shape).str(&v.qual).u64(u64::from(v.global));
        }
        stats.sample(json!({"source": src, "ops": case["ops"].as_array().map(|o| o.iter().take(8).cloned().collect::<Vec<_>>())}));

        let names = retained_names(case, &vars);
        let snapshot_retained = |rt: &Runtime| -> Vec<(bool, String, Value)> {
            names.iter().filter_map(|(g, n)| get_named(rt, *g, n).map(|v| (*g, n.clone(), v))).collect()
        };

        for (opi, op) in case["ops"].as_array().cloned().unwrap_or_default().iter().enumerate() {
            let kind = op["k"].as_str().unwrap_or("cycle");
            match kind {
                "restart" => {
                    let warm = op["mode"] == "warm";
                    let mode = if warm { RestartMode::Warm } else { RestartMode::Cold };
                    let keep = snapshot_retained(&real.rt);
                    let keep_trig = keep.iter().find(|(g, n, _)| *g && n == "trig").map(|(_, _, v)| v.clone());
                    if real.rt.faulted() {
                        stats.inc("probe.restart_while_faulted");
                    }
                    let runner = warm && op["runner"].as_bool().unwrap_or(false);
                    // runner = the restart path of the resource loop (hook H4c), otherwise Runtime::restart itself
                    let r = if runner {
                        stats.inc("probe.runner_style_warm_restart");
                        guard("restart_resource_runtime", || trust_runtime::scheduler::verif_restart_resource_runtime(&mut real.rt, mode))?
                    } else {
                        guard("restart", || real.rt.restart(mode))?
                    };
                    if let Err(e) = r {
                        return Err(Violation::new(format!("restart-{}/error", op["mode"].as_str().unwrap_or("")), format!("op {opi}: {e:?}")));
                    }
                    let _ = real.debug.drain_runtime_events();
                    let twin_src = match (&keep_trig, warm) {
                        (Some(Value::Bool(b)), true) => source_with(case, Some(*b)),
                        _ => src.clone(),
                    };
                    let mut t = build(&twin_src)?;
                    if warm {
                        for (g, n, val) in keep {
                            // the SINGLE variable's retained value is the twin's declared initial value (edge memory)
                            if !(g && n == "trig") {
                                set_named(&mut t.rt, g, &n, val);
                            }
                        }
                    }
                    let _ = t.debug.drain_runtime_events();
                    ctx = format!("restart-{}{}", if warm { "warm" } else { "cold" }, if runner { "-runner" } else { "" });
                    now = 0;
                    stats.inc(&format!("fault.restart_{}", if warm { "warm" } else { "cold" }));
                    if changed_cycles > 0 {
                        stats.inc(if warm { "probe.warm_after_state_change" } else { "probe.cold_after_state_change" });
                        let mut h = shape;
                        h.str(&ctx);
                        stats.nontrivial(h.finish());
                    }
                    if world::global_bool(&real.rt, "trig") == Some(true) {
                        stats.inc("probe.restart_with_single_true");
                    }
                    compare(&real, &t, &ctx, &vars, trig_retain, &format!("op {opi} right after the restart"), false)?;
                    published = false;
                    twin = Some(t);
                    stats.log(&format!("op{opi}:{ctx}"));
                }
                "save" => {
                    let fail = op["fail"].as_bool().unwrap_or(false);
                    store.0.lock().unwrap().fail_store = fail;
                    let r = guard("save_retain_store", || real.rt.save_retain_store())?;
                    store.0.lock().unwrap().fail_store = false;
                    store_calls_seen = store.0.lock().unwrap().store_calls;
                    if fail {
                        // the medium refused the write: nothing new is durable; an Ok here would hide the loss
                        let unchanged_skip = r.is_ok() && store_calls_seen == store.0.lock().unwrap().store_calls;
                        let _ = unchanged_skip;
                        stats.inc("fault.store_write_failed");
                        stats.log(&format!("op{opi}:save-failed:{}", r.is_ok()));
                        continue;
                    }
                    if let Err(e) = r {
                        return Err(Violation::new("save/error", format!("op {opi}: {e:?}")));
                    }
                    durable = snapshot_retained(&real.rt);
                    stats.inc("fault.explicit_save");
                    stats.log(&format!("op{opi}:save"));
                }
                "power_cycle" => {
                    // only the durable copy survives
                    let mut fresh = build(&src)?;
                    fresh.rt.set_retain_store(Some(Box::new(store.clone())), save_interval);
                    let r = guard("load_retain_store", || fresh.rt.load_retain_store())?;
                    if let Err(e) = r {
                        return Err(Violation::new("power-cycle/load-error", format!("op {opi}: {e:?}")));
                    }
                    real = fresh;
                    let mut t = build(&src)?;
                    for (g, n, val) in durable.clone() {
                        set_named(&mut t.rt, g, &n, val);
                    }
                    ctx = "power-cycle".to_string();
                    now = 0;
                    stats.inc("fault.power_cycle");
                    if !durable.is_empty() && changed_cycles > 0 {
                        stats.inc("probe.power_cycle_with_saved_data");
                        let mut h = shape;
                        h.str(&ctx);
                        stats.nontrivial(h.finish());
                    }
                    // edge memory: a process start registers tasks before the retained values are loaded, so a
                    // retained TRUE SINGLE may or may not count as an edge; avoid judging it: align both sides
                    compare(&real, &t, &ctx, &vars, trig_retain, &format!("op {opi} right after the power cycle"), false)?;
                    published = false;
                    twin = Some(t);
                    stats.log(&format!("op{opi}:power"));
                }
                "access_write" => {
                    let name = op["name"].as_str().unwrap_or("A1");
                    let val = op["val"].as_i64().unwrap_or(0);
                    let value = if name == "A1" { Value::DInt(val as i32) } else { Value::Int(val as i16) };
                    let r = guard("write_access", || real.rt.write_access(name, value.clone()))?;
                    if let Some(t) = twin.as_mut() {
                        let rt2 = t.rt.write_access(name, value.clone());
                        if r.is_ok() != rt2.is_ok() {
                            return Err(Violation::new(format!("{ctx}/access-path-write-result"), format!("op {opi}: {r:?} vs model {rt2:?}")));
                        }
                        let (ra, ta) = (real.rt.read_access(name), t.rt.read_access(name));
                        if ra.as_ref().map(world::canon) != ta.as_ref().map(world::canon) {
                            return Err(Violation::new(format!("{ctx}/access-path-read"), format!("op {opi}: read {name} = {ra:?}, model {ta:?}")));
                        }
                        stats.inc("probe.access_write_after_restart");
                        compare(&real, t, &ctx, &vars, trig_retain, &format!("op {opi} after access write"), published)?;
                    }
                    stats.log(&format!("op{opi}:access"));
                }
                _ => {
                    let dt = op["dt"].as_i64().unwrap_or(10_000_000).max(0);
                    now += dt;
                    stats.sim_time_ns += dt as u128;
                    let in_w = op["in_w"].as_i64().unwrap_or(0) as i16;
                    let in_b = op["in_b"].as_bool().unwrap_or(false);
                    let mut bytes = vec![0u8; IN_LEN];
                    bytes[0..2].copy_from_slice(&in_w.to_le_bytes());
                    bytes[2] = u8::from(in_b);
                    bytes[3] = (in_w as u8) & 1;
                    let mut results = vec![];
                    let mut ran = vec![];
                    let was_faulted = real.rt.faulted();
                    for side in std::iter::once(&mut real).chain(twin.iter_mut()) {
                        side.rt.io_mut().inputs_mut().copy_from_slice(&bytes);
                        if let Some(b) = op["trig"].as_bool() {
                            side.rt.storage_mut().set_global("trig", Value::Bool(b));
                        }
                        side.rt.set_current_time(Duration::from_nanos(now));
                        let r = guard("execute_cycle", || side.rt.execute_cycle())?;
                        results.push(r.err().map(|e| variant_name(&e)));
                        ran.push(tasks_run(side));
                    }
                    if results[0].is_none() {
                        changed_cycles += 1;
                        published = true;
                    }
                    match &results[0] {
                        None => {}
                        Some(e) if e == "DivisionByZero" && in_w == 77 => stats.inc("fault.value_fault"),
                        Some(e) if e == "ResourceFaulted" && was_faulted => {}
                        Some(e) => {
                            return Err(Violation::new(format!("cycle/unexpected-error/{e}"), format!("op {opi}: {e}")));
                        }
                    }
                    // periodic save observed?
                    let calls = store.0.lock().unwrap().store_calls;
                    if calls > store_calls_seen {
                        store_calls_seen = calls;
                        durable = snapshot_retained(&real.rt);
                        stats.inc("probe.periodic_save_observed");
                    }
                    stats.log(&format!("op{opi}:cycle:{:?}:{:?}", results[0], ran[0]));
                    if let Some(t) = twin.as_ref() {
                        if results[0] != results[1] {
                            return Err(Violation::new(
                                format!("{ctx}/cycle-result-differs"),
                                format!("op {opi}: cycle result {:?}, model {:?}", results[0], results[1]),
                            ));
                        }
                        if ran[0] != ran[1] {
                            return Err(Violation::new(
                                format!("{ctx}/task-activation-differs"),
                                format!("op {opi}: tasks run {:?}, model {:?}", ran[0], ran[1]),
                            ));
                        }
                        if ran[0].iter().any(|t| t == "Ev") {
                            stats.inc("probe.event_task_ran_after_restart");
                        }
                        compare(&real, t, &ctx, &vars, trig_retain, &format!("op {opi} after a cycle"), published)?;
                        let mut sh = shape;
                        sh.str(&ctx).u64(changed_cycles.min(8));
                        stats.state(sh.finish());
                    }
                }
            }
        }
        Ok(())
    }
}
