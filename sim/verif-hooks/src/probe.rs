//! H5b - statement trace probe for the debugger checks.
//!
//! `statement(file, start, end, depth)` is called from
//! `DebugControl::on_statement_inner` for every statement that reaches the
//! debug hook.  The trace is process-global (the cycle thread writes it, the
//! controller/oracle reads it) and guarded by a std mutex that is never held
//! across a scheduling point.
use std::sync::Mutex;

#[derive(Debug, Clone, Copy, PartialEq, Eq, Hash)]
pub struct StmtEvent {
    pub file: u32,
    pub start: u32,
    pub end: u32,
    pub depth: u32,
}

static TRACE: Mutex<Option<Vec<StmtEvent>>> = Mutex::new(None);

pub fn enable() {
    *TRACE.lock().unwrap_or_else(|e| e.into_inner()) = Some(Vec::new());
}

pub fn disable() {
    *TRACE.lock().unwrap_or_else(|e| e.into_inner()) = None;
}

pub fn statement(file: u32, start: u32, end: u32, depth: u32) {
    if let Some(trace) = TRACE.lock().unwrap_or_else(|e| e.into_inner()).as_mut() {
        trace.push(StmtEvent { file, start, end, depth });
    }
}

pub fn len() -> usize {
    TRACE.lock().unwrap_or_else(|e| e.into_inner()).as_ref().map_or(0, Vec::len)
}

pub fn snapshot() -> Vec<StmtEvent> {
    TRACE.lock().unwrap_or_else(|e| e.into_inner()).clone().unwrap_or_default()
}
