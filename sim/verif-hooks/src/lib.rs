//! Hook code called from the cfg-guarded (`--cfg trust_verif`) call sites in
//! /repo.  Everything here is simulator-owned state; with the cfg off none of
//! it is compiled into the product.
#![allow(unexpected_cfgs)]

pub mod budget;
pub mod fs_std;
pub mod probe;
#[cfg(feature = "shuttle")]
pub mod sync_std;
